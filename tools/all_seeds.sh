#!/bin/sh
# run every stored seed against the check of its own property (quick tier); summary on stdout
cd /verif
for d in seeded/*/; do
  id=$(basename $d); prop=${id%-*}; w=${id#*-}
  res=$(python3 tools/try_seed.py $prop $w --skip-confirm 2>&1 | tail -1)
  echo "$id :: $res"
done
