#!/usr/bin/env python3
"""Regenerate /verif/MANIFEST.json from the table below (single source of truth)."""
import json
import os

HERE = os.path.dirname(os.path.dirname(os.path.abspath(__file__)))

CHECKS = {
    "C16": dict(
        technique="TLC model checking of SeqCounter.tla (complete graph) + every-edge replay into both counter implementations + TLC linearisability validation of recorded concurrent/wire histories",
        text="The complete finite state graph of the two counters is model-checked (range, successor-in-own-cycle, never 0, independence; unlocked variant refuted as negative control). Every edge of TLC's graph is replayed into GeckoAsyncUdpProtocol and GeckoUdpSocket; concurrent call histories of the threaded socket (preemption injected at every line + free-running stress) and the wire histories of real async/threaded client sessions are validated by TLC as runs of the model. Wire sessions include a lossy async session (retries draw numbers), water-care changes against an answering peer, and a blocking session whose ping thread runs (cooperative real threads on the virtual clock) through a period without ping answers.",
        note="Trusted: TLC, the dot-graph parser, the datagram decoder (verb + sequence byte), the W1/W2 doubles. Real-thread preemption is sampled, not exhaustive.",
        design="§4 C16"),
}

CHECKS["C01"] = dict(
    technique="TLC model checking of StatusTransfer.tla (async+sync variants; safety under loss/dup/re-order/timeouts, fault-free liveness) + replay of TLC-emitted transitions into the real structure classes/simulator + TLC trace validation of real-scale fault-injected transfers",
    text="All (start,len) ranges of a small block are model-checked against every loss/duplication/re-ordering/timeout pattern within a fault budget for both client variants (NoPartialInstall, OkMeansSpaBytes with per-byte source offsets, SentBound, fault-free success as a liveness property). TLC's transitions are replayed step by step on GeckoAsyncStructure.get / GeckoStructure + the real simulator chain with projected state compared after every action; at real scale (1024/39/configured retries) seeded fault scripts are recorded and TLC validates each log as a behaviour of the spec, evaluating the invariants on every state. The blocking stack is stepped by running one pass of the real engine loop; datagrams are also handed to it back to back, and stragglers are delivered after the transfer returned (LateDeliver in the specification: nothing changes, nothing is sent).",
    note="Trusted: TLC, W1/W2 doubles, un-framing by the real packet handler outside the consumer task, byte classification (old/spa/junk) with position-coded or random blocks. Fault-free success is at transfer level (queue races are C07).",
    design="§4 C01")

CHECKS["C05"] = dict(
    technique="TLC model checking of PartialUpdate.tla (all short histories, both handler variants, accumulating-list negative control) + TLC trace validation of recorded real histories (async consume() task on the virtual loop, threaded stepped engine) with installs observed at their linearisation point",
    text="All histories of <=4 partial-update messages / unreported spa changes / refreshes over a small block are model-checked for both handler variants (client block = sequential reference, one ack per message, ack in protocol range); the variant that never resets its change list is refuted as a control. Real histories (random and repeated positions, the 1-byte form, refreshes overwriting the same positions, one long history past the counter wrap) on the real async and threaded clients are recorded - every block install with the installing task, every STATQ - and TLC validates each log against the spec. Refresh calls are logged with their reported result: a refresh that reports success must leave its range equal to the spa's; every history contains a value that is changed by a reported update, silently changed back and refreshed by a byte-identical refresh. Partial updates that arrive during the handshake (before the first full block) are logged as early events: acknowledged once, and nothing they leave in the handler may come back with a later message.",
    note="Trusted: TLC, W1/W2 doubles, the instance-level wrapper around replace_status_block_segment, STATQ decoding by the harness. Steps are taken only while no transfer is in flight (a refresh overlapping a spa-side change is a protocol-level race, not a library property).",
    design="§4 C05")

CHECKS["C02"] = dict(
    technique="BitField.tla operators as oracle: laws model-checked by TLC on the complete sub-field/word/value domain; every shipped item driven through both real write paths and each record judged by TLC (C02_Judge)",
    text="Read/Write/Outside of bit fields inside 1/2-byte big-endian words are specified in BitField.tla; TLC checks read-back, isolation and neighbour laws for every (bit position, mask) shape x word content x value (quick: 1024 word contents incl. all 1-byte ones; thorough: all 65536). The harness extracts every item of all 151 config/log modules through real accessor objects and runs the sync and async write paths; TLC judges each record: refusal for read-only items, emitted (pos,len,word) = Write(existing, shape, value), mask derivation from MaxItems, applied block, read-back, other bits/bytes/items unchanged. Temperature items go through the temperature accessor's write paths (every raw in the setpoint range x unit x path) and are judged by C14_Judge. Exceptions raised by the library while a device write is applied are recorded outcomes; a history with notifying updates switches the unit setting through an update that starts exactly at the units byte and reads / writes temperatures on the same accessor objects.",
    note="Trusted: TLC, extraction of shapes through accessor attributes, application of a device write as a big-endian word at (pos,len). Known findings: three ill-formed table entries (D12).",
    design="§4 C02")
CHECKS["C14"] = dict(
    technique="temperature arithmetic of BitField.tla on exact rationals: laws model-checked on all 65536 raws x 2 units; records of the real temperature accessor / water heater (all raws, both write paths, decimals, units, operation ladder) judged by TLC (C14_Judge)",
    text="Shown/Stored/WithinOneStep and the operation ladder are specified in TLA+; C14_MC checks Stored(Shown(raw)) = raw, monotonicity and hundredth-degree behaviour exhaustively. The real GeckoTempStructAccessor is read for every raw word in both units, the shown value written back through both write paths (must reproduce the raw word), every hundredth of a degree in and around the allowed range written (within one device step, order preserved), and GeckoWaterHeater's unit symbol, limits and current_operation evaluated for every flag/temperature combination on real table pairs of every platform; TLC judges every record. Writes through the heater's own setters (both stacks) for a sweep of raw words in both units; a notifying unit-switch history on the same accessor objects.",
    note="Trusted: TLC, Fraction(x).limit_denominator(180) as the float->rational projection, symbol tags. Platforms without TempUnits/heater items cannot build a heater (C11 finding) and contribute no records.",
    design="§4 C14")

CHECKS["C18"] = dict(
    technique="PackTables.tla (publish-only layout history, item well-formedness in BitField terms) model-checked with an editing negative control; complete extraction of all shipped modules judged by TLC (C18_Judge) incl. the immutability step from the layout pinned at the audited commit",
    text="Every item of all 164 modules is extracted through real table/accessor objects and judged by TLC for well-formedness (bytes inside the block, bit field inside its bytes, labels representable), every advertised key list must name items, module names must agree with declared platform/version and with the FILES naming decoded by the real config-file handler for all 895 combinations, and each of the 20 669 pinned keys must be unchanged (ImmutableStep). Both clients' real handshakes against a spa reporting a given file naming must load exactly the designated modules; the generator tests/packgen.py is exercised by regenerating every shipped table from its own declarations with the real generator functions and comparing layouts.",
    note="Trusted: TLC, the extractor (attribute reads), pins/pack_layout.json.gz generated from commit 236b7b1. Known findings: three ill-formed entries (D12), recorded by item key.",
    design="§4 C18")

CHECKS["C04"] = dict(
    technique="Wire.tla (byte layout of every message kind, framing, claim matrix, reply addressing) with laws model-checked by TLC over delimiter-made payloads; records from the real constructors / all 15 handler classes / peer decoders judged by TLC (C04_Judge)",
    text="Enc, Frame, ParseFrame, ParseHello, Claims and Owner are specified in TLA+; Wire_MC checks frame and hello round trips for payloads built from the tags themselves, the claim matrix and prefix-freeness. Every real constructor is called with boundary and seeded field values (all sequence/position boundaries, 0..255-byte binary segments incl. tag text and newlines, signed reminder days, every shipped platform name x versions, names with separators and latin-1); bytes, can_handle of every standard class on datagram and content, fields decoded by a fresh and by a long-lived peer handler, and a reply built from the received parms are judged by TLC. The bundled simulator as a responder (SimAnswers in Wire.tla): for every request datagram the verbs it queues, their addressing and the RF-error mode are judged.",
    note="Trusted: TLC, attribute extraction from handler objects. Identifiers contain no tag text. Known finding D13 (SETWC/WCREQ unclaimed) is judged against the stated property and matched by verb.",
    design="§4 C04")

CHECKS["C03"] = dict(
    technique="Notify.tla model-checked by TLC (all offset/segment updates x watch/unwatch interleavings on a small block with byte-sharing and straddling items; first-byte filter refuted as control) + step records from real table pairs on both structure classes judged by TLC (C03_Judge)",
    text="The callback multiset of every update step is specified from decoded values before/after; TLC explores every (offset, segment) on a 4-byte block with items sharing and straddling bytes and every watch/unwatch/unwatch_all order, which also proves the lemma behind the range-intersection filter. On real config/log pairs of every platform, both structure classes, histories of patches (every offset class relative to 1- and 2-byte items, full refreshes, identical rewrites, single-bit flips) interleaved with registration churn (duplicate watch, unwatch, unwatch_all) are recorded and each step judged by TLC: exactly one call per live distinct observer iff the decoded value (temperatures: stored reading) changed, correct old/new values, new block visible. Observers are closures and bound methods (registered twice: equal, not identical); the block is occasionally replaced wholesale and the previous update repeated; every step records whether the update was installed at all.",
    note="Trusted: TLC, canonicalisation of callback values, the W3 table construction. Items outside the block (known finding D12c) are not watched.",
    design="§4 C03")

CHECKS["C17"] = dict(
    technique="ConfigMode.tla model-checked by TLC (shared future as generations; all interleavings of sleepers/switches/timeouts; always-renew control refuted) + TLC trace validation of real config_sleep/set_config_mode executions on the virtual loop + facade on/off records judged by TLC",
    text="TLC explores every interleaving of 3 sleepers, 3 switches and delays <=3 ticks: the table is never a mixture, nobody oversleeps, every sleeper waits on a future the next switch resolves. Real executions (1..20 concurrent sleeper tasks, seeded delays, switch times, mid-sleep cancellations, four wake-order policies) are logged in virtual milliseconds and validated by TLC: a wake must happen at the switch instant or at the sleeper's own deadline, time may not advance past a due wake-up, every switch installs the complete target table. The facade rule is checked on real facades of every platform for every on/off combination of pumps and blowers, including a reconnect history. On the full async stack a pump changes state while the facade's update cycle is suspended in a late water-care poll; the installed table must match the devices when the cycle has finished.",
    note="Trusted: TLC, the virtual loop (ms grid snapping + rank offsets), derivation of member lists from the config classes. set_config_mode before any sleep raises by design (asserted in code) and is not exercised.",
    design="§4 C17")

CHECKS["C15"] = dict(
    technique="Discovery.tla model-checked by TLC for the four filter settings (consumer and discover loop as independent pollers, replies at any time/multiplicity) + TLC trace validation of real GeckoAsyncLocator.discover() runs against scripted responders on the virtual loop",
    text="TLC checks NoDuplicates, OnlyRequested, WithinTimeout, PromptWhenFiltered, PromptWhenAny and NotEarly over every arrival pattern of <=4 replies from 3 spas and every consumer/loop wake order. Real discovery runs (0..6 responders with names containing '|' and latin-1, duplicate and late replies, loss, address/identifier/absent filters, suspended client handlers, four wake-order policies, a boundary grid around the initial wait and the timeout) are logged - reply arrival, queue pops, announced descriptors, return time, listed spas, endpoint and LOC tasks - and validated by TLC (FIFO consumption, one announcement per new wanted spa with identifier/name/address intact, listed = announced, return-time rule, endpoint closed, no helper task left). Ten runs use a loop whose every wake-up is up to 30 ms late; the trace bounds move by one lateness, not one per poll. The blocking GeckoLocator runs on the stepped engine (caller loop and real retry thread under strict hand-over on the virtual clock) and is validated by the same trace specification in its ListsAll variant.",
    note="Trusted: TLC, virtual loop, queue wrapper. Timing tolerance one poll + 6 ms (+ the client's own handler suspension where it delays the code). Only hello replies are sent to the locator's queue. Known finding D20: the blocking locator lists spas other than the requested one.",
    design="§4 C15")

CHECKS["C11"] = dict(
    technique="Facade.tla value semantics (no Raise transition) as oracle; every platform x config x log combination built as a real facade on several blocks, every read-only member evaluated by reflection; records judged by TLC (C11_Judge)",
    text="For all 895 combinations on disk and all-zero / all-ones / random / pattern / shipped-snapshot / mutated-snapshot blocks the real GeckoAsyncFacade is constructed on a mock spa and every public property, str, repr, monitor, device list and lookup of the facade and of every device is evaluated (>1.1 M evaluations in the quick tier); all 256 water-care mode bytes, boundary reminder records for every reminder type and out-of-range values of every enum item of one table pair per platform are evaluated. TLC judges: facade constructed, no member raises, out-of-range reads 'Unknown', water-care/reminder renderings as specified.",
    note="Trusted: TLC, member discovery by reflection, the mock spa. Known findings D6: three platforms/log versions for which no facade can be constructed (recorded by platform signature).",
    design="§4 C11")
CHECKS["C12"] = dict(
    technique="Facade.tla Inventory operators model-checked over all wirings of a small table (Facade_MC); real async and blocking facades built for enumerated output wirings on real table pairs; inventory, keys, lookups, unique ids judged by TLC (C12_Judge)",
    text="The inventory function (device present iff a connected output's label starts with its key, table order, once each, case-insensitive user-demand match, class from DEVICES, sensors iff their item exists) is specified with code-point sequences so that TLC decides the prefix tests; Facade_MC checks it on all 512 wirings of 3 outputs incl. duplicates. On real config/log pairs of every platform each output is wired to each sampled label with the others NA plus seeded multi-output wirings; both facade classes are built and TLC compares pumps/blowers/lights (device, demand item, order), sensors, key uniqueness, lookup identity and unique ids with the specification. Wirings include combinations of accessories without an automation class and wirings with every output occupied; a facade that cannot be built for a wiring of a buildable table pair is a verdict.",
    note="Trusted: TLC, the W3 facade rig, writing label indices into the block as the wiring. Platforms without a constructible facade (C11 finding) contribute nothing.",
    design="§4 C12")

CHECKS["C19"] = dict(
    technique="SnapshotLog.tla (parser line automaton + writer line sequence) with laws model-checked by TLC; abstract behaviours concretised with the shell's real logging statements/formatter, a real client's DEBUG traffic log, and every shipped snapshot served by the real simulator to both real clients; records judged by TLC (C19_Judge)",
    text="TLC checks that a writer block parses back to exactly its fields under any surrounding junk lines, that two blocks yield two snapshots and that segments join in order. The real do_snapshot/version_strings statements are run through the shell's log-file formatter for blocks covering every byte value at every position residue, quotes, backslashes and control bytes, with junk lines around, and parsed back; real threaded-client traffic logs of a full connection (segment sizes 1..255, perturbed blocks) must reassemble to the transferred block; each of the 38 snapshots in the 34 shipped files is loaded into the real simulator and fetched by the async and the threaded client, also with the simulator's own reliability factor below 1 (a client that connects must hold the snapshot's bytes). One shell object writes all snapshots of a run (a session that manages one spa after another). Traffic-log blocks contain bracketed text inside single segments (D21).",
    note="Trusted: TLC, W1/W2 doubles, the stub that carries the shell's logging statements. D17 (double quote in a full segment) was found and fixed.",
    design="§4 C19")

CHECKS["C20"] = dict(
    technique="ThreadedEngine.tla model-checked by TLC (iteration sub-steps with registration/enqueue/arrival/time in between; no-re-arm control refuted) + TLC-simulated behaviours replayed sub-step by sub-step into the real GeckoUdpSocket + real blocking-client handshakes under bounded loss judged by TLC",
    text="TLC checks FIFO order of transmissions, pacing >= 1/rate, <= 1+N transmissions, no retransmission after an answer, removal at the next cleanup, for all registration orders of two requests and an overlapping, raising service handler. Hundreds (quick) to thousands (thorough) of TLC-simulated behaviours are replayed on the real engine with handlers mirroring the model and the projected state compared after every sub-step (this found and now models that a retransmission queued before the first transmission is dropped for lack of a destination). The real blocking client completes its handshake against the real simulator with an identical block under seeded loss patterns that lose up to N leading attempts of every step; transmissions per step and send gaps are judged by TLC. Handshakes lose any one segment of a status-block answer (first, second, middle, last). Registry.tla models registrations between the two critical sections of the cleanup pass (write-back-from-copy control refuted; inductive invariant discharged by Apalache for an unbounded number of steps) and is replayed on the real socket by running another thread's registration at every lock release inside the real cleanup call; a handler whose can_handle raises must not stop the engine.",
    note="Trusted: TLC, the stepped engine (W2), exact binary time units in the replay. Assumption: no handler timeout elapses between a datagram's dispatch and the timeout scan of the same iteration. Real-thread preemption is explored at lock releases inside the cleanup pass (Registry.tla replay); other preemption points of the queues are not (C16 covers the locked counters).",
    design="§4 C20")

CHECKS["C06"] = dict(
    technique="AsyncEngine.tla model-checked by TLC at poll granularity (FIFO lock, retry/timeout/pause, consumers in arbitrary in-tick order, reply loss/lateness) + TLC trace validation of real connections with concurrent API callers under reply faults and closed gates",
    text="TLC checks MutualExclusion, lock-holder = the only busy caller, attempts <= R, reply only after a transmission, failure only after R attempts and the call bound R*(T+P)+R+1 polls over all interleavings of two callers with lost and late replies. On the real stack 1..8 concurrent API calls (water care, reminders, key press, set value) run next to the ping/refresh/facade loops with seeded reply loss, delay and duplication, and with the freshness gate closed in the idle and in the active configuration; every send, queue put/mark/pop with the acting task, call start (with an independently computed gate) and return is logged in execution order and TLC validates: one request outstanding at a time, explicit calls served in arrival order, <= R fresh attempts, result consistent with what was popped, duration bound, nothing sent by a call whose gate was closed. Scenario kinds: concurrent calls under reply loss/delay/duplication, closed gates (idle and active table), chatter (most replies lost while unsolicited partial updates keep arriving), stalls (the event loop wakes up late; each stall is logged and moves the bounds of the trace specification by exactly its length). Logs are validated against the configuration table in force while they ran (an all-replies-lost call in active mode included).",
    note="Trusted: TLC, virtual loop, queue wrapper, harness decoding of verbs/sequence bytes, the freshness window 2 x PING_FREQUENCY as the meaning of 'answering pings'. Gates are read as evaluated at call start (the code checks once, before the lock); retransmissions after freshness expires mid-call (D11) are outside this reading and documented in DESIGN.md.",
    design="§4 C06")
CHECKS["C07"] = dict(
    technique="AsyncEngine.tla dispatch invariants model-checked by TLC (CapablePopper, UnhandledOnlyMarked, NoHeadOfLine) + TLC's order-flip witness schedule reproduced on the real queue + TLC trace validation of real connections under junk / mis-addressed / malformed traffic and four wake-order policies",
    text="TLC checks that only accepting consumers pop, Unhandled only pops what it marked a wake-up earlier, and no datagram heads the queue for more than 3 polls + stalls, under every in-tick order; its counterexample to 'Unhandled never discards a framed packet' (Packet before Unhandled in one tick, the reverse in the next) is imposed on the real consumers with the loop's rank script and must reproduce, while both stable orders must let the Packet consumer take the packet. Real connections receive seeded sequences of unknown, unsolicited, mis-addressed, malformed, water-care-error, RF-error and partial-update datagrams (with a client handler that suspends), with and without waiters; TLC validates FIFO single consumption, acceptance by the popping consumer, mark-before-Unhandled-pop, re-queue only of well-formed correctly addressed frames, head-of-line bound; state around mis-addressed traffic is compared directly. A third of the scenarios run on an event loop that occasionally stalls (logged stalls move the head-of-line bound). Junk that arrives during the handshake (queue tapped from the creation of the endpoint) must not stay at the head of the queue nor keep the handshake from completing.",
    note="Trusted: TLC, virtual loop with scripted ranks, queue wrapper, harness classification of datagrams. 'A few polling intervals' = 3 polls + 12 ms.",
    design="§4 C07")

CHECKS["C08"] = dict(
    technique="Lifecycle.tla (frames per task, running token, budgeted client-handler suspension, known findings as named flags) model-checked by TLC + TLC trace validation of real manager executions with every non-delivery step inferred (Lifecycle_Trace)",
    text="The _handle_event switch, pump, locate/connect brackets with finally, non-atomic reset, ping/runtime events and context exit are transcribed frame by frame; TLC runs the bounded configurations (without and with suspension) to closure and checks ConnectedSound, ReadyIffEnterConnected, TeardownBracket, BracketsSane/ClosedAtExit, SensorMirrorsState and ResetLandsIdle in the form 'or the behaviour took a listed known-finding transition'. The real GeckoAsyncSpaMan runs on the virtual loop against the real simulator through blackout, lossy and RF-error phases (idle and active configuration), resets at enumerated points of discovery/handshake/steady/error states, suspended client handlers and context exit; every handle_event delivery with sampled state, facade, spa, descriptors, status-sensor text and delivering task plus the harness's actions is validated by TLC against the specification, invariants evaluated on every state of the matched behaviour. Further modelled and exercised: phases that raise (the loop refuses to create the endpoint of a discovery or of a connection), RF errors counted per connection up to and past MAX_RF_ERRORS_BEFORE_HALT (also while the SPA_COMPLETE handler is suspended), async_set_spa_info incl. managers started without an identifier, wake-up jitter in the seeded mixtures.",
    note="Trusted: TLC, virtual loop, the simulator, mapping of task names to model tasks (epoch = connection attempts started before the task was created). Request outcomes are not tied to the network mode in trace mode. Known finding D10 (reset overtaken during a suspended handler); D8 and D18 were found and fixed.",
    design="§4 C08")
CHECKS["C09"] = dict(
    technique="Lifecycle.tla safety (PumpAlive) and liveness (Quiet ~> CONNECTED under strong fairness, thorough tier) by TLC + TLC trace validation of real fault/reset scenarios + measured recovery/out-of-service times judged by TLC against bounds from the live configuration (C09_Judge)",
    text="Same specification and runs as C08 with the emphasis on recovery: after the script's last fault (blackouts from 3 s to 400 s at discovery/handshake/steady state, lossy and RF-error phases, resets at every enumerated point of a connection attempt, seeded mixtures) the run continues for a bound derived from the configured timeouts and must be CONNECTED with the pump task alive and a client block equal to the simulator's; a long blackout in steady state must take the manager out of CONNECTED within its bound. The logs are validated against Lifecycle_Trace; the measured times are judged by TLC. Faults are placed relative to a pilot run of the real code (a blackout beginning just before each discovery / handshake datagram); set-spa-info calls are injected like resets, also on managers started without an identifier. Liveness (Quiet ~> CONNECTED or a listed escape) is model-checked in both tiers on LifecycleLive.tla, which drives the same transition relation with a round-robin scheduler so that one weak-fairness condition suffices; without the NOT_FOUND excuse the property is refuted (D9 at design level).",
    note="Trusted as C08. Known findings: D9 (ERROR_SPA_NOT_FOUND is terminal) and D10; D8 (pump dies on reset while connecting) and D18 (stranded in SPA_READY) were fixed. Liveness under fairness is checked on the model only (thorough tier, outer timeout).",
    design="§4 C09")

CHECKS["C10"] = dict(
    technique="Lifecycle.tla resource variables (endpoints, task families) with Reset/Exit at every frame boundary and TaskBook.tla (bookkeeping list) model-checked by TLC + crash-point enumeration of resets and context exits on the real manager with exact resource accounting on the virtual loop, records judged by TLC (C10_Judge)",
    text="TLC checks NoTaskLeakAfterReset, NoTaskAfterExit and BracketsClosedAtExit on the Lifecycle model. On the real stack every transport handed out (and its close()) and every task (through the task factory) is tracked; resets are injected on a grid of virtual times over discovery, each handshake step, steady state and error states, context exits likewise; after each reset the endpoints and tasks of the abandoned connection are examined, late datagrams (STATP, RFERR, APING, WCERR, STATV) are delivered to every abandoned protocol object and 200 virtual seconds pass with all accessor / spa / device observers instrumented; reconnect cycles measure boundedness; a sweep of the task-tidy period moves the tidy pass relative to task creation. TaskBook.tla models the bookkeeping list (atomic tidy pass: NoOrphan holds; read-suspend-write-back control is refuted) and is bound by a probe that adds a task at every loop iteration of the real manager across several tidy passes: no live task may be missing from the list and cancelling the family ends them all. TLC judges every record. Leaving the context is bounded in virtual time: a context exit that does not return is a verdict.",
    note="Trusted: TLC, virtual loop accounting. 'Promptly' = 0.3 s after a reset returned (discovery resources: the discovery timeout), 1 s after exit. Known finding D7b (exit without reset leaves the connection endpoint open); D7, D15, D19 were found and fixed.",
    design="§4 C10")

CHECKS["C13"] = dict(
    technique="command semantics specified in TLA+ over BitField.Write (C13_Judge) with a spa model (apply / toggle / derived state / echo); real async and blocking facades driven against the real simulator extended by an apply-and-echo peer; every command record judged by TLC",
    text="For every snapshot configuration, every pump mode, blower/light/eco on and off from both prior states (repeated to exercise idempotence), target temperatures, unit changes and water-care modes are issued through the real facade on the real async spa (virtual loop) and through the blocking facade on the stepped engine; the peer decodes the command datagrams with the real pack-command handler, applies them to the simulator's block, derives the output state and echoes partial updates (its actions are part of each record). TLC judges: nothing sent when already in the requested state, otherwise exactly one SPACK with a command-range sequence number, the connected pack's type and config/log versions, the right key code or (pos, len, word = Write(existing, shape, value)), SETWC in the protocol range, and the requested value read back by the client after the echo. Target temperatures cover every tenth of a degree Fahrenheit and every half degree Celsius of the setpoint range (strides in the quick tier), which also puts more commands on one connection than the command counter has values.",
    note="Trusted: TLC, W1/W2 doubles, the apply-and-echo spa model (key press toggles OFF <-> first other label; output state follows the demand). The blocking water-care set is fire-and-forget and not judged. Snapshot configurations do not include inXM log 4/5, where the eco switch's item is read-only (noted in DESIGN.md).",
    design="§4 C13")

NOT_YET = {}


# additions of rounds four and five (DESIGN §6 names the seeded changes that led to each)
EXTRA = {
    "C01": "Histories of two transfers on one blocking structure (the first spends its retries), transfers that neither succeed nor fail as a verdict, and blocks containing the protocol's own tag text are included.",
    "C03": "Full refreshes through the real refresh path of both structure classes (segment boundary cutting a watched 2-byte item) are judged like any other update.",
    "C05": "Histories include a reported change between the segments of an outstanding refresh (outside and inside the refreshed range; events in arrival order with install sequence numbers and fetch events), bursts faster than the consumers drain, and changes placed just before the ping loop's next request.",
    "C06": "Scenarios include the loss of the transport under calls in progress (TDown), calls right after the not-responding declaration, calls arriving while the refresh loop's request is in flight; a background caller that ends with an exception is a violation.",
    "C07": "Floods of 70/100 datagrams with known traffic behind them, and an accounting of datagrams handed to the endpoint against datagrams that entered the queue.",
    "C08": "Resets are also placed shortly after every event delivery of an undisturbed pilot run; a network mode in which only pings are lost.",
    "C09": "Resets shortly after every event delivery of a pilot run; connections that never had a ping answered before the spa becomes unreachable. The known finding D9 is identified by an unreachable spa during the discovery that ended in NOT_FOUND.",
    "C10": "Steady-state records after every reset scenario (a manager without a connection has no connection task or endpoint alive; otherwise no task name twice), resets in the zero-length pause after the endpoint was opened, the library's own recovery reset with a yielding client handler, truncated handshake answers.",
    "C14": "The heater's three readings (current, target, real target) for raw words including 0, with the other items holding different words.",
    "C15": "Empty address / identifier strings count as 'no filter'.",
    "C16": "The blocking wire session receives reported changes throughout; preemption enumeration and stress histories also run on GeckoSpa, the class the blocking client instantiates.",
    "C17": "Lights are switched in the on/off sweep and must not select the active table.",
    "C19": "Snapshot names with bracketed tokens; traffic logs of blocks containing the protocol's tag text (exposed D22, fixed).",
    "C20": "The connection sequence as a whole is specified in SyncConnect.tla (request chain with budgets, final connect, ping thread and the connection timeout) and real connections under loss inside and beyond the budgets are validated against SyncConnect_Trace.",
}
EXTRA6 = {
    "C03": "An observer may apply another update from inside its callback (re-entrant history): both updates are judged.",
    "C05": "The blocking client's periodic refresh loses a middle segment while a change inside an already received segment is reported; byte-identical consecutive reports.",
    "C06": "Answers addressed to another client of the same spa arrive while ours are lost; an API call that ends with an exception is allowed only after the transport was lost.",
    "C07": "Well-addressed frames with bytes before or after them (NUL, space, CRLF, truncation) are malformed framing and must have no effect.",
    "C08": "Resets inside a suspended handler of the connection attempt (occurrence-keyed suspensions); RF bursts placed by the pilot run's handshake events.",
    "C09": "A reset while the handler of the connection's own LOCATING_FINISHED is suspended; a live value whose change report is lost must be mirrored again after the periodic refresh.",
    "C10": "A key press waiting for its acknowledgement at reset / exit; a client that watches individual devices and resets from inside the facade's update task (lateness judged by order).",
    "C12": "Table order is read from the table module, not from the structure object.",
    "C13": "A second pass over the pumps while the other pumps are running (fields sharing a byte are non-zero).",
    "C14": "Set point writes with the spa's current set point one device step to either side of the requested one.",
    "C15": "Every task a discovery run starts must be gone when it returns; evidence: a stray datagram on the locator's queue (LocatorQueue.tla witness reproduced, outside the property).",
    "C16": "One GeckoAsyncSpa object connected, disconnected and connected again; open() called by the intruder during a victim's call.",
    "C17": "The harness re-evaluates the mode once per facade (first update cycle) and otherwise relies on the facade's own watchers.",
    "C18": "Platforms are also fed through the handshake under the spelling a spa reports (MrSt for MrSteam).",
    "C19": "Shipped snapshots are also served by a simulator brought up with first commands (load <file>).",
    "C20": "Whole passes of the real engine with the answer already waiting in the pass in which the timeout runs out.",
}
EXTRA7 = {
    "C03": "A re-entrant update may also hit the very item being notified (items that share their bytes with no other).",
    "C05": "Word records at the block's last byte are included (judged on the byte inside the block).",
    "C06": "Traffic that is not for this client flows during lossy calls and during the silent phase of the gate scenarios.",
    "C07": "A request whose answers are all lost under a stream of foreign / malformed / unknown datagrams still runs out of attempts in its own time and returns.",
    "C08": "The manager context is left right after LOCATING_STARTED / CONNECTION_STARTED / GOT_FIRMWARE / GOT_CONFIG of the pilot run; scenarios with the spa's address configured.",
    "C09": "Scenarios with the spa's address configured, incl. a phase in which the first datagram of every new endpoint is lost; D9 is identified by a blackout or RF-error phase during the discovery.",
    "C10": "The operating system takes the connection's endpoint away shortly before a reset.",
    "C12": "Outputs holding a code beyond their label table; the oracle's labels are decoded by the harness from the block.",
    "C15": "Names and identifiers made of the hello tags' own characters; discovery runs cancelled while they wait.",
    "C16": "An endpoint error reported in the middle of a session; one blocking socket object opened, closed and opened again.",
    "C17": "Settings scrambled before a switch; facades built for a spa in which a pump already runs (full stack, real update task).",
    "C19": "A session of 140 (thorough 400) snapshots logged through the shell's own logfile command (exposed D23, fixed).",
    "C20": "Spas that name tables which are not shipped: no exception leaves the engine's loop.",
}
EXTRA9 = {
    "C02": "Write permission is treated as state: items are also written after their permission was granted and after it was revoked.",
    "C03": "An exception out of the library's own update is a verdict (update-raised).",
    "C11": "Every facade is evaluated a second time after its live block has been updated (unit switch, all bytes, seeded patch).",
    "C12": "The blocking facade is also built under the two earliest schedules of its engine and client threads (EagerSpa).",
    "C14": "The operation ladder runs with the other bits of the flags' bytes clear, set and seeded; flags are recorded as written by the harness.",
    "C16": "Status requests whose answers are lost are re-sent with the same number in the threaded wire session.",
    "C19": "Single-snapshot files are also loaded, the simulator's block changed, and loaded again.",
}
EXTRA10 = {
    "C01": "Two fault-free transfers of the same range with the client's copy changed in between (partial update, re-initialisation, reset).",
    "C05": "A transient socket error is reported to the protocol object in every awaitable history; exceptions out of the library's installs are verdicts.",
    "C06": "The refresh loop's cycle start is a logged event that must find the gate open (TBg).",
    "C07": "A deviation from TLC's order-flip witness is decided by the rest of the check.",
    "C10": "A reset that is interrupted (caller gives up, client handler raises) followed by a second reset.",
}
EXTRA11 = {
    "C02": "The cell an item occupies is taken from the table's declaration, not from the item under test.",
    "C03": "Re-registration after removal (watch, unwatch, watch) is part of every history; a refused removal is a verdict.",
    "C11": "Facades built on the all-ones block are updated to all zeros; reminder reports without a valid record.",
    "C18": "Spas reporting versions without a shipped table: no other table is loaded in their place (both clients).",
}
EXTRA12 = {
    "C05": "Every blocking history contains a quiet spell of 320 s followed by updates.",
    "C07": "A socket error reported while an unknown datagram is marked; identifier pairs that differ only by surrounding white space.",
    "C13": "Two blocking-twin commands issued back to back inside one loop iteration.",
    "C15": "Names containing the prefixes by which an app's own hello is recognised; every listed name is used.",
}
for _k, _v in EXTRA12.items():
    EXTRA[_k] = (EXTRA.get(_k, "") + " " + _v).strip()
for _k, _v in EXTRA11.items():
    EXTRA[_k] = (EXTRA.get(_k, "") + " " + _v).strip()
for _k, _v in EXTRA10.items():
    EXTRA[_k] = (EXTRA.get(_k, "") + " " + _v).strip()
for _k, _v in EXTRA9.items():
    EXTRA[_k] = (EXTRA.get(_k, "") + " " + _v).strip()
for _k, _v in EXTRA7.items():
    EXTRA[_k] = (EXTRA.get(_k, "") + " " + _v).strip()
for _k, _v in EXTRA6.items():
    EXTRA[_k] = (EXTRA.get(_k, "") + " " + _v).strip()
for _k, _v in EXTRA.items():
    CHECKS[_k]["text"] = CHECKS[_k]["text"] + " " + _v


def main():
    props = [json.loads(l) for l in open(os.path.join(HERE, "properties.jsonl"))]
    checks = []
    na = []
    for p in props:
        pid = p["id"]
        c = CHECKS.get(pid)
        if c is None:
            na.append({"property_id": pid, "reason": NOT_YET.get(pid, "check not built yet in this round (planned: see DESIGN.md §4 " + pid + "); nothing is claimed")})
            continue
        checks.append({
            "property_id": pid,
            "quick_cmd": f"./check {pid} --tier quick",
            "thorough_cmd": f"./check {pid} --tier thorough",
            "evidence_file": f"/verif/evidence/{pid}.json",
            "replay_cmd_template": f"./check {pid} --replay {{path}}",
            "engine": "gv",
            "level_claimed": {"category": "model_checking", "text": c["text"], "design_ref": c["design"]},
            "level_note": c["note"],
            "technique": c["technique"],
        })
    m = {
        "version": 1,
        "setup_cmd": "true",
        "hooks": {
            "guard": "GECKOLIB_VERIF",
            "enable": "no source hooks are needed: all observation is through public surfaces, the harness event loop, fake transports and a queue wrapper installed from the harness (checks still export GECKOLIB_VERIF=1)",
            "baseline_off_cmd": "cd /repo && /venv/bin/python -m pytest -ra -q -p no:cacheprovider --timeout=900 --continue-on-collection-errors",
            "source_commits": [],
            "add_only": True,
        },
        "engines": [{
            "name": "gv", "path": "/verif/harness/gv",
            "serves_properties": [c["property_id"] for c in checks],
            "kind_free_text": "TLA+ specs under /verif/spec checked with TLC; Python harness (virtual-time asyncio world, stepped threaded engine, sequential world) records executions of the real code that TLC validates against the specs, and replays TLC-generated behaviours into the real code",
        }],
        "checks": checks,
        "notes": "See DESIGN.md. Exit codes: 0 held, 1 VIOLATION (new), 2 machinery failure. Known findings: known_findings.json.",
        "not_applicable": na,
    }
    with open(os.path.join(HERE, "MANIFEST.json"), "w") as f:
        json.dump(m, f, indent=1)
    print("checks:", [c["property_id"] for c in checks], "na:", len(na))


if __name__ == "__main__":
    main()
