#!/usr/bin/env python3
"""pretty-print selected variables of a TLC counterexample: cex.py <tlc.out> var1 var2 ..."""
import re, sys
out = open(sys.argv[1]).read()
want = sys.argv[2:]
states = re.split(r"\nState (\d+): ", out)
for i in range(1, len(states), 2):
    n, body = states[i], states[i + 1]
    act = body.split("\n", 1)[0]
    act = re.sub(r" line \d+.*", "", act)
    vals = {}
    for m in re.finditer(r"^/\\ (\w+) = (.*?)(?=^/\\ |\Z)", body, re.S | re.M):
        vals[m.group(1)] = " ".join(m.group(2).split())
    print(n, act, " | ".join(f"{k}={vals.get(k, '?')[:90]}" for k in want))
