#!/bin/sh
# run every quick check on /repo as it stands; summary lines on stdout
cd /verif
for i in 01 02 03 04 05 06 07 08 09 10 11 12 13 14 15 16 17 18 19 20; do
  ./check C$i --tier quick 2>&1 | grep -E '^\[C|^VIOLATION|signature|MACHINERY|Traceback' 
done
