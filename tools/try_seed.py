#!/usr/bin/env python3
"""Confirm a seeded change (tests pass, demo fails with / passes without), store it under
/verif/seeded/<id>/, and run checks against /repo with the change applied (then undo).

usage: try_seed.py C16 a [--checks C16,C05] [--tier quick] [--skip-confirm]"""
import argparse
import json
import os
import shutil
import subprocess
import sys
import time

ap = argparse.ArgumentParser()
ap.add_argument("prop")
ap.add_argument("which")
ap.add_argument("--checks", default=None)
ap.add_argument("--tier", default="quick")
ap.add_argument("--skip-confirm", action="store_true")
ap.add_argument("--root", default="/tmp/seed", help="directory holding the agents' scratch worktrees")
ap.add_argument("--store-as", default=None, help="letter under which the seed is stored (default: same as 'which')")
ap.add_argument("--no-check", action="store_true", help="confirm and store only (the check is run elsewhere)")
a = ap.parse_args()

wt = f"{a.root}/{a.prop}"
sd = f"{wt}/seed_{a.which}"
sid = f"{a.prop}-{a.store_as or a.which}"
dst = f"/verif/seeded/{sid}"
PY = "/venv/bin/python"


def sh(cmd, cwd=None, env=None, timeout=1200):
    e = dict(os.environ)
    if env:
        e.update(env)
    p = subprocess.run(cmd, shell=True, cwd=cwd, capture_output=True, text=True, env=e, timeout=timeout)
    return p.returncode, p.stdout + p.stderr


ran = {}
if not a.skip_confirm:
    src = sd if os.path.exists(f"{sd}/patch.diff") else dst
    sh("git checkout -- . ", cwd=wt)
    rc, out = sh(f"git apply {src}/patch.diff", cwd=wt)
    assert rc == 0, out
    rc, out = sh(f"PYTHONPATH={wt}/src {PY} -m pytest -q -p no:cacheprovider --timeout=900 tests 2>&1 | tail -3", cwd=wt)
    ran["tests_with_change"] = out.strip().splitlines()[-1]
    assert "103 passed" in out, out
    rc1, out1 = sh(f"PYTHONPATH={wt}/src {PY} {src}/demo.py", cwd=wt, timeout=300)
    ran["demo_with_change"] = f"exit {rc1}: " + (out1.strip().splitlines()[-1] if out1.strip() else "")
    sh("git checkout -- .", cwd=wt)
    rc2, out2 = sh(f"PYTHONPATH={wt}/src {PY} {src}/demo.py", cwd=wt, timeout=300)
    ran["demo_without_change"] = f"exit {rc2}: " + (out2.strip().splitlines()[-1] if out2.strip() else "")
    print(json.dumps(ran, indent=1))
    assert rc1 != 0 and rc2 == 0, "demo does not discriminate"
    if src != dst:
        os.makedirs(dst, exist_ok=True)
        for f in ("patch.diff", "demo.py", "meta.json"):
            shutil.copy(f"{sd}/{f}", f"{dst}/{f}")

meta = json.load(open(f"{dst}/meta.json"))
meta.setdefault("confirmed", {}).update(ran)
if a.no_check:
    json.dump(meta, open(f"{dst}/meta.json", "w"), indent=1)
    print("stored", sid)
    sys.exit(0)
checks = (a.checks or a.prop).split(",")
rc, out = sh("git status --porcelain -- src", cwd="/repo")
assert out.strip() == "", "/repo has uncommitted changes: " + out
rc, out = sh(f"git apply {dst}/patch.diff", cwd="/repo")
if rc != 0:
    print(f"PATCH-DOES-NOT-APPLY {sid}: {out.strip().splitlines()[0] if out.strip() else ''}")
    sys.exit(3)
res = meta.setdefault("checks_run", {})
saved = {}
for c in checks:                      # evidence files describe the unchanged tree: keep them
    ep = f"/verif/evidence/{c}.json"
    if os.path.exists(ep):
        saved[ep] = open(ep).read()
try:
    for c in checks:
        t0 = time.time()
        rc, out = sh(f"./check {c} --tier {a.tier}", cwd="/verif", timeout=3600)
        viol = [l for l in out.splitlines() if l.startswith("VIOLATION")]
        sig = [l.strip() for l in out.splitlines() if l.strip().startswith("signature:")]
        res[f"{c}/{a.tier}"] = {"exit": rc, "violations": len(viol), "first_signature": sig[0][:300] if sig else None,
                               "wall_s": round(time.time() - t0, 1)}
        print(c, "exit", rc, "violations", len(viol), sig[:2])
        if rc == 2:
            print(out[-1500:])
finally:
    sh("git checkout -- .", cwd="/repo")
    for ep, txt in saved.items():
        open(ep, "w").write(txt)
json.dump(meta, open(f"{dst}/meta.json", "w"), indent=1)
