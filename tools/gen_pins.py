#!/usr/bin/env python3
"""Generate /verif/pins/pack_layout.json.gz from the audited commit's pack tables.
Refuses to run unless the pack tables and accessor.py are identical to 236b7b1."""
import gzip, json, os, subprocess, sys
sys.path.insert(0, os.path.join(os.path.dirname(os.path.dirname(os.path.abspath(__file__))), "harness"))
from gv import env
AUDITED = "236b7b1"
d = subprocess.run(["git", "-C", env.REPO, "diff", "--stat", AUDITED, "--", "src/geckolib/driver/packs",
                    "src/geckolib/driver/accessor.py"], capture_output=True, text=True).stdout.strip()
if d:
    sys.exit("pack tables differ from the audited commit:\n" + d)
env.use_repo()
from gv.layout import extract
lay = extract()
os.makedirs(os.path.join(env.VERIF, "pins"), exist_ok=True)
p = os.path.join(env.VERIF, "pins", "pack_layout.json.gz")
with gzip.GzipFile(p, "wb", mtime=0) as f:
    f.write(json.dumps({"audited_commit": AUDITED, "layout": lay}, sort_keys=True, separators=(",", ":")).encode())
print(len(lay), "keys ->", p, os.path.getsize(p), "bytes")
