------------------------------ MODULE BitField_MC -----------------------------
(* Complete-domain check of the BitField laws: every sub-field shape (bit position x
   mask inside a 1- or 2-byte word), every content of the word, every field value.
   The word contents are partitioned over processes by the environment variables
   GV_LO / GV_HI so that 16 TLC processes cover 0..65535 between them.                *)
EXTENDS BitField, IOUtils

Lo == atoi(IOEnv.GV_LO)
Hi == atoi(IOEnv.GV_HI)
Masks == {1, 3, 7, 15}
Sub(len) == { [type |-> "Enum", len |-> len, bitpos |-> bp, mask |-> m, nitems |-> m + 1, rw |-> "ALL"] :
              bp \in 0..(8 * len - 1), m \in Masks }
Shapes(len) == { s \in Sub(len) : WellFormedShape(s) }
Whole(len) == [type |-> "Byte", len |-> len, bitpos |-> -1, mask |-> -1, nitems |-> 0, rw |-> "ALL"]

Words(len) == { w \in Lo..Hi : w <= FieldMax(len) }

Laws(len) ==
  \A s \in Shapes(len) : \A w \in Words(len) : \A v \in Domain(s) :
     /\ ReadBackLaw(w, s, v) /\ IsolationLaw(w, s, v)
NeighbourLaws(len) ==
  \A a \in Shapes(len) : \A b \in Shapes(len) : \A w \in Words(len) :
     (w % 257 = 0 \/ len = 1) => \A v \in Domain(a) : NeighbourLaw(w, a, b, v)
WholeLaws(len) == \A w \in Words(len) : \A v \in {0, 1, w, FieldMax(len)} :
     ReadBackLaw(w, Whole(len), v) /\ Write(w, Whole(len), v) = v

VARIABLE done
Init == done = FALSE
Next == /\ ~done /\ done' = TRUE
Spec == Init /\ [][Next]_done
AllLaws == Laws(1) /\ Laws(2) /\ WholeLaws(1) /\ WholeLaws(2) /\ NeighbourLaws(1) /\ NeighbourLaws(2)
Inv == done => AllLaws
===============================================================================
