------------------------- MODULE StatusTransfer_Trace -------------------------
(* Trace validation of recorded status-block transfers of the real code (async:
   GeckoAsyncStructure.get on a real GeckoAsyncUdpProtocol; sync: GeckoStructure on the
   stepped GeckoUdpSocket engine) against StatusTransfer.

   Log: [req |-> [start, len], ev |-> << event, ... >>] with events
     [k |-> "send"]                                 a STATU left the client
     [k |-> "serve"]                                the simulator answered one STATU
     [k |-> "drop"|"dup", m |-> msg]                network fault chosen by the harness
     [k |-> "deliver", m |-> msg]                   a STATV was handed to the client
     [k |-> "late", m]  a segment delivered after the transfer returned;  [k |-> "final", ok, cli, blen, sent]
     [k |-> "ret", ok |-> BOOLEAN, cli |-> <<class per byte>>, blen |-> n]
   msg = [t |-> "U"] or [t |-> "V", idx, next, off, len] as decoded from the datagram.
   Client timeouts are not logged: the silent Timeout action is inferred, allowed only
   immediately before a logged "send" or "ret".                                      *)
EXTENDS StatusTransfer, TraceKit

VARIABLES tid, l, wire      \* wire: STATU datagrams seen on the wire so far
tvars == <<vars, tid, l, wire>>

Log == Logs[tid]
Ev == Log.ev
E == Ev[l]
More == l <= Len(Ev)

TInit == /\ TKInit /\ tid \in 1..NLogs /\ l = 1 /\ wire = 0
         /\ req = Logs[tid].req
         /\ cli = [p \in Pos |-> "old"] /\ grown = FALSE /\ pc = "send" /\ tries = R
         /\ nexp = 0 /\ segs = <<>>
         /\ net = [m \in Msgs(Logs[tid].req) |-> 0]
         /\ sent = 0 /\ result = "none" /\ faults = 0
         /\ act = [a |-> "Init", m |-> U]

Known(m) == m \in DOMAIN net
Step == l' = l + 1 /\ UNCHANGED <<tid, wire>>
StepW == l' = l + 1 /\ wire' = wire + 1 /\ UNCHANGED tid

TSend    == More /\ E.k = "send"  /\ ClientSend /\ A("ClientSend", U) /\ StepW
\* sync retransmissions (timeout / out-of-sequence final) put a STATU on the wire as part
\* of Timeout / Deliver: the "send" event that follows them is absorbed here
TSendRetx == /\ More /\ E.k = "send" /\ Variant = "sync" /\ pc = "wait"
             /\ wire < sent
             /\ UNCHANGED core /\ A("Retx", U) /\ StepW
TServe   == More /\ E.k = "serve" /\ SpaServe /\ A("SpaServe", U) /\ Step
TDrop    == More /\ E.k = "drop" /\ Known(E.m) /\ Drop(E.m) /\ A("Drop", E.m) /\ Step
TDup     == More /\ E.k = "dup"  /\ Known(E.m) /\ Dup(E.m) /\ A("Dup", E.m) /\ Step
\* (two datagrams handed to the socket back to back: the second may find the transfer finished by the first)
TDeliver == /\ More /\ E.k = "deliver" /\ Known(E.m)
            /\ \/ (Deliver(E.m) /\ A("Deliver", E.m))
               \/ (LateDeliver(E.m) /\ A("LateDeliver", E.m))
            /\ Step
TLate    == More /\ E.k = "late" /\ Known(E.m) /\ LateDeliver(E.m) /\ A("LateDeliver", E.m) /\ Step
\* after the stragglers: nothing was sent, nothing changed
TFinal   == /\ More /\ E.k = "final" /\ pc = "done"
            /\ E.ok = (result = "ok") /\ wire = sent /\ E.sent = sent
            /\ E.blen = N /\ ~grown
            /\ \A p \in Pos : E.cli[p + 1] = cli[p]
            /\ UNCHANGED core /\ A("Final", U) /\ Step
TTimeout == /\ More /\ E.k \in {"send", "ret"} /\ act.a # "Timeout"
            /\ Timeout /\ A("Timeout", U) /\ UNCHANGED <<tid, l, wire>>
TRet     == /\ More /\ E.k = "ret" /\ pc = "done"
            /\ E.ok = (result = "ok") /\ wire = sent
            /\ E.blen = N /\ ~grown
            /\ \A p \in Pos : E.cli[p + 1] = cli[p]
            /\ UNCHANGED core /\ A("Ret", U) /\ Step

TNext == TSend \/ TSendRetx \/ TServe \/ TDrop \/ TDup \/ TDeliver \/ TLate \/ TFinal \/ TTimeout \/ TRet
TSpec == TInit /\ [][TNext]_tvars

\* the design invariants are evaluated on every state of every accepted prefix
InvOK == NoPartialInstall /\ OkMeansSpaBytes /\ SentBound
Track == /\ TKTrack(tid, l, l > Len(Ev))
         /\ (~NoPartialInstall => TKWhy(tid, "NoPartialInstall"))
         /\ (~OkMeansSpaBytes => TKWhy(tid, "OkMeansSpaBytes"))
         /\ (~SentBound => TKWhy(tid, "SentBound"))
         /\ InvOK
Report == TKReport
===============================================================================
