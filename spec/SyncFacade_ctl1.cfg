SPECIFICATION Spec
CONSTANTS HookLast = FALSE
          GuardReady = TRUE
INVARIANT ConnectedMeansBuilt
CHECK_DEADLOCK FALSE
