----------------------------- MODULE LifecycleLive -----------------------------
(* Liveness of the lifecycle (C09: "once the network is healthy the manager reaches CONNECTED") under a
   ROUND-ROBIN scheduler instead of one strong-fairness condition per task.

   asyncio runs ready tasks in FIFO order, so no ready task is passed over for ever.  Lifecycle.tla
   expresses that as SF per task (tasks are disabled while another one holds the `running` token, so weak
   fairness is not enough), which makes TLC's liveness check intractable beyond a few thousand states.
   Here the same transition relation is driven by an explicit scheduler: `turn` points at a task; when no
   task holds the token the task at `turn` takes its step if it can, and `turn` moves on either way; a
   task holding the token continues.  Every infinite behaviour of this machine visits every task again
   and again, so ONE weak-fairness condition on the whole relation suffices.  Environment actions (network
   changes, resets, background errors, the locator's consumer) remain free but budgeted.              *)
EXTENDS Lifecycle

VARIABLE turn
lvars == <<vars, turn>>

Order == <<PUMP, LOC, USER, MAIN>> \o [i \in 1..MaxEp |-> <<"PING", i>>] \o [i \in 1..MaxEp |-> <<"BG", i>>]
NextTurn == IF turn = Len(Order) THEN 1 ELSE turn + 1

LInit == Init /\ turn = 1

\* the task whose turn it is (or the holder of the token) takes a step
Sched ==
  \/ /\ running # None
     /\ (TStep(running) \/ StepEnd(running))
     /\ UNCHANGED turn
  \/ /\ running = None
     /\ LET t == Order[turn] IN
        IF ENABLED (TStep(t) \/ StepEnd(t))
        THEN (TStep(t) \/ StepEnd(t)) /\ turn' = NextTurn
        ELSE UNCHANGED vars /\ turn' = NextTurn
\* the environment: the locator's hello consumer announcing a spa, network changes, resets, suspension
Env == /\ (StepLoc \/ UserReset \/ UserSetInfo \/ NetChange \/ \E t \in Tasks : Suspend(t))
       /\ UNCHANGED turn

LNext == Sched \/ Env
LSpec == LInit /\ [][LNext]_lvars /\ WF_lvars(Sched) /\ WF_lvars(StepLoc /\ UNCHANGED turn)

\* every step of the scheduled machine is a step of Lifecycle (or changes only `turn`): safety carries over
RefinesLifecycle == [][Next]_vars

LHeals == (Quiet /\ hasId) ~> (st = "CONNECTED" \/ Escaped \/ (KF_NotFound /\ st = "NOT_FOUND") \/ nextEp > MaxEp)
===============================================================================
