SPECIFICATION Spec
CONSTANT WatercareClaimsAll = FALSE
INVARIANT Inv
CHECK_DEADLOCK FALSE
