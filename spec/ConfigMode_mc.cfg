SPECIFICATION Spec
CONSTANTS Sleepers = {"s1", "s2", "s3"}
          Members = {"m1", "m2"}
          MaxDelay = 3
          MaxTime = 5
          MaxSwitches = 3
          Renew = "code"
INVARIANT NeverAMixture
INVARIANT NeverOversleeps
INVARIANT SleeperHearsNextSwitch
CHECK_DEADLOCK FALSE
