--------------------------- MODULE Registry_Apa ---------------------------
(* Apalache: inductive invariant for the handler registry (unbounded number of steps, 3 handlers).
   The step counter and the emitter of Registry.tla are left out; the transition relation is the same. *)
EXTENDS Naturals, Sequences, FiniteSets, Apalache

H == {"h1", "h2", "h3"}

VARIABLES
  \* @type: Seq(Str);
  regs,
  \* @type: Set(Str);
  added,
  \* @type: Set(Str);
  removable,
  \* @type: Str;
  pc,
  \* @type: Set(Str);
  toRemove

\* @type: (Seq(Str)) => Set(Str);
ToSet(sq) == { sq[i] : i \in DOMAIN sq }
\* @type: (Seq(Str), Set(Str)) => Seq(Str);
Filter(sq, S) == LET \* @type: (Seq(Str), Str) => Seq(Str);
                     F(acc, x) == IF x \in S THEN acc ELSE Append(acc, x)
                 IN ApaFoldSeqLeft(F, <<>>, sq)

Init == regs = <<>> /\ added = {} /\ removable = {} /\ pc = "idle" /\ toRemove = {}

Add(h) == h \notin added /\ regs' = Append(regs, h) /\ added' = added \cup {h}
          /\ UNCHANGED <<removable, pc, toRemove>>
Finish(h) == h \in ToSet(regs) /\ h \notin removable /\ removable' = removable \cup {h}
             /\ UNCHANGED <<regs, added, pc, toRemove>>
CleanupA == pc = "idle" /\ toRemove' = { h \in ToSet(regs) : h \in removable } /\ pc' = "mid"
            /\ UNCHANGED <<regs, added, removable>>
CleanupB == pc = "mid" /\ regs' = Filter(regs, toRemove) /\ pc' = "idle"
            /\ UNCHANGED <<added, removable, toRemove>>
Next == (\E h \in H : Add(h) \/ Finish(h)) \/ CleanupA \/ CleanupB

NoLostRegistration == \A h \in added : (h \in ToSet(regs)) \/ (h \in removable)

IndInv == /\ pc \in {"idle", "mid"}
          /\ added \subseteq H /\ removable \subseteq added /\ toRemove \subseteq removable
          /\ ToSet(regs) \subseteq added
          /\ Len(regs) <= Cardinality(added)
          /\ \A i, j \in DOMAIN regs : regs[i] = regs[j] => i = j
          /\ NoLostRegistration
\* arbitrary state satisfying the invariant (sequences of at most 3 elements)
IndInit == /\ regs = Gen(3) /\ added = Gen(3) /\ removable = Gen(3) /\ toRemove = Gen(3) /\ pc \in {"idle", "mid"}
           /\ IndInv
=============================================================================
