------------------------------- MODULE C04_Judge ------------------------------
(* Judges records produced by the real message constructors and peer handlers (C04).
   record: kind, f (field record; bytes/text as sequences of code points),
           bytes          = handler.send_bytes of the built message,
           frame_claims   = standard handler classes whose can_handle accepts the datagram,
           inner_claims   = ... accepts the un-framed content (framed kinds only),
           frame          = [ok, src, dst, content] as extracted by the real packet handler,
           dec            = attributes of a fresh peer handler after handle() (kind specific),
           dec2           = the same attributes from a long-lived handler instance that has
                            already handled every earlier message of its class,
           dec_err        = "" or the exception type raised while decoding,
           reply          = bytes of an answer built with the parms of the received packet,
           reply_to_sender = TRUE iff that answer is addressed to the datagram's sender,
           has_sim, sim, sim_rf = what the bundled simulator queued for this datagram (normal / RF-error mode):
                            << [verb, swapped, to_sender] ... >>                                    *)
EXTENDS Wire, Json, IOUtils

Recs == ndJsonDeserialize(IOEnv.GV_RECS)

DecOk(k, f, d) ==
  CASE k \in {"vers_req", "chan_req", "file_req", "wc_req", "rem_req", "fw_req", "statq"} -> d.seq = f.seq
    [] k = "vers_resp" -> d.en = f.en /\ d.co = f.co
    [] k = "chan_resp" -> d.channel = f.channel /\ d.signal = f.signal
    [] k = "file_resp" -> d.key = f.key /\ d.cfg = f.cfg /\ d.log = f.log
    [] k = "statu" -> d.seq = f.seq /\ d.start = f.start /\ d.len = f.len
    [] k = "statv" -> d.idx = f.idx /\ d.next = f.next /\ d.len = Len(f.data) /\ d.data = f.data
    [] k = "statp" -> d.changes = f.changes /\ d.acks = 1
    [] k = "keypress" -> d.seq = f.seq /\ d.pack = f.pack /\ d.is_key /\ ~d.is_set /\ d.key = f.key
    [] k = "setvalue" -> /\ d.seq = f.seq /\ d.pack = f.pack /\ d.is_set /\ ~d.is_key /\ d.pos = f.pos
                         /\ d.data = (IF f.len = 1 THEN U8(f.val) ELSE U16BE(f.val))
    [] k = "wc_resp" -> d.mode = f.mode
    [] k = "rem_resp" -> d.rem = f.rem
    [] k = "hello_resp" -> d.id = f.id /\ d.name = f.name
    [] k = "hello_client" -> d.id = f.id
    [] k = "hello_bcast" -> d.bcast
    [] OTHER -> TRUE

\* the simulator's queued answers: the expected verbs in order, each addressed back to the sender with the
\* identifier pair swapped
SimOk(got, want) == /\ Len(got) = Len(want)
                    /\ \A i \in 1..Len(got) : got[i].verb = want[i] /\ got[i].swapped /\ got[i].to_sender

Clauses(r) ==
  LET k == r.kind  f == r.f IN
  << <<"byte-layout", r.bytes = Enc(k, f)>>,
     <<"frame-claimed-only-by-its-handler", ToSet(r.frame_claims) = (IF Framed(k) THEN {"Packet"} ELSE {"Hello"})>>,
     <<"frame-extracts", Framed(k) => (r.frame.ok /\ r.frame.src = f.p3 /\ r.frame.dst = f.p2 /\ r.frame.content = Content(k, f))>>,
     <<"claimed-by-exactly-its-verb", Framed(k) => ToSet(r.inner_claims) = Owner(k)>>,
     <<"decodes-without-error", (Owner(k) # {}) => (r.dec_err = "" /\ r.decoded)>>,
     <<"decodes-to-its-fields", (Owner(k) # {} /\ r.dec_err = "" /\ r.decoded) => DecOk(k, f, r.dec)>>,
     <<"decodes-same-on-a-long-lived-handler", (Framed(k) /\ Owner(k) # {} /\ r.dec_err = "" /\ r.decoded) => r.dec2 = r.dec>>,
     <<"reply-swaps-identifiers", Framed(k) => (r.reply = ReplyFrame(f.p3, f.p2, V_PACKS) /\ r.reply_to_sender)>>,
     <<"simulator-answers", r.has_sim => SimOk(r.sim, SimAnswers(k, FALSE))>>,
     <<"simulator-answers-in-rf-error-mode", r.has_sim => SimOk(r.sim_rf, SimAnswers(k, TRUE))>> >>

Failing(r) == LET c == Clauses(r) IN { i \in 1..Len(c) : ~c[i][2] }
Why(r) == LET c == Clauses(r) IN c[CHOOSE i \in Failing(r) : \A j \in Failing(r) : i <= j][1]
Bad == { <<k, Why(Recs[k])>> : k \in { k \in 1..Len(Recs) : Failing(Recs[k]) # {} } }
ASSUME PrintT(<<"GVBAD", Bad, Len(Recs)>>)
===============================================================================
