------------------------------- MODULE C20_Judge ------------------------------
(* Judges real blocking-client handshakes under loss (C20).
   record: connected, identical (client block = simulator block), budget (1 + retries),
           tx = << [verb, n] ... >> transmissions per handshake request,
           gaps = << ms between consecutive transmissions >>, gapmin (1000/rate)          *)
EXTENDS Naturals, Sequences, FiniteSets, TLC, Json, IOUtils
Recs == ndJsonDeserialize(IOEnv.GV_RECS)
Verdict(r) ==
  IF ~r.connected THEN "handshake-did-not-complete-within-retry-budget"
  ELSE IF ~r.identical THEN "status-block-differs"
  ELSE IF \E i \in 1..Len(r.tx) : r.tx[i].n > r.budget THEN "more-than-1+N-transmissions"
  ELSE IF \E i \in 1..Len(r.gaps) : r.gaps[i] < r.gapmin THEN "sent-faster-than-throttle"
  ELSE "ok"
Bad == { <<k, Verdict(Recs[k])>> : k \in { k \in 1..Len(Recs) : Verdict(Recs[k]) # "ok" } }
ASSUME PrintT(<<"GVBAD", Bad, Len(Recs)>>)
===============================================================================
