SPECIFICATION Spec
CONSTANTS R = 2
          ConnTimeout = 3
          MaxAge = 5
INVARIANT NeverConnectedWithoutPings
CHECK_DEADLOCK FALSE
