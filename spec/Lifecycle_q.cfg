SPECIFICATION Spec
CONSTANTS MaxEp = 2
          MaxSusp = 0
          MaxReset = 1
          MaxNet = 2
          MaxBg = 1
          HasId = TRUE
          KF_PumpDies = FALSE
          KF_LateComplete = TRUE
          KF_NotFound = TRUE
          Unreliable = FALSE
          AllowExit = TRUE
          MaxSockFail = 1
          MaxRF = 0
          KF_Overtake = TRUE
INVARIANT ConnectedSound
INVARIANT ReadyIffEnterConnected
INVARIANT TeardownBracket
INVARIANT BracketsSane
INVARIANT SensorMirrorsState
INVARIANT ResetLandsIdle
INVARIANT NoTaskLeakAfterReset
INVARIANT PumpAlive
INVARIANT BracketsClosedAtExit
INVARIANT NoTaskAfterExit
CHECK_DEADLOCK FALSE
