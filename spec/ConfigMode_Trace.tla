--------------------------- MODULE ConfigMode_Trace ---------------------------
(* Trace validation of real config_sleep / set_config_mode executions on the virtual
   loop.  Times are virtual milliseconds.  Log events:
     [k |-> "sleep", s, d, t]           sleeper s entered config_sleep(d ms) at t
     [k |-> "switch", mode, t, table, target, complete]
                                        set_config_mode(mode) at t; `table` = the live
                                        settings afterwards, `target` = the active/idle table,
                                        complete = every member is defined by that table itself
     [k |-> "wake", s, t]               sleeper s returned from config_sleep at t
     [k |-> "cancel", s, t]             sleeper s was cancelled while asleep
     [k |-> "end", t]                   end of observation
   The specification's Tick is replaced by jumps of `now` to the time of the next event;
   a jump is allowed only if no wake-up is due before it (nobody oversleeps, everybody
   hears the switch).                                                                   *)
EXTENDS ConfigMode, TraceKit, Sequences

VARIABLES tid, l
tvars == <<vars, tid, l>>
Log == Logs[tid]
Ev == Log.ev
E == Ev[l]
More == l <= Len(Ev)
Step == l' = l + 1 /\ UNCHANGED tid

TInit == /\ TKInit /\ tid \in 1..NLogs /\ l = 1 /\ Init

\* moving time forward to t: nothing may be due strictly before t, and anything due at the
\* current instant must already have woken
CanAdvanceTo(t) == t >= now /\ \A s \in Sleepers : st[s].phase = "sleeping" =>
                      (t > now => (st[s].gen \notin done /\ st[s].deadline >= t))
At(t) == CanAdvanceTo(t) /\ now' = t

TSleep == /\ More /\ E.k = "sleep" /\ At(E.t)
          /\ st[E.s].phase = "idle"
          /\ LET fresh == cur = 0 \/ cur \in done  g == IF fresh THEN cur + 1 ELSE cur IN
             /\ cur' = g /\ st' = [st EXCEPT ![E.s] = [phase |-> "sleeping", gen |-> g, deadline |-> E.t + E.d]]
          /\ UNCHANGED <<table, done, nsw, woke>> /\ Step
TSwitch == /\ More /\ E.k = "switch" /\ At(E.t)
           /\ cur # 0
           /\ E.table = E.target /\ E.complete            \* the complete table, never a mixture
           /\ table' = [m \in Members |-> E.mode] /\ done' = done \cup {cur} /\ nsw' = nsw + 1
           /\ UNCHANGED <<cur, st, woke>> /\ Step
TWake == /\ More /\ E.k = "wake" /\ At(E.t)
         /\ st[E.s].phase = "sleeping"
         /\ (st[E.s].gen \in done \/ st[E.s].deadline = E.t)
         /\ st' = [st EXCEPT ![E.s].phase = "idle"]
         /\ UNCHANGED <<table, cur, done, nsw, woke>> /\ Step
TCancel == /\ More /\ E.k = "cancel" /\ At(E.t)
           /\ st[E.s].phase = "sleeping"
           /\ st' = [st EXCEPT ![E.s].phase = "idle"]
           /\ UNCHANGED <<table, cur, done, nsw, woke>> /\ Step
TEnd == /\ More /\ E.k = "end" /\ At(E.t)
        /\ \A s \in Sleepers : st[s].phase = "sleeping" => (st[s].gen \notin done /\ st[s].deadline >= E.t)
        /\ UNCHANGED <<table, cur, done, st, nsw, woke>> /\ Step

TNext == TSleep \/ TSwitch \/ TWake \/ TCancel \/ TEnd
TSpec == TInit /\ [][TNext]_tvars
Track == TKTrack(tid, l, l > Len(Ev))
Report == TKReport
===============================================================================
