------------------------------- MODULE Lifecycle ------------------------------
(* Lifecycle of GeckoAsyncSpaMan (C08, C09, C10): the _handle_event switch, the sequence
   pump, locate / connect brackets, the non-atomic async_reset, ping / runtime events,
   resources (endpoints, task families) and client-handler suspension.

   Code: async_spa_manager.py (_handle_event, _sequence_pump, async_locate_spas,
   async_connect, async_connect_to_spa, async_reset, __aenter__/__aexit__), async_spa.py
   (connect, disconnect, _ping_loop, _refresh_loop, _async_on_rferr), async_locator.py,
   automation/async_facade.py (constructor, disconnect, _facade_update), async_tasks.py.

   Shape.  Every task carries a list of frames (`todo`): a frame is one atomic piece of code
   between two awaits.  R(ev) is "_handle_event(ev)": it applies the switch's pre-processing,
   queues the nested CLIENT_* events and finally D(ev), the delivery to the client's
   handle_event (sensor update, then the callback).  A `running` token makes the frames of
   one task atomic up to a real await; after a delivery the client handler may suspend
   (Suspend, budgeted), which lets any other task run before the deliverer continues.
   A cancelled task runs its pending `finally` frames and dies.  Invariants are evaluated at
   observable points only (`running = None`, or on the record of the last delivery).    *)
EXTENDS Naturals, Sequences, FiniteSets, TLC

CONSTANTS MaxEp,          \* spa objects (connection attempts) per behaviour
          MaxSusp,        \* client-handler suspensions
          MaxReset,       \* user resets
          MaxNet,         \* network health changes
          MaxBg,          \* runtime error events injected by background tasks
          HasId,          \* spa identifier (and name) configured from the start (the pump connects by itself)
          KF_PumpDies,    \* D8: a reset during CONNECTING makes connect() raise, the pump task dies
          KF_LateComplete,\* D18: a reset in the last poll of the handshake still completes it -> SPA_READY without a spa
          KF_NotFound,    \* D9: ERROR_SPA_NOT_FOUND is terminal
          Unreliable,     \* TRUE: under net = "bad" individual requests may still succeed (lossy phases); FALSE: blackout
          AllowExit,      \* the context may be left (C10); FALSE for the liveness configurations
          KF_Overtake,    \* D10: pump actions between reset head and reset tail (suspended handler)
          MaxSockFail,    \* endpoint creations that raise OSError (a locate / connect phase that raises)
          MaxRF           \* GeckoConstants.MAX_RF_ERRORS_BEFORE_HALT: RF errors a connection tolerates

Eps == 1..MaxEp
PUMP == <<"PUMP", 0>>
USER == <<"USER", 0>>
LOC == <<"LOC", 0>>
MAIN == <<"MAIN", 0>>
None == <<"none", 0>>
Tasks == {PUMP, USER, LOC, MAIN} \cup { <<"PING", e>> : e \in Eps } \cup { <<"BG", e>> : e \in Eps }
Errs == {"ERR_PING", "ERR_RF", "NEEDS_ATT"}

VARIABLES st, descr, facade, spa, sensor, spaConn, spaOpen, epOpen, spaTasks, facTask, locEp, locTasks,
          announced, locBr, connBr, kf, net, nNet, nSusp, nReset, nBg, nFail, rfc, hasId, running, todo, alive, dying, last,
          nextEp, nextFac, found, exited, fresh
vars == <<st, descr, facade, spa, sensor, spaConn, spaOpen, epOpen, spaTasks, facTask, locEp, locTasks,
          announced, locBr, connBr, kf, net, nNet, nSusp, nReset, nBg, nFail, rfc, hasId, running, todo, alive, dying, last,
          nextEp, nextFac, found, exited, fresh>>

\* ---------------------------------------------------------------- frames
F(name) == [f |-> name, ev |-> "", a |-> 0, fin |-> FALSE]
FA(name, a) == [f |-> name, ev |-> "", a |-> a, fin |-> FALSE]
R(ev) == [f |-> "raise", ev |-> ev, a |-> 0, fin |-> FALSE]
RF(ev) == [f |-> "raise", ev |-> ev, a |-> 0, fin |-> TRUE]     \* raised from a finally block
D(ev) == [f |-> "deliver", ev |-> ev, a |-> 0, fin |-> FALSE]
DF(ev) == [f |-> "deliver", ev |-> ev, a |-> 0, fin |-> TRUE]

Text(s) == s      \* GeckoSpaState.to_string is injective on the states used: the state name stands for its text

NoLast == [ev |-> "none", st |-> "IDLE", fac |-> 0, spa |-> 0, conn |-> FALSE, descr |-> "none", sensor |-> "absent",
           by |-> None, ann |-> FALSE, prevann |-> FALSE, prevst |-> "IDLE", leak |-> FALSE]

Init ==
  /\ st = "IDLE" /\ descr = "none" /\ facade = 0 /\ spa = 0 /\ sensor = "absent"
  /\ spaConn = [e \in Eps |-> FALSE] /\ spaOpen = [e \in Eps |-> FALSE] /\ epOpen = [e \in Eps |-> FALSE]
  /\ spaTasks = [e \in Eps |-> FALSE] /\ facTask = FALSE /\ locEp = FALSE /\ locTasks = FALSE
  /\ announced = FALSE /\ locBr = 0 /\ connBr = 0 /\ kf = {} /\ net = "ok" /\ nNet = 0 /\ nSusp = 0 /\ nReset = 0 /\ nBg = 0 /\ nFail = 0 /\ rfc = [e \in Eps |-> 0] /\ hasId = HasId
  /\ running = None
  /\ todo = [t \in Tasks |-> IF t = PUMP THEN <<R("SPA_MAN_ENTER"), F("pumpTop")>> ELSE <<>>]
  /\ alive = [t \in Tasks |-> t = PUMP] /\ dying = [t \in Tasks |-> FALSE]
  /\ last = NoLast /\ nextEp = 1 /\ nextFac = 1 /\ found = FALSE /\ exited = FALSE /\ fresh = FALSE

\* ---------------------------------------------------------------- helpers
Push(t, fs) == todo' = [todo EXCEPT ![t] = fs \o Tail(@)]
Pop(t) == todo' = [todo EXCEPT ![t] = Tail(@)]
\* leave the current try block: drop frames up to the first finally frame
ToFinally(sq) == LET idx == { i \in 1..Len(sq) : sq[i].fin } IN
                 IF idx = {} THEN <<>> ELSE SubSeq(sq, CHOOSE i \in idx : \A j \in idx : i <= j, Len(sq))
OnlyFinally(sq) == SelectSeq(sq, LAMBDA x : x.fin)
ResetFrames == <<F("resetHead")>>
\* bind the pending handshake frames to the spa object (epoch) that was just created
RetagHs(sq, e) == LET G[i \in 0..Len(sq)] ==
                        IF i = 0 THEN <<>>
                        ELSE Append(G[i-1], IF sq[i].f = "hs" THEN [sq[i] EXCEPT !.ev = "ep", !.a = e * 10 + sq[i].a] ELSE sq[i])
                  IN G[Len(sq)]
WithFin(sq, fin) == LET G[i \in 0..Len(sq)] == IF i = 0 THEN <<>> ELSE Append(G[i-1], [sq[i] EXCEPT !.fin = fin]) IN G[Len(sq)]

\* pre-processing of _handle_event(ev): new state and the nested events raised before the delivery
PreState(ev) ==
  CASE ev = "LOCATING_STARTED" -> "LOCATING"
    [] ev = "LOCATING_FINISHED" -> "LOCATED"
    [] ev = "SPA_NOT_FOUND" -> "NOT_FOUND"
    [] ev = "CONNECTION_STARTED" -> "CONNECTING"
    [] ev = "SPA_COMPLETE" -> "SPA_READY"
    [] ev = "CONNECTION_FINISHED" -> IF facade # 0 THEN "CONNECTED" ELSE st
    [] ev = "PING_NO_RESPONSE" -> IF st = "CONNECTED" THEN "ERR_PING" ELSE st
    [] ev = "RF_ERROR" -> IF st = "CONNECTED" THEN "ERR_RF" ELSE st
    [] ev = "SPA_DISCONNECTED" -> IF st = "CONNECTED" THEN "IDLE" ELSE st
    [] ev \in {"CONN_RETRY_EXCEEDED", "RETRY_EXCEEDED", "TOO_MANY_RF"} -> "NEEDS_ATT"
    [] OTHER -> st
Nested(ev) ==
  CASE ev = "CONNECTION_STARTED" -> <<R("HAS_RECONNECT_BUTTON")>>
    [] ev = "GOT_CHANNEL" -> <<R("HAS_PING_SENSOR")>>
    [] ev = "CONNECTION_FINISHED" -> IF facade # 0 THEN <<R("FACADE_IS_READY")>> ELSE <<>>
    [] ev \in {"PING_NO_RESPONSE", "RF_ERROR", "SPA_DISCONNECTED"} -> IF st = "CONNECTED" THEN <<R("FACADE_TEARDOWN")>> ELSE <<>>
    [] OTHER -> <<>>

CanRun(t) == todo[t] # <<>> /\ (running = t \/ running = None) /\ (alive[t] \/ running = t \/ dying[t]) /\ ~exited

UNCH_RES == UNCHANGED <<spaConn, spaOpen, epOpen, spaTasks, facTask, locEp, locTasks>>

\* ---------------------------------------------------------------- _handle_event
StepRaise(t) ==
  LET fr == Head(todo[t])  ev == fr.ev  mk(e) == IF fr.fin THEN DF(e) ELSE D(e) IN
  /\ fr.f = "raise"
  /\ running' = t
  /\ IF sensor = "absent" /\ hasId /\ ev # "HAS_STATUS_SENSOR"
     THEN \* first event: the status sensor is created and announced before anything else
          /\ sensor' = "Unknown"
          /\ Push(t, <<[R("HAS_STATUS_SENSOR") EXCEPT !.fin = fr.fin], fr>>)
          /\ UNCHANGED <<st, announced>>
     ELSE IF ev = "PING_RECEIVED" /\ st \in Errs
     THEN /\ Push(t, ResetFrames \o <<mk(ev)>>) /\ UNCHANGED <<st, sensor, announced>>
     ELSE /\ st' = PreState(ev)
          /\ Push(t, WithFin(Nested(ev), fr.fin) \o <<mk(ev)>>)
          /\ UNCHANGED <<sensor, announced>>
  /\ UNCHANGED <<descr, facade, spa, kf, net, nNet, nSusp, nReset, nBg, nFail, rfc, hasId, alive, dying, last, nextEp, nextFac, found,
                 exited, locBr, connBr>> /\ UNCH_RES

StepDeliver(t) ==
  LET ev == Head(todo[t]).ev IN
  /\ Head(todo[t]).f = "deliver"
  /\ running' = t
  /\ sensor' = IF sensor = "absent" THEN sensor ELSE Text(st)
  /\ announced' = IF ev = "FACADE_IS_READY" THEN TRUE ELSE IF ev = "FACADE_TEARDOWN" THEN FALSE ELSE announced
  /\ locBr' = IF ev = "LOCATING_STARTED" THEN locBr + 1 ELSE IF ev = "LOCATING_FINISHED" /\ locBr > 0 THEN locBr - 1 ELSE locBr
  /\ connBr' = IF ev = "CONNECTION_STARTED" THEN connBr + 1 ELSE IF ev = "CONNECTION_FINISHED" /\ connBr > 0 THEN connBr - 1 ELSE connBr   \* (a finished event without a started one happens when the task is cancelled inside the nested delivery)
  /\ last' = [ev |-> ev, st |-> st, fac |-> facade, spa |-> spa, conn |-> (spa # 0 /\ spaConn[spa]), descr |-> descr,
              sensor |-> (IF sensor = "absent" THEN sensor ELSE Text(st)), by |-> t, ann |-> announced',
              prevann |-> announced, prevst |-> last.st, leak |-> FALSE]
  /\ Pop(t)
  /\ UNCHANGED <<st, descr, facade, spa, kf, net, nNet, nSusp, nReset, nBg, nFail, rfc, hasId, alive, dying, nextEp, nextFac, found, exited>>
  /\ UNCH_RES

\* the client's handle_event really awaits: the delivering task is suspended in mid-sequence
Suspend(t) ==
  /\ running = t /\ last.by = t /\ fresh /\ nSusp < MaxSusp /\ todo[t] # <<>>
  /\ running' = None /\ nSusp' = nSusp + 1 /\ fresh' = FALSE
  /\ UNCHANGED <<st, descr, facade, spa, sensor, announced, locBr, connBr, kf, net, nNet, nReset, nBg, nFail, rfc, hasId, todo, alive, dying,
                 last, nextEp, nextFac, found, exited>> /\ UNCH_RES

\* ---------------------------------------------------------------- reset (async_reset)
StepResetHead(t) ==
  /\ Head(todo[t]).f = "resetHead"
  /\ running' = t
  /\ descr' = "none"
  /\ facTask' = IF facade # 0 THEN FALSE ELSE facTask           \* cancel_key_tasks("FACADE"), devices unwatched
  /\ facade' = 0
  /\ IF spa # 0
     THEN /\ spaConn' = [spaConn EXCEPT ![spa] = FALSE]
          /\ Push(t, <<R("SPA_DISCONNECTED"), [FA("resetTail", spa) EXCEPT !.ev = IF st = "CONNECTED" THEN "IDLE" ELSE st]>>)
     ELSE /\ Push(t, <<[FA("resetTail", 0) EXCEPT !.ev = st]>>) /\ UNCHANGED spaConn
  /\ UNCHANGED <<st, spa, sensor, announced, locBr, connBr, kf, net, nNet, nSusp, nReset, nBg, nFail, rfc, hasId, alive, dying, last, nextEp, nextFac,
                 found, exited, spaOpen, epOpen, spaTasks, locEp, locTasks>>

\* the rest of spa.disconnect() and of async_reset, after the DISCONNECTED delivery returned
StepResetTail(t) ==
  LET obj == Head(todo[t]).a IN
  /\ Head(todo[t]).f = "resetTail"
  /\ running' = t
  /\ IF obj # 0
     THEN /\ spaTasks' = [e \in Eps |-> FALSE]                   \* cancel_key_tasks("SPA"): every connection's tasks
          /\ alive' = [x \in Tasks |-> IF x \in ({ <<"PING", e>> : e \in Eps } \cup { <<"BG", e>> : e \in Eps }) /\ x # t
                                        THEN FALSE ELSE alive[x]]
          /\ dying' = [x \in Tasks |-> IF x = t /\ t \in ({ <<"PING", e>> : e \in Eps } \cup { <<"BG", e>> : e \in Eps }) THEN TRUE ELSE dying[x]]
          /\ spaOpen' = [spaOpen EXCEPT ![obj] = FALSE]         \* protocol dropped; the transport is NOT closed (D7)
     ELSE UNCHANGED <<spaTasks, alive, dying, spaOpen>>
  /\ spa' = 0 /\ st' = "IDLE"
  \* D10: something (the pump) acted between the reset's head and its tail
  /\ kf' = IF KF_Overtake /\ (spa # obj \/ st # Head(todo[t]).ev \/ facade # 0 \/ descr # "none")
           THEN kf \cup {"Overtake"} ELSE kf
  /\ Pop(t)
  /\ UNCHANGED <<descr, facade, sensor, announced, locBr, connBr, net, nNet, nSusp, nReset, nBg, nFail, rfc, hasId, last, nextEp, nextFac, found,
                 exited, spaConn, epOpen, facTask, locEp, locTasks>>

\* ---------------------------------------------------------------- sequence pump
\* an exception inside the pump's try block: the pending finally frames run, the handler logs, then the
\* loop's sleep (everything else of this iteration is skipped)
Unwind(sq) == OnlyFinally(sq) \o <<F("pumpSleep")>>
PumpBody(t, fail) ==
  LET fr == Head(todo[t]) IN
  /\ t = PUMP /\ fr.f \in {"pumpTop", "pumpIf2", "pumpSleep", "locNew", "locWait", "locDone", "connIf", "spaNew", "hs", "hsDone", "facadeIf", "die", "yield"}
  /\ nFail' = (IF fail THEN nFail + 1 ELSE nFail) /\ UNCHANGED <<rfc, hasId>>
  /\ CASE fr.f = "pumpTop" ->
            /\ running' = t
            /\ IF st = "IDLE" /\ descr = "none"
               THEN Push(t, <<R("LOCATING_STARTED"), F("locNew"), F("locWait"), F("locDone"), RF("LOCATING_FINISHED"), F("pumpIf2")>>)
               ELSE Push(t, <<F("pumpIf2")>>)
            /\ UNCHANGED <<descr, facade, spa, spaConn, spaOpen, epOpen, spaTasks, facTask, locEp, locTasks, alive, dying, nextEp, nextFac, found, kf>>
       [] fr.f = "pumpIf2" ->
            /\ running' = t
            /\ IF st = "LOCATED" /\ hasId /\ facade = 0
               THEN Push(t, <<R("LOCATING_STARTED"), F("locNew"), F("locWait"), F("locDone"), RF("LOCATING_FINISHED"), F("connIf"), F("pumpSleep")>>)
               ELSE Push(t, <<F("pumpSleep")>>)
            /\ UNCHANGED <<descr, facade, spa, spaConn, spaOpen, epOpen, spaTasks, facTask, locEp, locTasks, alive, dying, nextEp, nextFac, found, kf>>
       [] fr.f = "pumpSleep" ->                                   \* asyncio.sleep: a real await
            /\ running' = None /\ Push(t, <<F("pumpTop")>>)
            /\ UNCHANGED <<descr, facade, spa, spaConn, spaOpen, epOpen, spaTasks, facTask, locEp, locTasks, alive, dying, nextEp, nextFac, found, kf>>
       [] fr.f = "locNew" ->                                      \* create_datagram_endpoint (awaits), LOC tasks
            IF fail
            THEN \* the endpoint cannot be created: discover() raises before anything exists
                 /\ running' = None /\ todo' = [todo EXCEPT ![t] = Unwind(Tail(@))]
                 /\ UNCHANGED <<descr, facade, spa, spaConn, spaOpen, epOpen, spaTasks, facTask, dying, nextEp, nextFac, kf,
                                locEp, locTasks, found, alive>>
            ELSE /\ running' = None /\ locEp' = TRUE /\ locTasks' = TRUE /\ found' = FALSE
                 /\ alive' = [alive EXCEPT ![LOC] = TRUE] /\ Pop(t)
                 /\ UNCHANGED <<descr, facade, spa, spaConn, spaOpen, epOpen, spaTasks, facTask, dying, nextEp, nextFac, kf>>
       [] fr.f = "yield" ->                                       \* asyncio.sleep(CONNECTION_STEP_PAUSE = 0): a real await
            /\ running' = None /\ Pop(t)
            /\ UNCHANGED <<descr, facade, spa, spaConn, spaOpen, epOpen, spaTasks, facTask, locEp, locTasks, alive, dying, nextEp, nextFac, found, kf>>
       [] fr.f = "locWait" ->                                     \* the polling loop of discover()
            /\ running' = None /\ Pop(t)
            /\ UNCHANGED <<descr, facade, spa, spaConn, spaOpen, epOpen, spaTasks, facTask, locEp, locTasks, alive, dying, nextEp, nextFac, found, kf>>
       [] fr.f = "locDone" ->
            /\ running' = t /\ locEp' = FALSE /\ locTasks' = FALSE
            /\ alive' = [alive EXCEPT ![LOC] = FALSE]
            /\ descr' = IF found THEN "some" ELSE "empty"
            /\ Pop(t)
            /\ kf' = IF KF_Overtake /\ \E u \in Tasks : u # t /\ todo[u] # <<>> /\ Head(todo[u]).f = "resetTail" THEN kf \cup {"Overtake"} ELSE kf
            /\ UNCHANGED <<facade, spa, spaConn, spaOpen, epOpen, spaTasks, facTask, dying, nextEp, nextFac, found>>
       [] fr.f = "connIf" ->
            /\ running' = t
            /\ IF descr = "none"
               \* `assert spa_descriptors is not None`: a reset cleared the descriptors while the discovery's last
               \* event was being delivered; the assertion error unwinds to the pump's handler
               THEN todo' = [todo EXCEPT ![t] = Unwind(Tail(@))]
               ELSE IF descr # "some"
               THEN Push(t, <<R("SPA_NOT_FOUND")>>)
               ELSE IF facade # 0 \/ nextEp > MaxEp
                    THEN Push(t, <<>>)            \* assert self._facade is None would fail / model bound reached
                    ELSE Push(t, <<R("CONNECTION_STARTED"), F("spaNew"), FA("hs", 1), FA("hs", 2), FA("hs", 3), FA("hs", 4),
                                   F("facadeIf"), RF("CONNECTION_FINISHED")>>)
            /\ UNCHANGED <<descr, facade, spa, spaConn, spaOpen, epOpen, spaTasks, facTask, locEp, locTasks, alive, dying, nextEp, nextFac, found, kf>>
       [] fr.f = "spaNew" ->                                      \* GeckoAsyncSpa(...); _connect opens the endpoint (awaits)
            IF fail
            THEN \* the spa object exists (self._spa is set) but _connect raised before it had a protocol or tasks
                 /\ running' = None
                 /\ spa' = nextEp /\ nextEp' = nextEp + 1
                 /\ todo' = [todo EXCEPT ![t] = Unwind(Tail(@))]
                 /\ UNCHANGED <<descr, facade, spaConn, spaOpen, epOpen, spaTasks, facTask, locEp, locTasks, alive, dying, nextFac,
                                found, kf>>
            ELSE
            /\ running' = None
            /\ spa' = nextEp /\ nextEp' = nextEp + 1
            /\ spaOpen' = [spaOpen EXCEPT ![nextEp] = TRUE] /\ epOpen' = [epOpen EXCEPT ![nextEp] = TRUE]
            /\ spaTasks' = [spaTasks EXCEPT ![nextEp] = TRUE]
            /\ alive' = [alive EXCEPT ![<<"PING", nextEp>>] = TRUE, ![<<"BG", nextEp>>] = TRUE]
            /\ todo' = [todo EXCEPT ![t] = RetagHs(Tail(@), nextEp),
                                   ![<<"PING", nextEp>>] = <<F("pingReq")>>, ![<<"BG", nextEp>>] = <<F("bgIdle")>>]
            /\ kf' = IF KF_Overtake /\ \E u \in Tasks : u # t /\ todo[u] # <<>> /\ Head(todo[u]).f = "resetTail" THEN kf \cup {"Overtake"} ELSE kf
            /\ UNCHANGED <<descr, facade, spaConn, facTask, locEp, locTasks, dying, nextFac, found>>
       [] fr.f = "hs" ->                                          \* one handshake request: self._protocol.get(...)
            LET e == fr.a \div 10 IN
            IF ~spaOpen[e]
            THEN \* self._protocol is None (a reset intervened): AttributeError / AssertionError escapes connect().
                 \* pinned code: nothing catches it, the finally block runs and the pump task dies (D8);
                 \* repaired code: the pump's loop catches it, logs, sleeps and goes round again
                 /\ running' = t
                 /\ todo' = [todo EXCEPT ![t] = IF KF_PumpDies THEN OnlyFinally(ToFinally(Tail(@))) \o <<F("die")>>
                                                 ELSE ToFinally(Tail(@))]
                 /\ kf' = IF KF_PumpDies THEN kf \cup {"PumpDies"} ELSE kf
                 /\ UNCHANGED <<descr, facade, spa, spaConn, spaOpen, epOpen, spaTasks, facTask, locEp, locTasks, alive, dying, nextEp, nextFac, found>>
            ELSE \* send and await the reply
                 /\ running' = None
                 /\ todo' = [todo EXCEPT ![t] = <<[fr EXCEPT !.f = "hsDone"]>> \o Tail(@)]
                 /\ UNCHANGED <<descr, facade, spa, spaConn, spaOpen, epOpen, spaTasks, facTask, locEp, locTasks, alive, dying, nextEp, nextFac, found, kf>>
       [] fr.f = "hsDone" ->                                      \* the task resumes with the outcome and runs on
            \* (a request that was in flight when a reset dropped the protocol may still be answered from
            \*  the queue, or exhaust its retries on the closed transport)
            \* hsLuck / hsBad: outcome not determined by the current network mode (lossy phases, requests in
            \* flight across a phase change, requests in flight when a reset dropped the protocol)
            \E hsLuck \in (IF (net = "bad" /\ Unreliable /\ spaOpen[fr.a \div 10]) \/ ~spaOpen[fr.a \div 10]
                            THEN BOOLEAN ELSE {FALSE}) :
            \E hsBad \in (IF Unreliable THEN BOOLEAN ELSE {FALSE}) :
            LET e == fr.a \div 10  k == fr.a % 10 IN
            /\ running' = t
            /\ IF (net = "ok" /\ spaOpen[e] /\ ~hsBad) \/ hsLuck
               THEN /\ IF k = 1 THEN Push(t, <<R("GOT_FIRMWARE")>>)
                       ELSE IF k = 2 THEN Push(t, <<R("GOT_CHANNEL")>>)
                       \* (the step pause between the two events is a real await: another task may run there)
                       ELSE IF k = 3 THEN Push(t, <<R("GOT_CONFIG"), F("yield"), R("INITIAL_DATA_BLOCK")>>)
                       ELSE IF ~spaOpen[e] /\ ~KF_LateComplete
                            THEN todo' = [todo EXCEPT ![t] = ToFinally(Tail(@))]     \* repaired: handshake abandoned
                            ELSE Push(t, <<R("SPA_COMPLETE")>>)
                    /\ spaConn' = IF k = 4 /\ (spaOpen[e] \/ KF_LateComplete) THEN [spaConn EXCEPT ![e] = TRUE] ELSE spaConn
                    /\ kf' = IF k = 4 /\ ~spaOpen[e] /\ KF_LateComplete THEN kf \cup {"LateComplete"} ELSE kf
               ELSE IF spaOpen[e]
               THEN /\ todo' = [todo EXCEPT ![t] = <<R("CONN_RETRY_EXCEEDED")>> \o ToFinally(Tail(@))]
                    /\ UNCHANGED <<spaConn, kf>>
               ELSE \* the retry builds a new request: self._protocol is None by now -> the exception path
                    /\ todo' = [todo EXCEPT ![t] = IF KF_PumpDies THEN OnlyFinally(ToFinally(Tail(@))) \o <<F("die")>>
                                                    ELSE ToFinally(Tail(@))]
                    /\ kf' = IF KF_PumpDies THEN kf \cup {"PumpDies"} ELSE kf
                    /\ UNCHANGED spaConn
            /\ UNCHANGED <<descr, facade, spa, spaOpen, epOpen, spaTasks, facTask, locEp, locTasks, alive, dying, nextEp, nextFac, found>>
       [] fr.f = "facadeIf" ->
            /\ running' = t
            /\ IF st = "SPA_READY" /\ nextFac <= MaxEp /\ spa # 0
               THEN facade' = nextFac /\ nextFac' = nextFac + 1 /\ facTask' = TRUE
               ELSE UNCHANGED <<facade, nextFac, facTask>>
            \* GeckoAsyncFacade(None, ...) raises: the finally block runs, then the exception path
            /\ IF st = "SPA_READY" /\ spa = 0
               THEN todo' = [todo EXCEPT ![t] = IF KF_PumpDies THEN OnlyFinally(ToFinally(Tail(@))) \o <<F("die")>> ELSE ToFinally(Tail(@))]
               ELSE Pop(t)
            /\ kf' = (IF KF_Overtake /\ \E u \in Tasks : u # t /\ todo[u] # <<>> /\ Head(todo[u]).f = "resetTail" THEN kf \cup {"Overtake"} ELSE kf)
                       \cup (IF KF_PumpDies /\ st = "SPA_READY" /\ spa = 0 THEN {"PumpDies"} ELSE {})
            /\ UNCHANGED <<descr, spa, spaConn, spaOpen, epOpen, spaTasks, locEp, locTasks, alive, dying, nextEp, found>>
       [] fr.f = "die" ->                                         \* the exception leaves _sequence_pump
            /\ running' = None /\ alive' = [alive EXCEPT ![t] = FALSE] /\ todo' = [todo EXCEPT ![t] = <<>>]
            /\ UNCHANGED <<descr, facade, spa, spaConn, spaOpen, epOpen, spaTasks, facTask, locEp, locTasks, dying, nextEp, nextFac, found, kf>>
  /\ UNCHANGED <<st, sensor, announced, locBr, connBr, net, nNet, nSusp, nReset, nBg, last, exited>>   \* (nFail: above)

StepPump(t) ==
  \E fail \in (IF Head(todo[t]).f \in {"locNew", "spaNew"} /\ nFail < MaxSockFail THEN BOOLEAN ELSE {FALSE}) : PumpBody(t, fail)

\* the locator's hello consumer announces the spa (its own task)
StepLoc ==
  /\ fresh' = FALSE
  /\ alive[LOC] /\ locTasks /\ (net = "ok" \/ Unreliable) /\ ~found /\ running = None /\ todo[LOC] = <<>>
  /\ found' = TRUE
  /\ todo' = [todo EXCEPT ![LOC] = <<R("LOCATING_DISCOVERED")>>]
  /\ UNCHANGED <<st, descr, facade, spa, sensor, announced, locBr, connBr, kf, net, nNet, nSusp, nReset, nBg, nFail, rfc, hasId, running, alive, dying,
                 last, nextEp, nextFac, exited>> /\ UNCH_RES

\* ---------------------------------------------------------------- ping loop and background tasks of a connection
StepPing(t) ==
  LET fr == Head(todo[t]) IN
  /\ t \in { <<"PING", e>> : e \in Eps } /\ fr.f \in {"pingReq", "pingGot", "pingSleep"}
  /\ IF fr.f = "pingReq"
     THEN /\ running' = None /\ Push(t, <<F("pingGot")>>) /\ UNCHANGED alive
     ELSE IF fr.f = "pingGot"
     THEN /\ running' = t
          /\ IF ~spaOpen[t[2]] THEN /\ todo' = [todo EXCEPT ![t] = <<>>] /\ alive' = [alive EXCEPT ![t] = FALSE]
             ELSE /\ \/ /\ (net = "ok" \/ Unreliable) /\ Push(t, <<R("PING_RECEIVED"), F("pingSleep")>>)
                     \/ /\ (net = "bad" \/ Unreliable) /\ Push(t, <<R("PING_MISSED"), F("pingSleep")>>)
                     \/ /\ (net = "bad" \/ Unreliable) /\ Push(t, <<R("PING_MISSED"), R("PING_NO_RESPONSE"), F("pingSleep")>>)
                  /\ UNCHANGED alive
     ELSE /\ running' = None /\ Push(t, <<F("pingReq")>>) /\ UNCHANGED alive
  /\ UNCHANGED <<st, descr, facade, spa, sensor, announced, locBr, connBr, kf, net, nNet, nSusp, nReset, nBg, nFail, rfc, hasId, dying, last, nextEp,
                 nextFac, found, exited>> /\ UNCH_RES

\* the refresh loop reports a failed status-block request as RETRY_EXCEEDED and then goes on to the channel
\* request, whose failure it reports with the CONNECTION_ flavour of the event (async_spa._refresh_loop).
\* The RF-error consumer counts the RFERR datagrams of its connection (the count is never reset): every one is
\* reported as RF_ERROR and, once more than MaxRF have been counted, followed by TOO_MANY_RF from the same task.
BgEvents == {"RF_ERROR", "RETRY_EXCEEDED", "CONN_RETRY_EXCEEDED", "PACK_REFRESHED"}
StepBg(t) ==
  /\ t \in { <<"BG", e>> : e \in Eps } /\ Head(todo[t]).f = "bgIdle" /\ nBg < MaxBg
  /\ \E ev \in BgEvents :
       \* (a refresh cycle starts only while the spa is connected, but one that is in flight when a reset begins
       \*  still reports after `_is_connected` was cleared, as long as the protocol exists)
       /\ (ev = "PACK_REFRESHED") => ((net = "ok" \/ Unreliable) /\ (spaConn[t[2]] \/ spaOpen[t[2]]))
       /\ (ev \in {"RETRY_EXCEEDED", "CONN_RETRY_EXCEEDED"}) => (net = "bad" \/ Unreliable)
       /\ IF ev = "RF_ERROR"
          THEN LET n == IF rfc[t[2]] > MaxRF THEN rfc[t[2]] ELSE rfc[t[2]] + 1 IN
               /\ rfc' = [rfc EXCEPT ![t[2]] = n]
               /\ Push(t, <<R("RF_ERROR")>> \o (IF n > MaxRF THEN <<R("TOO_MANY_RF")>> ELSE <<>>) \o <<F("bgIdle")>>)
          ELSE /\ Push(t, <<R(ev), F("bgIdle")>>) /\ UNCHANGED rfc
  /\ nBg' = nBg + 1 /\ running' = t
  /\ UNCHANGED <<st, descr, facade, spa, sensor, announced, locBr, connBr, kf, net, nNet, nSusp, nReset, nFail, hasId, alive, dying, last, nextEp,
                 nextFac, found, exited>> /\ UNCH_RES

\* a task whose frames are exhausted, or a dying (cancelled) task that has run its last frame
StepEnd(t) ==
  /\ fresh' = FALSE
  /\ (running = t \/ (running = None /\ dying[t])) /\ (todo[t] = <<>> \/ (todo[t] # <<>> /\ Head(todo[t]).f = "bgIdle" /\ running = t))
  /\ running' = None
  /\ alive' = IF dying[t] THEN [alive EXCEPT ![t] = FALSE] ELSE alive
  /\ dying' = [dying EXCEPT ![t] = FALSE]
  /\ todo' = IF dying[t] THEN [todo EXCEPT ![t] = <<>>] ELSE todo
  /\ UNCHANGED <<st, descr, facade, spa, sensor, announced, locBr, connBr, kf, net, nNet, nSusp, nReset, nBg, nFail, rfc, hasId, last, nextEp, nextFac,
                 found, exited>> /\ UNCH_RES

\* ---------------------------------------------------------------- user and environment
UserReset ==
  /\ fresh' = FALSE
  /\ nReset < MaxReset /\ todo[USER] = <<>> /\ running = None /\ ~exited
  /\ nReset' = nReset + 1
  /\ todo' = [todo EXCEPT ![USER] = ResetFrames \o <<F("resetReturn")>>]
  /\ alive' = [alive EXCEPT ![USER] = TRUE]
  /\ UNCHANGED <<st, descr, facade, spa, sensor, announced, locBr, connBr, kf, net, nNet, nSusp, nBg, nFail, rfc, hasId, running, dying, last, nextEp,
                 nextFac, found, exited>> /\ UNCH_RES
\* async_set_spa_info(address, identifier, name): the three attributes are stored, then async_reset
UserSetInfo ==
  /\ fresh' = FALSE
  /\ nReset < MaxReset /\ todo[USER] = <<>> /\ running = None /\ ~exited
  /\ nReset' = nReset + 1 /\ hasId' = TRUE
  /\ todo' = [todo EXCEPT ![USER] = ResetFrames \o <<F("resetReturn")>>]
  /\ alive' = [alive EXCEPT ![USER] = TRUE]
  /\ UNCHANGED <<st, descr, facade, spa, sensor, announced, locBr, connBr, kf, net, nNet, nSusp, nBg, nFail, rfc, running, dying, last, nextEp,
                 nextFac, found, exited>> /\ UNCH_RES
StepUserReturn(t) ==
  /\ t = USER /\ Head(todo[t]).f = "resetReturn"
  /\ running' = None /\ Pop(t) /\ alive' = [alive EXCEPT ![t] = FALSE]
  /\ last' = [last EXCEPT !.ev = "reset-returned", !.st = st, !.fac = facade, !.spa = spa, !.descr = descr, !.by = t,
                           !.leak = ((\E e \in Eps : spaTasks[e]) \/ facTask)]
  /\ UNCHANGED <<st, descr, facade, spa, sensor, announced, locBr, connBr, kf, net, nNet, nSusp, nReset, nBg, nFail, rfc, hasId, dying, nextEp, nextFac,
                 found, exited>> /\ UNCH_RES
\* leaving the manager's context: cancel the pump, announce, cancel and await everything
Exit ==
  /\ fresh' = FALSE
  /\ ~exited /\ running = None /\ todo[MAIN] = <<>> /\ todo[USER] = <<>>
  /\ alive' = [alive EXCEPT ![MAIN] = TRUE]
  /\ todo' = [t \in Tasks |-> IF t = MAIN THEN <<R("SPA_MAN_EXIT"), F("gather")>>
                               ELSE IF t = PUMP THEN OnlyFinally(todo[t]) ELSE todo[t]]
  /\ dying' = [dying EXCEPT ![PUMP] = alive[PUMP]]
  /\ UNCHANGED <<st, descr, facade, spa, sensor, announced, locBr, connBr, kf, net, nNet, nSusp, nReset, nBg, nFail, rfc, hasId, running, last,
                 nextEp, nextFac, found, exited>> /\ UNCH_RES
StepGather(t) ==
  /\ t = MAIN /\ Head(todo[t]).f \in {"gather", "gathered"}
  /\ IF Head(todo[t]).f = "gather"
     THEN \* cancel every task: each runs its pending finally frames, then ends
          /\ running' = None
          /\ todo' = [x \in Tasks |-> IF x = MAIN THEN <<F("gathered")>> ELSE OnlyFinally(todo[x])]
          /\ dying' = [x \in Tasks |-> IF x # MAIN /\ (alive[x] \/ dying[x]) THEN TRUE ELSE dying[x]]
          /\ UNCHANGED <<alive, exited, spaTasks, facTask, locTasks>>
     ELSE \* gather() returns once every task has finished
          /\ \A x \in Tasks \ {MAIN} : todo[x] = <<>>
          /\ running' = None /\ exited' = TRUE /\ Pop(t)
          /\ alive' = [x \in Tasks |-> FALSE] /\ dying' = [x \in Tasks |-> FALSE]
          /\ spaTasks' = [e \in Eps |-> FALSE] /\ facTask' = FALSE /\ locTasks' = FALSE
  /\ UNCHANGED <<st, descr, facade, spa, sensor, announced, locBr, connBr, kf, net, nNet, nSusp, nReset, nBg, nFail, rfc, hasId, last, nextEp, nextFac,
                 found, spaConn, spaOpen, epOpen, locEp>>

NetChange ==
  /\ fresh' = FALSE
  /\ nNet < MaxNet /\ running = None
  /\ net' = (IF net = "ok" THEN "bad" ELSE "ok") /\ nNet' = nNet + 1
  /\ UNCHANGED <<st, descr, facade, spa, sensor, announced, locBr, connBr, kf, nSusp, nReset, nBg, nFail, rfc, hasId, running, todo, alive, dying, last,
                 nextEp, nextFac, found, exited>> /\ UNCH_RES

\* `fresh`: the last step of the running task was a delivery (the only point at which the client
\* handler, and with it the task, can be suspended)
TStep(t) == /\ CanRun(t)
            /\ \/ (StepDeliver(t) /\ fresh' = TRUE)
               \/ ((StepRaise(t) \/ StepResetHead(t) \/ StepResetTail(t) \/ StepPump(t)
                     \/ StepPing(t) \/ StepBg(t) \/ StepUserReturn(t) \/ StepGather(t)) /\ fresh' = FALSE)
Next == \/ \E t \in Tasks : TStep(t) \/ Suspend(t) \/ StepEnd(t)
        \/ StepLoc \/ UserReset \/ UserSetInfo \/ NetChange \/ (AllowExit /\ Exit)
Spec == Init /\ [][Next]_vars
LiveSpec == Spec /\ \A t \in Tasks : SF_vars(TStep(t) \/ StepEnd(t)) /\ SF_vars(StepLoc)

\* ---------------------------------------------------------------- properties (C08)
Observable == running = None
Escaped == kf # {}
\* CONNECTED holds only with a live facade on a fully connected spa
ConnectedSound == (Observable /\ st = "CONNECTED") => ((facade # 0 /\ spa # 0 /\ spaConn[spa]) \/ Escaped)
\* facade-ready is announced exactly when CONNECTED is entered
ReadyIffEnterConnected ==
  /\ (last.ev = "FACADE_IS_READY") => ((last.st = "CONNECTED" /\ last.fac # 0 /\ last.prevst # "CONNECTED") \/ Escaped)
  /\ (last.by # None /\ last.ev \notin {"none", "reset-returned"} /\ last.st = "CONNECTED" /\ last.prevst # "CONNECTED")
        => (last.ev = "FACADE_IS_READY" \/ Escaped)
\* teardown at most once per ready, only while a ready is outstanding
TeardownBracket == (last.ev = "FACADE_TEARDOWN") => (last.prevann \/ Escaped)
\* (a second ready without a teardown in between is allowed: "at most once per facade-ready";
\*  CONNECTED -> ERROR_NEEDS_ATTENTION -> reset drops the facade without announcing a teardown)
\* every started locate / connect phase is closed by its finished event, also on cancellation
BracketsClosedAtExit == exited => ((locBr = 0 /\ connBr = 0) \/ Escaped)
NoTaskAfterExit == exited => (\A t \in Tasks : ~alive[t])
BracketsSane == (locBr \in {0, 1} /\ connBr \in {0, 1}) \/ Escaped
SensorMirrorsState == (last.by # None /\ last.ev \notin {"none", "reset-returned"} /\ last.sensor # "absent") => last.sensor = Text(last.st)
ResetLandsIdle == (last.ev = "reset-returned") => ((last.st = "IDLE" /\ last.fac = 0 /\ last.spa = 0 /\ last.descr = "none") \/ Escaped)
\* ---------------------------------------------------------------- properties (C10)
OpenEndpoints == Cardinality({ e \in Eps : epOpen[e] }) + (IF locEp THEN 1 ELSE 0)
\* after a reset returned, no task of an abandoned connection is alive
\* (evaluated at the instant the reset returns)
NoTaskLeakAfterReset == (last.ev = "reset-returned") => (~last.leak \/ Escaped)
\* ---------------------------------------------------------------- properties (C09)
PumpAlive == (alive[PUMP] \/ exited \/ alive[MAIN]) \/ ("PumpDies" \in kf)
Quiet == nNet = MaxNet /\ nReset = MaxReset /\ nBg = MaxBg /\ net = "ok"
Heals == (Quiet /\ hasId) ~> (st = "CONNECTED" \/ Escaped \/ (KF_NotFound /\ st = "NOT_FOUND") \/ nextEp > MaxEp)
===============================================================================
