-------------------------------- MODULE C14_MC --------------------------------
(* Laws of the temperature arithmetic on the complete raw domain 0..65535, both units:
   Stored(Shown(raw)) = raw, Shown strictly monotone, hundredth-degree inputs land within
   one device step and preserve order.                                                *)
EXTENDS BitField, IOUtils
Lo == atoi(IOEnv.GV_LO)
Hi == atoi(IOEnv.GV_HI)
Units == {"C", "F"}
\* Shown(raw,u) as a fraction
SN(raw, u) == IF u = "C" THEN raw ELSE raw + 320
SD(u) == IF u = "C" THEN 18 ELSE 10
RoundTrip == \A u \in Units : \A raw \in Lo..Hi : Stored(u, SN(raw, u), SD(u)) = raw
Monotone  == \A u \in Units : \A raw \in Lo..Hi : raw < 65535 => SN(raw, u) < SN(raw + 1, u)
\* hundredths k/100 in and around the allowed ranges
Ks(u) == IF u = "C" THEN 1000..4600 ELSE 3200..11500
Hundredths == \A u \in Units : \A k \in Ks(u) :
   LET w == Stored(u, k, 100) IN
   /\ WithinOneStep(w, u, k, 100)
   /\ Stored(u, k, 100) <= Stored(u, k + 1, 100)
VARIABLE done
Init == done = FALSE
Next == ~done /\ done' = TRUE
Spec == Init /\ [][Next]_done
Inv == done => (RoundTrip /\ Monotone /\ Hundredths)
===============================================================================
