--------------------------------- MODULE Wire ---------------------------------
(* The in.touch2 wire format as built and parsed by the library (C04).

   Code: driver/protocol/*.py (one handler class per verb pair), packet.py (framing),
   hello.py (discovery), udp_protocol_handler.py.

   Enc(kind, f) is the byte layout (sequence of 0..255) of each message the library can
   build from the field record f; Owner(kind) is the handler class that must be the only
   standard handler whose can_handle accepts it; Reply is the framing of an answer.
   Text is latin-1: one byte per code point.  Multi-byte numbers are big-endian except the
   reminder days (little-endian signed 16 bit).                                          *)
EXTENDS Naturals, Integers, Sequences, FiniteSets, TLC, SequencesExt

CONSTANT WatercareClaimsAll   \* FALSE while finding D13 stands: SETWC / WCREQ are claimed by no handler

\* ---- verbs and tags as code points
V_APING == <<65, 80, 73, 78, 71>>
V_AVERS == <<65, 86, 69, 82, 83>>
V_SVERS == <<83, 86, 69, 82, 83>>
V_CURCH == <<67, 85, 82, 67, 72>>
V_CHCUR == <<67, 72, 67, 85, 82>>
V_SFILE == <<83, 70, 73, 76, 69>>
V_FILES == <<70, 73, 76, 69, 83>>
V_STATU == <<83, 84, 65, 84, 85>>
V_STATV == <<83, 84, 65, 84, 86>>
V_STATP == <<83, 84, 65, 84, 80>>
V_STATQ == <<83, 84, 65, 84, 81>>
V_SPACK == <<83, 80, 65, 67, 75>>
V_PACKS == <<80, 65, 67, 75, 83>>
V_GETWC == <<71, 69, 84, 87, 67>>
V_WCGET == <<87, 67, 71, 69, 84>>
V_SETWC == <<83, 69, 84, 87, 67>>
V_WCSET == <<87, 67, 83, 69, 84>>
V_REQWC == <<82, 69, 81, 87, 67>>
V_WCREQ == <<87, 67, 82, 69, 81>>
V_WCERR == <<87, 67, 69, 82, 82>>
V_REQRM == <<82, 69, 81, 82, 77>>
V_RMREQ == <<82, 77, 82, 69, 81>>
V_UPDTS == <<85, 80, 68, 84, 83>>
V_SUPDT == <<83, 85, 80, 68, 84>>
V_RFERR == <<82, 70, 69, 82, 82>>
HELLO_O == <<60, 72, 69, 76, 76, 79, 62>>
HELLO_C == <<60, 47, 72, 69, 76, 76, 79, 62>>
PACKT_O == <<60, 80, 65, 67, 75, 84, 62>>
PACKT_C == <<60, 47, 80, 65, 67, 75, 84, 62>>
SRCCN_O == <<60, 83, 82, 67, 67, 78, 62>>
SRCCN_C == <<60, 47, 83, 82, 67, 67, 78, 62>>
DESCN_O == <<60, 68, 69, 83, 67, 78, 62>>
DESCN_C == <<60, 47, 68, 69, 83, 67, 78, 62>>
DATAS_O == <<60, 68, 65, 84, 65, 83, 62>>
DATAS_C == <<60, 47, 68, 65, 84, 65, 83, 62>>
Bar == 124
Schedule == <<0, 0, 0, 1, 0, 0, 6, 0, 0, 0, 0, 2, 1, 0, 1, 5, 6, 0, 18, 0, 3, 1, 0, 0, 6, 6, 0, 18, 0, 4, 1, 0, 1, 5, 0, 0, 0, 0>>

U8(n) == <<n>>
U16BE(n) == <<n \div 256, n % 256>>
S16LE(n) == LET u == IF n < 0 THEN n + 65536 ELSE n IN <<u % 256, u \div 256>>
Digit(d) == 48 + d
\* Python's {:02}: at least two decimal digits
Dec2(n) == IF n < 10 THEN <<Digit(0), Digit(n)>>
           ELSE IF n < 100 THEN <<Digit(n \div 10), Digit(n % 10)>>
           ELSE <<Digit(n \div 100), Digit((n \div 10) % 10), Digit(n % 10)>>
Cat(ss) == LET F[i \in 0..Len(ss)] == IF i = 0 THEN <<>> ELSE F[i-1] \o ss[i] IN F[Len(ss)]
Xml == <<46, 120, 109, 108>>                  \* ".xml"

\* ---- inner content of every message kind
Content(kind, f) ==
  CASE kind = "ping_req"   -> V_APING
    [] kind = "ping_resp"  -> V_APING \o U8(0)
    [] kind = "vers_req"   -> V_AVERS \o U8(f.seq)
    [] kind = "vers_resp"  -> Cat(<<V_SVERS, U16BE(f.en[1]), U8(f.en[2]), U8(f.en[3]), U16BE(f.co[1]), U8(f.co[2]), U8(f.co[3])>>)
    [] kind = "chan_req"   -> V_CURCH \o U8(f.seq)
    [] kind = "chan_resp"  -> Cat(<<V_CHCUR, U8(f.channel), U8(f.signal)>>)
    [] kind = "file_req"   -> V_SFILE \o U8(f.seq)
    [] kind = "file_resp"  -> Cat(<<V_FILES, <<44>>, f.key, <<95, 67>>, Dec2(f.cfg), Xml, <<44>>, f.key, <<95, 83>>, Dec2(f.log), Xml>>)
    [] kind = "statu"      -> Cat(<<V_STATU, U8(f.seq), U16BE(f.start), U16BE(f.len)>>)
    [] kind = "statv"      -> Cat(<<V_STATV, U8(f.idx), U8(f.next), U8(Len(f.data)), f.data>>)
    [] kind = "statp"      -> Cat(<<V_STATP, U8(Len(f.changes))>> \o [i \in 1..Len(f.changes) |-> U16BE(f.changes[i].pos) \o f.changes[i].data])
    [] kind = "statq"      -> V_STATQ \o U8(f.seq)
    [] kind = "keypress"   -> Cat(<<V_SPACK, U8(f.seq), U8(f.pack), U8(2), U8(57), U8(f.key)>>)
    [] kind = "setvalue"   -> Cat(<<V_SPACK, U8(f.seq), U8(f.pack), U8(5 + f.len), U8(70), U8(f.cfg), U8(f.log), U16BE(f.pos),
                                    IF f.len = 1 THEN U8(f.val) ELSE U16BE(f.val)>>)
    [] kind = "packs"      -> V_PACKS
    [] kind = "wc_req"     -> V_GETWC \o U8(f.seq)
    [] kind = "wc_resp"    -> V_WCGET \o U8(f.mode)
    [] kind = "wc_set"     -> Cat(<<V_SETWC, U8(f.seq), U8(f.mode)>>)
    [] kind = "wc_sched"   -> V_WCREQ \o Schedule
    [] kind = "rem_req"    -> V_REQRM \o U8(f.seq)
    [] kind = "rem_resp"   -> Cat(<<V_RMREQ>> \o [i \in 1..Len(f.rem) |-> Cat(<<U8(f.rem[i].t), S16LE(f.rem[i].days), U8(1)>>)])
    [] kind = "fw_req"     -> V_UPDTS \o U8(f.seq)
    [] kind = "fw_resp"    -> V_SUPDT \o U8(0)
    [] kind = "rferr"      -> V_RFERR

\* ---- framing
Frame(src, dst, content) ==
  Cat(<<PACKT_O, SRCCN_O, src, SRCCN_C, DESCN_O, dst, DESCN_C, DATAS_O, content, DATAS_C, PACKT_C>>)
\* a message built with parms = (ip, port, A, B) is framed <SRCCN>B</SRCCN><DESCN>A</DESCN>
Enc(kind, f) ==
  CASE kind = "hello_bcast"  -> Cat(<<HELLO_O, <<49>>, HELLO_C>>)
    [] kind = "hello_client" -> Cat(<<HELLO_O, f.id, HELLO_C>>)
    [] kind = "hello_resp"   -> Cat(<<HELLO_O, f.id, <<Bar>>, f.name, HELLO_C>>)
    [] OTHER                 -> Frame(f.p3, f.p2, Content(kind, f))

\* a packet received from (ip, port) with <SRCCN>s</SRCCN><DESCN>d</DESCN> gets parms (ip, port, s, d);
\* an answer built with those parms is framed <SRCCN>d</SRCCN><DESCN>s</DESCN> and sent to (ip, port)
ReplyFrame(s, d, content) == Frame(d, s, content)

\* ---- which standard handler class claims which bytes (can_handle)
HasPrefix(b, p) == Len(b) >= Len(p) /\ SubSeq(b, 1, Len(p)) = p
HasSuffix(b, p) == Len(b) >= Len(p) /\ SubSeq(b, Len(b) - Len(p) + 1, Len(b)) = p
Handlers == {"Hello", "Packet", "Ping", "Version", "GetChannel", "ConfigFile", "StatusBlock", "PartialStatusBlock",
             "AsyncPartialStatusBlock", "Watercare", "WatercareError", "UpdateFirmware", "Reminders", "PackCommand", "RFErr"}
VerbPrefixes(h) ==
  CASE h = "Ping" -> {V_APING}
    [] h = "Version" -> {V_AVERS, V_SVERS}
    [] h = "GetChannel" -> {V_CURCH, V_CHCUR}
    [] h = "ConfigFile" -> {V_SFILE, V_FILES}
    [] h = "StatusBlock" -> {V_STATU, V_STATV}
    [] h \in {"PartialStatusBlock", "AsyncPartialStatusBlock"} -> {V_STATQ, V_STATP}
    [] h = "Watercare" -> {V_GETWC, V_WCGET, V_REQWC, V_WCSET} \cup (IF WatercareClaimsAll THEN {V_SETWC, V_WCREQ} ELSE {})
    [] h = "WatercareError" -> {V_WCERR}
    [] h = "UpdateFirmware" -> {V_UPDTS, V_SUPDT}
    [] h = "Reminders" -> {V_REQRM, V_RMREQ}
    [] h = "PackCommand" -> {V_SPACK, V_PACKS}
    [] h = "RFErr" -> {V_RFERR}
    [] OTHER -> {}
Claims(h, b) ==
  CASE h = "Hello"  -> HasPrefix(b, HELLO_O) /\ HasSuffix(b, HELLO_C)
    [] h = "Packet" -> HasPrefix(b, PACKT_O) /\ HasSuffix(b, PACKT_C)
    [] OTHER -> \E p \in VerbPrefixes(h) : HasPrefix(b, p)
Claimers(b) == { h \in Handlers : Claims(h, b) }

\* the handler (pair) that must claim the inner content of a kind; {} = nobody (known finding D13)
Owner(kind) ==
  CASE kind \in {"ping_req", "ping_resp"} -> {"Ping"}
    [] kind \in {"vers_req", "vers_resp"} -> {"Version"}
    [] kind \in {"chan_req", "chan_resp"} -> {"GetChannel"}
    [] kind \in {"file_req", "file_resp"} -> {"ConfigFile"}
    [] kind \in {"statu", "statv"} -> {"StatusBlock"}
    [] kind \in {"statp", "statq"} -> {"PartialStatusBlock", "AsyncPartialStatusBlock"}
    [] kind \in {"keypress", "setvalue", "packs"} -> {"PackCommand"}
    [] kind \in {"wc_req", "wc_resp"} -> {"Watercare"}
    [] kind \in {"wc_set", "wc_sched"} -> IF WatercareClaimsAll THEN {"Watercare"} ELSE {}
    [] kind \in {"rem_req", "rem_resp"} -> {"Reminders"}
    [] kind \in {"fw_req", "fw_resp"} -> {"UpdateFirmware"}
    [] kind = "rferr" -> {"RFErr"}
    [] kind \in {"hello_bcast", "hello_client", "hello_resp"} -> {"Hello"}
Framed(kind) == kind \notin {"hello_bcast", "hello_client", "hello_resp"}

\* ---- parsing a frame: identifiers end at the FIRST closing tag, the payload at the LAST
\* (identifiers never contain tag text; the payload may contain anything)
Find(b, p, from) ==     \* least index >= from at which p occurs in b, 0 if none
  LET S == { i \in from..(Len(b) - Len(p) + 1) : SubSeq(b, i, i + Len(p) - 1) = p } IN
  IF S = {} THEN 0 ELSE CHOOSE i \in S : \A j \in S : i <= j
ParseFrame(b) ==        \* b = a whole datagram claimed by Packet
  LET inner == SubSeq(b, Len(PACKT_O) + 1, Len(b) - Len(PACKT_C))
      sep1 == SRCCN_C \o DESCN_O
      sep2 == DESCN_C \o DATAS_O
      i0 == Find(inner, SRCCN_O, 1)
      i1 == IF i0 = 0 THEN 0 ELSE Find(inner, sep1, i0 + Len(SRCCN_O))
      i2 == IF i1 = 0 THEN 0 ELSE Find(inner, sep2, i1 + Len(sep1))
      ok == i0 # 0 /\ i1 # 0 /\ i2 # 0 /\ HasSuffix(inner, DATAS_C) /\ Len(inner) - Len(DATAS_C) >= i2 + Len(sep2) - 1
  IN IF ~ok THEN [ok |-> FALSE, src |-> <<>>, dst |-> <<>>, content |-> <<>>]
     ELSE [ok |-> TRUE,
           src |-> SubSeq(inner, i0 + Len(SRCCN_O), i1 - 1),
           dst |-> SubSeq(inner, i1 + Len(sep1), i2 - 1),
           content |-> SubSeq(inner, i2 + Len(sep2), Len(inner) - Len(DATAS_C))]
\* hello reply: identifier up to the FIRST bar, the name is everything after it
ParseHello(b) ==
  LET inner == SubSeq(b, Len(HELLO_O) + 1, Len(b) - Len(HELLO_C))
      S == { i \in 1..Len(inner) : inner[i] = Bar }
      i == IF S = {} THEN 0 ELSE CHOOSE i \in S : \A j \in S : i <= j
  IN [id |-> SubSeq(inner, 1, i - 1), name |-> SubSeq(inner, i + 1, Len(inner))]
\* ---------------------------------------------------------------- the bundled simulator as a responder
\* (utils/simulator.py: the peer every connection check talks to).  For a request of the given kind it queues
\* exactly these answers (verbs), each framed back to the requester with the identifier pair swapped; in RF-error
\* mode every request that has a handler is answered with RFERR instead - except discovery, which is not gated.
\* A status-block request is answered by a whole chain (C01), a water-care SET by nothing (no handler, D13).
SimAnswers(kind, rferr) ==
  CASE kind = "hello_bcast"  -> <<"HELLO">>
    [] kind = "hello_client" -> <<>>
    \* (its handlers are the client's handler classes, which accept a verb in both directions: a ping ANSWER is
    \*  byte-identical to a ping request, and a PACKS or WCGET answer that reaches the simulator is answered like
    \*  the corresponding request - modelled as it is)
    [] kind \in {"ping_req", "ping_resp", "vers_req", "chan_req", "file_req", "wc_req", "wc_resp", "rem_req", "fw_req",
                 "keypress", "setvalue", "packs"}
         -> IF rferr THEN <<"RFERR">>
            ELSE <<CASE kind \in {"ping_req", "ping_resp"} -> "APING" [] kind = "vers_req" -> "SVERS" [] kind = "chan_req" -> "CHCUR"
                     [] kind = "file_req" -> "FILES" [] kind \in {"wc_req", "wc_resp"} -> "WCGET" [] kind = "rem_req" -> "RMREQ"
                     [] kind = "fw_req" -> "SUPDT" [] OTHER -> "PACKS">>
    [] OTHER -> <<>>            \* acknowledgements, answers, water-care set, unknown verbs: nothing

===============================================================================
