SPECIFICATION Spec
CONSTANTS N = 7
          S = 3
          R = 2
          MaxFaults = 2
          Variant = "sync"
          ChainFixed = TRUE
          FaultFree = FALSE
CONSTRAINT BoundNet
INVARIANT NoPartialInstall
INVARIANT OkMeansSpaBytes
INVARIANT SentBound
PROPERTY DoneIsFinal
CHECK_DEADLOCK FALSE
VIEW View
