--------------------------- MODULE SyncFacade_Trace ---------------------------
(* Trace validation of real GeckoFacade constructions under the earliest schedules of the engine and client
   threads (harness: checks/c12.py EagerSpa) against SyncFacade.  Events, in the order observed:
     [k |-> "hook", declared]        spa.on_connected is being assigned; declared = the facade already has its members
     [k |-> "final"]                 the engine thread runs _final_connect (_is_connected := True, callback called)
     [k |-> "poll", connected]       a client thread reads facade.is_connected while the callback runs
     [k |-> "cbdone"]                the callback has returned
     [k |-> "ctordone", connected, inv]   the constructor has returned; inv = "built" iff heater, watercare, keypad and
                                          reminders exist, else "wiped"
   The member declarations and the callback's internal steps are not logged: silent SyncFacade actions.       *)
EXTENDS SyncFacade, Sequences, TraceKit

VARIABLES tid, l
tvars == <<vars, tid, l>>
Log == Logs[tid]
Ev == Log.ev
E == Ev[l]
More == l <= Len(Ev)

TInit == TKInit /\ tid \in 1..NLogs /\ l = 1 /\ Init

TAdv == l' = l + 1 /\ UNCHANGED tid
THook == /\ More /\ E.k = "hook" /\ declared = E.declared /\ Hook /\ TAdv
TFinal == /\ More /\ E.k = "final" /\ FinalA /\ cb' = "running" /\ TAdv
TPoll == /\ More /\ E.k = "poll" /\ cb = "running" /\ FacadeConnected = E.connected
         /\ UNCHANGED vars /\ TAdv
TCbDone == /\ More /\ E.k = "cbdone" /\ cb = "done" /\ UNCHANGED vars /\ TAdv
TCtorDone == /\ More /\ E.k = "ctordone" /\ pc = "done"
             /\ FacadeConnected = E.connected /\ inv = E.inv
             /\ UNCHANGED vars /\ TAdv
TSilent == /\ More /\ (Declare \/ CbScan \/ CbBuilt \/ CbReady) /\ UNCHANGED <<tid, l>>
TNext == THook \/ TFinal \/ TPoll \/ TCbDone \/ TCtorDone \/ TSilent
TSpec == TInit /\ [][TNext]_tvars

Track == /\ TKTrack(tid, l, l > Len(Ev))
         /\ (~ConnectedMeansBuilt => TKWhy(tid, "ConnectedMeansBuilt"))
         /\ (~NeverWiped => TKWhy(tid, "NeverWiped"))
         /\ ConnectedMeansBuilt /\ NeverWiped
Report == TKReport
================================================================================
