SPECIFICATION LSpec
CONSTANTS Keys = {"a", "b", "c"}
          Vals = {1, 2}
          AllowEdit = FALSE
PROPERTY Immutable
CHECK_DEADLOCK FALSE
