------------------------------ MODULE SyncFacade ------------------------------
(* Construction of the BLOCKING facade (automation/facade.py GeckoFacade.__init__) against the engine thread's
   _final_connect (spa.py) and a client thread that polls facade.is_connected (GeckoSpaDescriptor.get_facade()).

   Code.  get_facade() calls spa.start_connect() and THEN constructs the facade, so the engine thread is already
   running while the constructor executes.  The constructor declares its members (empty sensor lists, heater /
   watercare / keypad / reminders / eco switch := None), sets _facade_ready := False and, as its LAST statement,
   hooks spa.on_connected.  _final_connect sets _is_connected := True and then calls on_connected if one is hooked
   (if none is hooked the callback is never called: action FinalA with cb' = "skipped", see the witness).  The
   callback builds heater, watercare, keypad and reminders, scans the outputs, and sets _facade_ready last.
   facade.is_connected is spa connected AND facade ready.

   HookLast and GuardReady are TRUE for the code as it is; the two negative controls set one of them to FALSE
   (hook before the declarations; is_connected without the facade's own flag) and must be refuted.            *)
EXTENDS Naturals

CONSTANTS HookLast, GuardReady

VARIABLES pc,        \* constructor: "start" -> ("declared" -> "done") or ("hooked" -> "done")
          declared, hooked,
          spaConn,   \* GeckoSpa._is_connected
          cb,        \* the on_connected callback: "idle" | "running" | "done" | "skipped"
          inv,       \* the facade's members: "none" | "partial" | "built" | "wiped"
          ready      \* _facade_ready
vars == <<pc, declared, hooked, spaConn, cb, inv, ready>>

Init == /\ pc = "start" /\ declared = FALSE /\ hooked = FALSE /\ spaConn = FALSE
        /\ cb = "idle" /\ inv = "none" /\ ready = FALSE

\* the member declarations: whatever the callback may have built so far is overwritten
Declare == /\ ~declared
           /\ IF HookLast THEN pc = "start" ELSE pc = "hooked"
           /\ declared' = TRUE
           /\ inv' = IF inv \in {"partial", "built"} THEN "wiped" ELSE inv
           /\ pc' = IF HookLast THEN "declared" ELSE "done"
           /\ UNCHANGED <<hooked, spaConn, cb, ready>>
\* _facade_ready := False ; spa.on_connected := self._on_connected
Hook == /\ ~hooked
        /\ IF HookLast THEN pc = "declared" ELSE pc = "start"
        /\ hooked' = TRUE /\ ready' = FALSE
        /\ pc' = IF HookLast THEN "done" ELSE "hooked"
        /\ UNCHANGED <<declared, spaConn, cb, inv>>

\* engine thread: _is_connected := True ; if on_connected is not None: on_connected(self)
FinalA == /\ ~spaConn
          /\ spaConn' = TRUE
          /\ cb' = IF hooked THEN "running" ELSE "skipped"
          /\ UNCHANGED <<pc, declared, hooked, inv, ready>>
CbScan == /\ cb = "running" /\ inv \in {"none", "wiped"} /\ ~ready
          /\ inv' = "partial"
          /\ UNCHANGED <<pc, declared, hooked, spaConn, cb, ready>>
CbBuilt == /\ cb = "running" /\ inv = "partial"
           /\ inv' = "built"
           /\ UNCHANGED <<pc, declared, hooked, spaConn, cb, ready>>
CbReady == /\ cb = "running" /\ inv \in {"built", "wiped"}     \* (a wiped facade still gets its flag: the callback does not look back)
           /\ ready' = TRUE /\ cb' = "done"
           /\ UNCHANGED <<pc, declared, hooked, spaConn, inv>>

Ctor == Declare \/ Hook
Engine == FinalA \/ CbScan \/ CbBuilt \/ CbReady
Next == Ctor \/ Engine
Spec == Init /\ [][Next]_vars

\* ---------------------------------------------------------------- what a client thread can see
FacadeConnected == IF GuardReady THEN spaConn /\ ready ELSE spaConn

TypeOK == /\ pc \in {"start", "declared", "hooked", "done"} /\ cb \in {"idle", "running", "done", "skipped"}
          /\ inv \in {"none", "partial", "built", "wiped"} /\ {declared, hooked, spaConn, ready} \subseteq BOOLEAN
\* a facade that reports connected has its complete inventory (C12 for the blocking facade under every schedule)
ConnectedMeansBuilt == FacadeConnected => inv = "built"
NeverWiped == inv # "wiped"
ReadyOnlyAfterCallback == ready => cb = "done"
CallbackOnlyWhenHooked == cb \in {"running", "done"} => hooked
\* WITNESS (refuted on purpose): a connection that completes before the constructor has hooked its callback is
\* never reported to the facade - get_facade() then waits forever (needs a spa that answers four requests faster
\* than a constructor runs; recorded as an observation, not claimed as a finding)
CallbackNeverSkipped == cb # "skipped"
================================================================================
