SPECIFICATION Spec
CONSTANTS H = {"r1", "r2", "s1"}
          Kinds = {"k1", "k2", "kx"}
          Attr <- AttrDef
          Gap = 16
          SmallStep = 16
          MaxTime = 1260
          MaxArrivals = 3
          Steps = {16, 112}
          ResetOnHandled = TRUE
ACTION_CONSTRAINT Emit
VIEW View
CHECK_DEADLOCK FALSE
