SPECIFICATION LSpec
CONSTANTS Keys = {"a", "b", "c"}
          Vals = {1, 2}
          AllowEdit = TRUE
PROPERTY Immutable
CHECK_DEADLOCK FALSE
