SPECIFICATION FairSpec
CONSTANTS N = 7
          S = 3
          R = 2
          MaxFaults = 0
          Variant = "sync"
          ChainFixed = FALSE
          FaultFree = TRUE
INVARIANT NeverFails
PROPERTY Succeeds
CHECK_DEADLOCK FALSE
VIEW View
