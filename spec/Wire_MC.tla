-------------------------------- MODULE Wire_MC -------------------------------
(* Design-level laws of the wire format, checked by TLC over small but adversarial
   domains: payload alphabets made of the delimiter characters themselves.

   1. Framing: for identifiers free of tag text and ANY payload (including closing tags,
      newlines, further frames), ParseFrame(Frame(s, d, c)) = (s, d, c); hence Frame is
      injective (unique decodability).
   2. Hello: ParseHello(id | name) = (id, name) for names containing bars.
   3. Claim matrix: every message kind is claimed by exactly Owner(kind) (inner content) and
      its frame only by Packet; no verb is a prefix of another message's encoding.
   4. Replies swap source and destination.                                              *)
EXTENDS Wire

\* payload pieces: whole tags are atoms so that short sequences already contain tag text
Atoms == {SRCCN_O, SRCCN_C, DESCN_O, DESCN_C, DATAS_O, DATAS_C, PACKT_C, <<10>>, <<0>>, <<255>>, <<Bar>>, V_STATV}
Payloads == {<<>>} \cup Atoms \cup { a \o b : a \in Atoms, b \in Atoms } \cup
            { Cat(<<a, b, c>>) : a \in {SRCCN_C, DESCN_C, DATAS_C}, b \in Atoms, c \in {DESCN_O, DATAS_O, DATAS_C, <<0>>} }
Ids == { <<83>>, <<83, 80, 65>>, <<73, 79, 83, 49>> }

FrameRoundTrip ==
  \A s \in Ids, d \in Ids, c \in Payloads :
     LET p == ParseFrame(Frame(s, d, c)) IN p.ok /\ p.src = s /\ p.dst = d /\ p.content = c
ReplySwaps ==
  \A s \in Ids, d \in Ids : LET p == ParseFrame(ReplyFrame(s, d, V_PACKS)) IN p.src = d /\ p.dst = s
Names == { <<>>, <<65>>, <<Bar>>, <<65, Bar, 66>>, <<Bar, Bar>>, <<233, 32, Bar>> }
HelloRoundTrip ==
  \A i \in Ids, n \in Names :
     LET p == ParseHello(Enc("hello_resp", [id |-> i, name |-> n])) IN p.id = i /\ p.name = n

F0 == [seq |-> 1, p2 |-> <<83>>, p3 |-> <<73>>, en |-> <<1, 2, 3>>, co |-> <<4, 5, 6>>, channel |-> 1, signal |-> 2,
       key |-> <<105, 110, 89, 84>>, cfg |-> 7, log |-> 123, start |-> 0, len |-> 2, idx |-> 0, next |-> 1,
       data |-> <<83, 84, 65, 84, 85>>, changes |-> << [pos |-> 1, data |-> <<65, 80>>] >>, pack |-> 6, val |-> 65,
       pos |-> 16720, mode |-> 83, rem |-> << [t |-> 1, days |-> -13] >>, id |-> <<73, 79, 83>>, name |-> <<65>>]
InnerKinds == {"ping_req", "ping_resp", "vers_req", "vers_resp", "chan_req", "chan_resp", "file_req", "file_resp", "statu",
               "statv", "statp", "statq", "keypress", "setvalue", "packs", "wc_req", "wc_resp", "wc_set", "wc_sched",
               "rem_req", "rem_resp", "fw_req", "fw_resp", "rferr"}
ClaimMatrix ==
  /\ \A k \in InnerKinds : Claimers(Content(k, F0)) = Owner(k) /\ Claimers(Enc(k, F0)) = {"Packet"}
  /\ \A k \in {"hello_bcast", "hello_client", "hello_resp"} : Claimers(Enc(k, F0)) = {"Hello"}
VerbsPrefixFree ==
  \A h1 \in Handlers, h2 \in Handlers : \A p \in VerbPrefixes(h1), q \in VerbPrefixes(h2) :
     (p # q) => ~HasPrefix(p, q)

VARIABLE done
Init == done = FALSE
Next == ~done /\ done' = TRUE
Spec == Init /\ [][Next]_done
Inv == done => (FrameRoundTrip /\ ReplySwaps /\ HelloRoundTrip /\ ClaimMatrix /\ VerbsPrefixFree)
===============================================================================
