SPECIFICATION Spec
CONSTANTS WithUnhandled = TRUE
          MaxHello = 2
          MaxStray = 2
          MaxPolls = 12
INVARIANT NoStarvation
CHECK_DEADLOCK FALSE
