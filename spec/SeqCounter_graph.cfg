SPECIFICATION Spec
CONSTANTS NT = 1
          Atomic = TRUE
          MaxCalls = 0
VIEW View
CHECK_DEADLOCK FALSE
