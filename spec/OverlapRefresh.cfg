SPECIFICATION Spec
CONSTANTS Reqs = {"A", "B"}
          NSeg = 2
INVARIANT InstallIsOneChain
CHECK_DEADLOCK FALSE
