SPECIFICATION LSpec
CONSTANTS MaxEp = 3
          MaxSusp = 1
          MaxReset = 2
          MaxNet = 4
          MaxBg = 1
          HasId = TRUE
          KF_PumpDies = FALSE
          KF_LateComplete = FALSE
          KF_NotFound = TRUE
          Unreliable = FALSE
          AllowExit = FALSE
          MaxSockFail = 0
          MaxRF = 0
          KF_Overtake = TRUE
PROPERTY LHeals
PROPERTY RefinesLifecycle
CHECK_DEADLOCK FALSE
