SPECIFICATION Spec
CONSTANTS Callers = {"c1"}
          Verb <- VerbDef
          Gated = {}
          R = 1
          T = 2
          P = 1
          MaxStall = 0
          MaxLost = 0
          MaxLate = 0
          MaxJunk = 0
          WithU = TRUE
INVARIANT UNeverStealsFrame
CHECK_DEADLOCK FALSE
