SPECIFICATION Spec
CONSTANTS HookLast = TRUE
          GuardReady = TRUE
INVARIANT TypeOK
INVARIANT ConnectedMeansBuilt
INVARIANT NeverWiped
INVARIANT ReadyOnlyAfterCallback
INVARIANT CallbackOnlyWhenHooked
CHECK_DEADLOCK FALSE
