SPECIFICATION Spec
CONSTANTS NB = 3
          Vals = {0, 1}
          Variant = "async"
          ResetPolicy = "never"
          MaxSteps = 4
INVARIANT AppliedOnceInOrder
INVARIANT OneAckPerMessage
INVARIANT AckInProtocolRange
CHECK_DEADLOCK FALSE
