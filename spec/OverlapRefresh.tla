---------------------------- MODULE OverlapRefresh -----------------------------
(* Two refresh requests of the BLOCKING client in flight at once (outside C01's quantifier, which
   assumes delays shorter than the gap between distinct transfers; recorded as an observation).

   Code (driver/spastruct.py, GeckoStructure): retry_request(request) registers the request as a receive
   handler and RESETS the structure's single assembly state (next_expected = 0, segments = []); every
   STATV datagram goes to the first registered handler that accepts it - any status-block handler accepts
   any STATV - whose callback appends in-sequence segments to the shared list and installs the join when the
   final segment arrives; the list is cleared only by the next retry_request.  The ping thread calls
   refresh() every ping period, a user thread may call it at any time, and in the active configuration the
   ping period (2 s) is shorter than the protocol timeout (4 s).

   TLC refutes InstallIsOneChain: request A, request B, chain A delivered (installed), chain B delivered:
   the second install is A's segments followed by B's - the block grows.  c01 replays that schedule on the
   real structure and socket and records the outcome as evidence.                                       *)
EXTENDS Naturals, Sequences, FiniteSets, TLC

CONSTANTS Reqs,      \* request identities, e.g. {"A", "B"}
          NSeg       \* segments per answer chain

VARIABLES handlers,  \* registered status-block handlers, in registration order
          nexp, segs,\* the structure's single assembly state
          net,       \* segments in flight: [r, idx]
          installs,  \* what was installed, in order: each a sequence of [r, idx]
          started
vars == <<handlers, nexp, segs, net, installs, started>>

Chain(r) == { [r |-> r, idx |-> i] : i \in 0..(NSeg - 1) }
NextOf(i) == IF i = NSeg - 1 THEN 0 ELSE i + 1

Init == handlers = <<>> /\ nexp = 0 /\ segs = <<>> /\ net = {} /\ installs = <<>> /\ started = {}

\* retry_request: register, reset the shared assembly state, send (the spa answers with the whole chain)
Request(r) == /\ r \notin started /\ started' = started \cup {r}
              /\ handlers' = Append(handlers, r) /\ nexp' = 0 /\ segs' = <<>>
              /\ net' = net \cup Chain(r) /\ UNCHANGED installs

\* a segment arrives: the FIRST registered handler takes it, whichever request it answers
Deliver(m) ==
  /\ m \in net /\ handlers # <<>>
  /\ net' = net \ {m}
  /\ IF m.idx = nexp
     THEN LET sq == Append(segs, m) IN
          IF NextOf(m.idx) = 0
          THEN /\ installs' = Append(installs, sq) /\ segs' = sq /\ nexp' = 0
               /\ handlers' = Tail(handlers)                 \* the handler is done and removed
          ELSE /\ segs' = sq /\ nexp' = NextOf(m.idx) /\ UNCHANGED <<installs, handlers>>
     ELSE UNCHANGED <<installs, segs, nexp, handlers>>       \* out of sequence: ignored (a final one re-requests; not modelled)
  /\ UNCHANGED started

Next == (\E r \in Reqs : Request(r)) \/ (\E m \in net : Deliver(m))
Spec == Init /\ [][Next]_vars

\* every install is exactly one answer chain, in order
IsChain(sq) == /\ Len(sq) = NSeg
               /\ \A i \in 1..Len(sq) : sq[i].idx = i - 1 /\ sq[i].r = sq[1].r
InstallIsOneChain == \A k \in 1..Len(installs) : IsChain(installs[k])
===============================================================================
