------------------------------- MODULE TaskBook -------------------------------
(* Bookkeeping of background tasks (AsyncTasks in async_tasks.py), the mechanism behind
   "every background task belonging to an abandoned connection terminates" (C10).

   Code: add_task appends the new task to self._tasks; cancel_key_tasks(key) cancels the listed
   tasks whose name starts with key; gather() cancels and awaits all listed tasks; _tidy()
   periodically replaces the list by its not-yet-finished members.

   The list is only useful if every live task is on it.  In the code as written the tidy pass is
   one atomic step (no await between reading and replacing the list).  TidyAtomic = FALSE is the
   negative control: the pass reads the list, awaits, and then installs the stale remainder — a
   task added during the await is orphaned (never cancelled by a reset or by context exit).       *)
EXTENDS Naturals, Sequences, FiniteSets, TLC

CONSTANTS Ids, Keys, KeyOf, TidyAtomic

VARIABLES list, alive, finished, created, tidy, cancelled
\* tidy = <<>> (idle) or <<snapshot>> (the stale remainder the pass is about to install)
vars == <<list, alive, finished, created, tidy, cancelled>>

Init == list = <<>> /\ alive = {} /\ finished = {} /\ created = {} /\ tidy = <<>> /\ cancelled = {}

Add(t) == /\ t \notin created
          /\ list' = Append(list, t) /\ alive' = alive \cup {t} /\ created' = created \cup {t}
          /\ UNCHANGED <<finished, tidy, cancelled>>
Finish(t) == /\ t \in alive /\ alive' = alive \ {t} /\ finished' = finished \cup {t}
             /\ UNCHANGED <<list, created, tidy, cancelled>>
Keep(sq) == SelectSeq(sq, LAMBDA x : x \notin finished)
TidyStep ==
  IF TidyAtomic
  THEN /\ tidy = <<>> /\ list' = Keep(list) /\ UNCHANGED <<alive, finished, created, tidy, cancelled>>
  ELSE \/ /\ tidy = <<>> /\ \E i \in 1..Len(list) : list[i] \in finished      \* something to report: snapshot, then await
          /\ tidy' = <<Keep(list)>> /\ UNCHANGED <<list, alive, finished, created, cancelled>>
       \/ /\ tidy # <<>> /\ list' = tidy[1] /\ tidy' = <<>>                  \* resume: install the stale remainder
          /\ UNCHANGED <<alive, finished, created, cancelled>>
\* cancel_key_tasks: every LISTED task of the family is cancelled (it then finishes)
CancelKey(k) == LET hit == { list[i] : i \in { j \in 1..Len(list) : KeyOf[list[j]] = k } } \cap alive IN
                /\ alive' = alive \ hit /\ finished' = finished \cup hit /\ cancelled' = cancelled \cup {k}
                /\ UNCHANGED <<list, created, tidy>>
Next == (\E t \in Ids : Add(t) \/ Finish(t)) \/ TidyStep \/ (\E k \in Keys : CancelKey(k))
Spec == Init /\ [][Next]_vars

\* every live task is on the list ...
NoOrphan == \A t \in alive : \E i \in 1..Len(list) : list[i] = t
\* ... hence cancelling a family leaves none of its tasks (that existed at that moment) alive
CancelIsComplete == [][\A k \in Keys : (cancelled' # cancelled /\ k \in cancelled' \ cancelled)
                          => \A t \in alive' : KeyOf[t] # k]_vars
KeyDef == [t \in {"t1", "t2", "t3"} |-> IF t = "t3" THEN "B" ELSE "A"]
===============================================================================
