--------------------------- MODULE Lifecycle_Trace ----------------------------
(* Trace validation of real GeckoAsyncSpaMan executions (virtual loop, real simulator,
   fault-injecting network, user resets, suspended client handlers, context exit) against
   Lifecycle.  The log is the sequence of handle_event deliveries with the manager's state
   sampled at delivery, plus the harness's own actions:

     [k |-> "deliver", ev, by, ep, st, fac, spa, descr, sensor]
          ev: model event name; by: "PUMP"|"LOC"|"PING"|"BG"|"USER"|"MAIN"; ep: the spa epoch the
          delivering task belongs to (0 for PUMP / LOC / USER / MAIN)
     [k |-> "reset", phase |-> "start" | "return", setinfo]   harness calls async_reset (setinfo: through
                                                          async_set_spa_info with an identifier and a name)
     [k |-> "net", mode |-> "ok" | "bad"]                network phase change
     [k |-> "exit"]                                       the manager context is left
     [k |-> "susp"]                                       the client handler of the last delivery suspends
     [k |-> "sockfail"]                                   the loop refused to create an endpoint (OSError)

   Every frame step that is not a delivery (raise, reset head/tail, pump steps, ping and
   background outcomes, task ends) is silent and inferred by TLC; the depth-first queue keeps
   the search short.  The design invariants are evaluated on every state of the matched
   prefix.                                                                                *)
EXTENDS Lifecycle, TraceKit

VARIABLES tid, l
tvars == <<vars, tid, l>>
Log == Logs[tid]
Ev == Log.ev
E == Ev[l]
More == l <= Len(Ev)
Step == l' = l + 1 /\ UNCHANGED tid
Stay == UNCHANGED <<tid, l>>

TInit == TKInit /\ tid \in 1..NLogs /\ l = 1 /\ Init

TaskOf(e) == IF e.by \in {"PING", "BG"} THEN <<e.by, e.ep>> ELSE <<e.by, 0>>

MatchDeliver(t) ==
  /\ More /\ E.k = "deliver"
  /\ CanRun(t) /\ StepDeliver(t) /\ fresh' = TRUE
  /\ Head(todo[t]).ev = E.ev
  /\ (E.ev # "SPA_MAN_ENTER" /\ E.ev # "HAS_STATUS_SENSOR") => t = TaskOf(E)
  /\ E.st = st /\ E.fac = (facade # 0) /\ E.spa = (spa # 0) /\ E.descr = descr
  /\ E.sensor = (IF sensor = "absent" THEN "absent" ELSE Text(st))
  /\ Step

\* silent: any non-delivery step of any task
SilentTask(t) ==
  /\ CanRun(t)
  /\ (StepRaise(t) \/ StepResetHead(t) \/ StepResetTail(t) \/ StepPump(t) \/ StepPing(t) \/ StepBg(t) \/ StepGather(t))
  /\ nFail' = nFail                       \* a refused endpoint is a logged event, never inferred
  /\ fresh' = FALSE /\ Stay
Silent == (\E t \in Tasks : SilentTask(t) \/ (StepEnd(t) /\ Stay)) \/ (StepLoc /\ Stay)

TSusp == More /\ E.k = "susp" /\ (\E t \in Tasks : Suspend(t)) /\ Step
TResetStart == More /\ E.k = "reset" /\ E.phase = "start" /\ (IF E.setinfo THEN UserSetInfo ELSE UserReset) /\ Step
TResetReturn == /\ More /\ E.k = "reset" /\ E.phase = "return"
                /\ CanRun(USER) /\ StepUserReturn(USER) /\ fresh' = FALSE /\ Step
TNet == More /\ E.k = "net" /\ net # E.mode /\ NetChange /\ Step
TExit == More /\ E.k = "exit" /\ Exit /\ Step
TSockFail == /\ More /\ E.k = "sockfail" /\ CanRun(PUMP) /\ StepPump(PUMP) /\ nFail' = nFail + 1
             /\ fresh' = FALSE /\ Step
TEnd == More /\ E.k = "end" /\ (E.exited => exited) /\ UNCHANGED vars /\ Step

TNext == (\E t \in Tasks : MatchDeliver(t)) \/ Silent \/ TSusp \/ TResetStart \/ TResetReturn \/ TNet \/ TExit \/ TSockFail \/ TEnd
TSpec == TInit /\ [][TNext]_tvars

InvNames == << <<"ConnectedSound", ConnectedSound>>, <<"ReadyIffEnterConnected", ReadyIffEnterConnected>>,
               <<"TeardownBracket", TeardownBracket>>, <<"BracketsSane", BracketsSane>>,
               <<"SensorMirrorsState", SensorMirrorsState>>, <<"ResetLandsIdle", ResetLandsIdle>>,
               <<"NoTaskLeakAfterReset", NoTaskLeakAfterReset>>, <<"PumpAlive", PumpAlive>>,
               <<"BracketsClosedAtExit", BracketsClosedAtExit>>, <<"NoTaskAfterExit", NoTaskAfterExit>> >>
AllInv == \A i \in 1..Len(InvNames) : InvNames[i][2]
\* a log is accepted iff some behaviour of the specification matches all its events AND satisfies
\* every design invariant in every state: states that violate an invariant are not extended.
\* Reasons are diagnostic: invariants violated at the frontier, and whether the accepting
\* behaviour took a known-finding transition ("clean" if one without exists).
Track == /\ TKTrack(tid, l, l > Len(Ev) /\ AllInv)
         /\ \A i \in 1..Len(InvNames) : (~InvNames[i][2]) => TKWhy(tid, InvNames[i][1])
         /\ (l > Len(Ev) /\ AllInv) => TKWhy(tid, IF kf = {} THEN "clean" ELSE IF "Overtake" \in kf THEN "KF:Overtake" ELSE IF "LateComplete" \in kf THEN "KF:LateComplete" ELSE "KF:PumpDies")
         /\ AllInv
Report == TKReport
===============================================================================
