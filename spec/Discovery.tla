------------------------------- MODULE Discovery ------------------------------
(* One discovery run of GeckoAsyncLocator, and of the blocking GeckoLocator (C15).

   Code (async_locator.py): discover() opens an endpoint, starts the hello consumer task
   (udp_protocol_handler.consume: one datagram per wake-up) and the broadcast loop, then
   polls every Poll:   while age < Timeout:
                           if age > Initial and spas: break
                           if has_found_spa: break
                           sleep(Poll)
   and finally cancels the LOC tasks and closes the endpoint.  _async_on_discovered
   de-duplicates by identifier, applies the identifier filter, appends the descriptor,
   delivers LOCATING_DISCOVERED_SPA and sets has_found_spa when an address or identifier
   was requested.

   The blocking locator (locator.py: start_discovery(should_wait=True), replies handled by the
   socket's engine thread, broadcasts by a retry thread) has the same loop and the same
   de-duplication, but it does NOT apply the identifier filter to the list: every answering spa
   is listed and only the requested one sets has_found_spa (ListsAll = TRUE).

   Time is in abstract units (Poll = 1 for model checking, milliseconds in traces).  The
   consumer and the discover loop wake independently (nextC, nextD); replies arrive at
   any time, any number of times.                                                      *)
EXTENDS Naturals, Sequences, FiniteSets, TLC

CONSTANTS Spas,        \* identifiers that may answer
          Filter,      \* "none" | "addr" | an element of Spas \cup {"absent"} (identifier filter)
          Poll, Initial, Timeout,
          MaxArrivals,
          ListsAll     \* TRUE: the blocking locator (lists every answering spa whatever the identifier filter)

VARIABLES now, queue, seen, spas, found, nextC, nextD, phase, ret, arrivals, consumedAt, foundAt
\* consumedAt[s] = time at which the first reply of s was consumed (0 = not yet)
\* foundAt = time at which has_found_spa was set
vars == <<now, queue, seen, spas, found, nextC, nextD, phase, ret, arrivals, consumedAt, foundAt>>

Filtered == Filter # "none"
Wanted(s) == ListsAll \/ Filter \in {"none", "addr"} \/ Filter = s
\* a listed spa ends the search when an address was given or it is the requested one
Finds(s) == Filter = "addr" \/ Filter = s

Init == /\ now = 0 /\ queue = <<>> /\ seen = {} /\ spas = <<>> /\ found = FALSE
        /\ nextC = 0 /\ nextD = 0 /\ phase = "run" /\ ret = 0 /\ arrivals = 0
        /\ consumedAt = [s \in Spas |-> 0] /\ foundAt = 0

Arrive(s) == /\ phase = "run" /\ arrivals < MaxArrivals
             /\ queue' = Append(queue, s) /\ arrivals' = arrivals + 1
             /\ UNCHANGED <<now, seen, spas, found, nextC, nextD, phase, ret, consumedAt, foundAt>>

\* one wake-up of the hello consumer
Consume ==
  /\ phase = "run" /\ nextC = now
  /\ nextC' = now + Poll
  /\ IF queue = <<>> THEN UNCHANGED <<queue, seen, spas, found, consumedAt, foundAt>>
     ELSE LET s == Head(queue) IN
          /\ queue' = Tail(queue)
          /\ IF s \in seen \/ ~Wanted(s)
             THEN UNCHANGED <<seen, spas, found, consumedAt, foundAt>>
             ELSE /\ seen' = seen \cup {s} /\ spas' = Append(spas, s)
                  /\ found' = (found \/ Finds(s))
                  /\ foundAt' = IF ~found /\ Finds(s) THEN now ELSE foundAt
                  /\ consumedAt' = [consumedAt EXCEPT ![s] = now]
  /\ UNCHANGED <<now, nextD, phase, ret, arrivals>>

\* one wake-up of the discover loop
Check ==
  /\ phase = "run" /\ nextD = now
  /\ IF now >= Timeout \/ (now > Initial /\ spas # <<>>) \/ found
     THEN phase' = "done" /\ ret' = now /\ UNCHANGED nextD
     ELSE nextD' = now + Poll /\ UNCHANGED <<phase, ret>>
  /\ UNCHANGED <<now, queue, seen, spas, found, nextC, arrivals, consumedAt, foundAt>>

Advance == /\ phase = "run" /\ nextC > now /\ nextD > now
           /\ now' = now + 1
           /\ UNCHANGED <<queue, seen, spas, found, nextC, nextD, phase, ret, arrivals, consumedAt, foundAt>>

Next == (\E s \in Spas : Arrive(s)) \/ Consume \/ Check \/ Advance
Spec == Init /\ [][Next]_vars

\* ---------------------------------------------------------------- properties
ToSet(sq) == { sq[i] : i \in 1..Len(sq) }
NoDuplicates == \A i, j \in 1..Len(spas) : spas[i] = spas[j] => i = j
OnlyRequested == (Filter \in Spas \cup {"absent"}) => ToSet(spas) \subseteq {Filter}
WithinTimeout == phase = "done" => ret <= Timeout + Poll
\* returns as soon as the requested spa has answered: at the first check after consumption
PromptWhenFiltered ==
  (phase = "done" /\ Filtered /\ spas # <<>>) => ret <= consumedAt[spas[1]] + Poll
PromptWhenFound == (phase = "done" /\ found) => ret <= foundAt + Poll
\* otherwise after the initial wait once any spa has answered
PromptWhenAny ==
  (phase = "done" /\ ~found /\ spas # <<>>) =>
     LET t1 == consumedAt[spas[1]]  base == IF t1 > Initial THEN t1 ELSE Initial IN ret <= base + Poll + 1
NotEarly ==
  (phase = "done" /\ ~found) => (ret > Initial \/ ret >= Timeout)
===============================================================================
