------------------------------- MODULE Discovery ------------------------------
(* One discovery run of GeckoAsyncLocator (C15).

   Code (async_locator.py): discover() opens an endpoint, starts the hello consumer task
   (udp_protocol_handler.consume: one datagram per wake-up) and the broadcast loop, then
   polls every Poll:   while age < Timeout:
                           if age > Initial and spas: break
                           if has_found_spa: break
                           sleep(Poll)
   and finally cancels the LOC tasks and closes the endpoint.  _async_on_discovered
   de-duplicates by identifier, applies the identifier filter, appends the descriptor,
   delivers LOCATING_DISCOVERED_SPA and sets has_found_spa when an address or identifier
   was requested.

   Time is in abstract units (Poll = 1 for model checking, milliseconds in traces).  The
   consumer and the discover loop wake independently (nextC, nextD); replies arrive at
   any time, any number of times.                                                      *)
EXTENDS Naturals, Sequences, FiniteSets, TLC

CONSTANTS Spas,        \* identifiers that may answer
          Filter,      \* "none" | "addr" | an element of Spas \cup {"absent"} (identifier filter)
          Poll, Initial, Timeout,
          MaxArrivals

VARIABLES now, queue, seen, spas, found, nextC, nextD, phase, ret, arrivals, consumedAt
\* consumedAt[s] = time at which the first reply of s was consumed (0 = not yet)
vars == <<now, queue, seen, spas, found, nextC, nextD, phase, ret, arrivals, consumedAt>>

Filtered == Filter # "none"
Wanted(s) == Filter \in {"none", "addr"} \/ Filter = s

Init == /\ now = 0 /\ queue = <<>> /\ seen = {} /\ spas = <<>> /\ found = FALSE
        /\ nextC = 0 /\ nextD = 0 /\ phase = "run" /\ ret = 0 /\ arrivals = 0
        /\ consumedAt = [s \in Spas |-> 0]

Arrive(s) == /\ phase = "run" /\ arrivals < MaxArrivals
             /\ queue' = Append(queue, s) /\ arrivals' = arrivals + 1
             /\ UNCHANGED <<now, seen, spas, found, nextC, nextD, phase, ret, consumedAt>>

\* one wake-up of the hello consumer
Consume ==
  /\ phase = "run" /\ nextC = now
  /\ nextC' = now + Poll
  /\ IF queue = <<>> THEN UNCHANGED <<queue, seen, spas, found, consumedAt>>
     ELSE LET s == Head(queue) IN
          /\ queue' = Tail(queue)
          /\ IF s \in seen \/ ~Wanted(s)
             THEN UNCHANGED <<seen, spas, found, consumedAt>>
             ELSE /\ seen' = seen \cup {s} /\ spas' = Append(spas, s)
                  /\ found' = (found \/ Filtered)
                  /\ consumedAt' = [consumedAt EXCEPT ![s] = now]
  /\ UNCHANGED <<now, nextD, phase, ret, arrivals>>

\* one wake-up of the discover loop
Check ==
  /\ phase = "run" /\ nextD = now
  /\ IF now >= Timeout \/ (now > Initial /\ spas # <<>>) \/ found
     THEN phase' = "done" /\ ret' = now /\ UNCHANGED nextD
     ELSE nextD' = now + Poll /\ UNCHANGED <<phase, ret>>
  /\ UNCHANGED <<now, queue, seen, spas, found, nextC, arrivals, consumedAt>>

Advance == /\ phase = "run" /\ nextC > now /\ nextD > now
           /\ now' = now + 1
           /\ UNCHANGED <<queue, seen, spas, found, nextC, nextD, phase, ret, arrivals, consumedAt>>

Next == (\E s \in Spas : Arrive(s)) \/ Consume \/ Check \/ Advance
Spec == Init /\ [][Next]_vars

\* ---------------------------------------------------------------- properties
ToSet(sq) == { sq[i] : i \in 1..Len(sq) }
NoDuplicates == \A i, j \in 1..Len(spas) : spas[i] = spas[j] => i = j
OnlyRequested == (Filter \in Spas \cup {"absent"}) => ToSet(spas) \subseteq {Filter}
WithinTimeout == phase = "done" => ret <= Timeout + Poll
\* returns as soon as the requested spa has answered: at the first check after consumption
PromptWhenFiltered ==
  (phase = "done" /\ Filtered /\ spas # <<>>) => ret <= consumedAt[spas[1]] + Poll
\* otherwise after the initial wait once any spa has answered
PromptWhenAny ==
  (phase = "done" /\ ~Filtered /\ spas # <<>>) =>
     LET t1 == consumedAt[spas[1]]  base == IF t1 > Initial THEN t1 ELSE Initial IN ret <= base + Poll + 1
NotEarly ==
  (phase = "done" /\ ~Filtered) => (ret > Initial \/ ret >= Timeout)
===============================================================================
