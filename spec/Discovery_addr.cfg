SPECIFICATION Spec
CONSTANTS Spas = {"a", "b", "c"}
          Filter = "addr"
          Poll = 1
          Initial = 3
          Timeout = 6
          MaxArrivals = 4
          ListsAll = FALSE
INVARIANT NoDuplicates
INVARIANT OnlyRequested
INVARIANT WithinTimeout
INVARIANT PromptWhenFiltered
INVARIANT PromptWhenFound
INVARIANT PromptWhenAny
INVARIANT NotEarly
CHECK_DEADLOCK FALSE
