---------------------------- MODULE StatusTransfer ----------------------------
(* Status-block transfer (C01): one client request for [start, start+len) of the spa's
   block, the bundled simulator's segment chain, a faulty network, and the client's
   assembly loop — both the asyncio variant and the threaded variant.

   Code:
     async  : GeckoAsyncStructure.get            (driver/async_spastruct.py)
     sync   : GeckoStructure.retry_request /
              _on_status_block_received          (driver/spastruct.py) + handler.loop/retry
     spa    : GeckoSimulator._on_status_block    (utils/simulator.py)
     wire   : GeckoStatusBlockProtocolHandler    (driver/protocol/statusblock.py)

   Bytes are opaque: a client byte is "old" (its value before the transfer), "spa" (the
   spa's value for that very position) or "junk" (anything else, e.g. the spa's value of a
   different position).  Every installed byte carries its source offset so that a
   mis-assembled join is visible as junk.                                             *)
EXTENDS Naturals, Sequences, FiniteSets, TLC, Json

CONSTANTS N,          \* block length
          S,          \* simulator segment size
          R,          \* configured retry count
          MaxFaults,  \* budget of Drop + Dup faults
          Variant,    \* "async" | "sync"
          ChainFixed, \* TRUE: chain terminator computed from the segment count (after fix D3)
          FaultFree   \* TRUE: FIFO delivery, timeouts only when nothing is in flight

VARIABLES req,     \* [start, len]
          cli,     \* [0..N-1 -> {"old","spa","junk"}]
          grown,   \* block length changed by an install (must never happen)
          pc,      \* "send" | "wait" | "done"
          tries,   \* async: attempts left; sync: retransmissions left
          nexp,    \* next expected segment index
          segs,    \* accepted segments of the current assembly: Seq([off, len])
          net,     \* bag: message -> copies in flight
          sent,    \* STATU datagrams transmitted
          result,  \* "none" | "ok" | "fail"
          faults,
          act      \* the action that produced this state (history; hidden by VIEW)

core == <<req, cli, grown, pc, tries, nexp, segs, net, sent, result, faults>>
vars == <<core, act>>
View == core
Pos == 0..(N - 1)

\* ------------------------------------------------------------ simulator chain
NSegCode(len) == IF len % S = 0 THEN len \div S ELSE (len \div S) + 1   \* = |range(start, start+len, S)|
SegOf(st, len, k) ==
  LET off == st + k * S IN
  [t    |-> "V", idx |-> k, off |-> off,
   len  |-> IF N - off < S THEN N - off ELSE S,
   next |-> IF ChainFixed THEN (IF k + 1 = NSegCode(len) THEN 0 ELSE k + 1)
            ELSE (k + 1) % ((len \div S) + 1)]        \* code as pinned: never 0 when len % S = 0
Chain(st, len) == { SegOf(st, len, k) : k \in 0..(NSegCode(len) - 1) }
U == [t |-> "U"]
Msgs(r) == {U} \cup Chain(r.start, r.len)

Reqs == { [start |-> s, len |-> l] : s \in Pos, l \in 1..N }
ValidReqs == { r \in Reqs : r.start + r.len <= N }

\* ------------------------------------------------------------ helpers
Put(m) == [net EXCEPT ![m] = @ + 1]
Take(m) == [net EXCEPT ![m] = @ - 1]
InFlight == { m \in DOMAIN net : net[m] > 0 }
MaxRetx == IF Variant = "async" THEN R ELSE R + 1

Cum(sq, i) == LET F[j \in 0..Len(sq)] == IF j = 0 THEN 0 ELSE F[j-1] + sq[j].len IN F[i]
TotalLen(sq) == Cum(sq, Len(sq))
Src(sq, j) == LET i == CHOOSE i \in 1..Len(sq) : Cum(sq, i-1) <= j /\ j < Cum(sq, i)
              IN sq[i].off + (j - Cum(sq, i-1))

\* replace_status_block_segment(req.start, b"".join(segments))
Install(sq) ==
  LET tot == TotalLen(sq) IN
  /\ cli' = [p \in Pos |->
               IF p >= req.start /\ p < req.start + tot
               THEN (IF Src(sq, p - req.start) = p THEN "spa" ELSE "junk")
               ELSE cli[p]]
  /\ grown' = (grown \/ req.start + tot > N)

\* ------------------------------------------------------------ initial state
Init == /\ req \in ValidReqs
        /\ cli = [p \in Pos |-> "old"]
        /\ grown = FALSE
        /\ pc = "send"
        /\ tries = R
        /\ nexp = 0 /\ segs = <<>>
        /\ net = [m \in Msgs(req) |-> 0]
        /\ sent = 0 /\ result = "none" /\ faults = 0
        /\ act = [a |-> "Init", m |-> U]

\* ------------------------------------------------------------ client
\* async: top of the retry loop;  sync: retry_request (first transmission)
ClientSend ==
  /\ pc = "send"
  /\ net' = Put(U) /\ sent' = sent + 1
  /\ nexp' = 0 /\ segs' = <<>>
  /\ pc' = "wait"
  /\ UNCHANGED <<req, cli, grown, tries, result, faults>>

\* async: one attempt is over (timeout or out-of-sequence final segment)
AsyncAttemptOver ==
  /\ tries' = tries - 1
  /\ IF tries - 1 > 0 THEN pc' = "send" /\ result' = result
                      ELSE pc' = "done" /\ result' = "fail"

\* sync: final segment out of sequence: reset the assembly, then handler.retry(socket);
\* when the retry budget is spent the code raises RuntimeError, which the engine swallows:
\* the handler stays registered (and can still assemble a later complete chain) until it
\* times out.
SyncOutOfSeqFinal(m) ==
  /\ nexp' = 0 /\ segs' = <<>>
  /\ IF tries > 0
     THEN /\ tries' = tries - 1 /\ sent' = sent + 1
          /\ net' = [Take(m) EXCEPT ![U] = @ + 1]
     ELSE /\ net' = Take(m) /\ UNCHANGED <<tries, sent>>
  /\ UNCHANGED <<pc, result>>

\* sync: handler.loop -> has_timedout -> retry: retransmit WITHOUT resetting the assembly,
\* or on_retry_failed -> handler removed
SyncTimeout ==
  IF tries > 0
  THEN /\ tries' = tries - 1 /\ sent' = sent + 1 /\ net' = Put(U)
       /\ UNCHANGED <<pc, result, nexp, segs>>
  ELSE /\ pc' = "done" /\ result' = "fail"
       /\ UNCHANGED <<tries, sent, nexp, segs, net>>

Deliver(m) ==
  /\ pc = "wait" /\ m.t = "V" /\ net[m] > 0
  /\ FaultFree => \A o \in InFlight : o.t = "V" => o.idx >= m.idx
  /\ UNCHANGED <<req, faults>>
  /\ IF m.idx = nexp
     THEN \* in sequence: accept
          LET sq == Append(segs, [off |-> m.off, len |-> m.len]) IN
          IF m.next = 0
          THEN /\ Install(sq) /\ result' = "ok" /\ pc' = "done"
               /\ segs' = sq /\ nexp' = 0 /\ net' = Take(m)
               /\ UNCHANGED <<tries, sent>>
          ELSE /\ segs' = sq /\ nexp' = m.next /\ net' = Take(m)
               /\ UNCHANGED <<cli, grown, pc, tries, sent, result>>
     ELSE \* out of sequence
          IF m.next = 0
          THEN \* final segment out of sequence: abandon this assembly
               IF Variant = "async"
               THEN /\ AsyncAttemptOver /\ net' = Take(m)
                    /\ UNCHANGED <<cli, grown, nexp, segs, sent>>
               ELSE /\ SyncOutOfSeqFinal(m)
                    /\ UNCHANGED <<cli, grown>>
          ELSE /\ net' = Take(m)
               /\ UNCHANGED <<cli, grown, pc, tries, nexp, segs, sent, result>>

\* a segment (a duplicate, a straggler of an abandoned attempt) that arrives after the transfer has
\* returned: the request is finished, nothing may change any more and nothing is sent
LateDeliver(m) ==
  /\ pc = "done" /\ m.t = "V" /\ net[m] > 0
  /\ net' = Take(m)
  /\ UNCHANGED <<req, cli, grown, pc, tries, nexp, segs, sent, result, faults>>

\* no (acceptable) segment arrived within the protocol timeout
Timeout ==
  /\ pc = "wait"
  /\ FaultFree => InFlight = {}
  /\ UNCHANGED <<req, cli, grown, faults>>
  /\ IF Variant = "async"
     THEN /\ AsyncAttemptOver /\ UNCHANGED <<nexp, segs, sent, net>>
     ELSE SyncTimeout

\* ------------------------------------------------------------ spa and network
SpaServe ==
  /\ net[U] > 0
  /\ net' = [m \in DOMAIN net |->
               IF m = U THEN net[m] - 1
               ELSE net[m] + 1]                     \* every segment of the chain, once
  /\ UNCHANGED <<req, cli, grown, pc, tries, nexp, segs, sent, result, faults>>

Drop(m) == /\ faults < MaxFaults /\ net[m] > 0
           /\ net' = Take(m) /\ faults' = faults + 1
           /\ UNCHANGED <<req, cli, grown, pc, tries, nexp, segs, sent, result>>
Dup(m) ==  /\ faults < MaxFaults /\ net[m] > 0
           /\ net' = Put(m) /\ faults' = faults + 1
           /\ UNCHANGED <<req, cli, grown, pc, tries, nexp, segs, sent, result>>

A(name, m) == act' = [a |-> name, m |-> m]
Next == \/ (ClientSend /\ A("ClientSend", U))
        \/ (Timeout /\ A("Timeout", U))
        \/ (SpaServe /\ A("SpaServe", U))
        \/ \E m \in DOMAIN net : \/ (Deliver(m) /\ A("Deliver", m))
                                  \/ (LateDeliver(m) /\ A("LateDeliver", m))
                                  \/ (Drop(m) /\ A("Drop", m))
                                  \/ (Dup(m) /\ A("Dup", m))

Spec == Init /\ [][Next]_vars
FairSpec == Spec /\ WF_vars(Next)

\* ------------------------------------------------------------ properties
Requested == { p \in Pos : p >= req.start /\ p < req.start + req.len }
NoPartialInstall == result # "ok" => (\A p \in Pos : cli[p] = "old") /\ ~grown
OkMeansSpaBytes  == result = "ok" =>
                      /\ \A p \in Requested : cli[p] = "spa"
                      /\ \A p \in Pos : cli[p] \in {"old", "spa"}
                      /\ ~grown
SentBound == sent <= MaxRetx
DoneIsFinal == [][pc = "done" => UNCHANGED <<cli, result, sent>>]_vars
\* fault-free liveness: every (start, len) inside the block succeeds
Succeeds == <>(result = "ok")
NeverFails == result # "fail"

\* ------------------------------------------------------------ transition emitter
Proj(c, g, p, t, n, sn, r, f, rq, ne, sg) ==
  [cli |-> [i \in 1..N |-> c[i-1]], grown |-> g, pc |-> p, tries |-> t, nexp |-> ne, segs |-> sg,
   net |-> { <<m, n[m]>> : m \in {x \in DOMAIN n : n[x] > 0} },
   sent |-> sn, result |-> r, faults |-> f, req |-> rq]
Emit == PrintT(<<"GVT", ToJson([from |-> Proj(cli, grown, pc, tries, net, sent, result, faults, req, nexp, segs),
                                 act  |-> act',
                                 to   |-> Proj(cli', grown', pc', tries', net', sent', result', faults', req', nexp', segs')])>>)

\* bound the bag for exhaustive runs
BoundNet == \A m \in DOMAIN net : net[m] <= 2
===============================================================================
