------------------------------- MODULE C10_Judge ------------------------------
(* Judges resource accounting around resets and context exit of real manager runs (C10).
   kinds:
     "reset"  point (ms), within (ms after the reset returned at which the snapshot was taken),
              endpoints_open  = endpoints of abandoned connections / discoveries still open,
              tasks_alive     = LOC / SPA / FACADE tasks created before the reset still running
     "exit"   point, returned, endpoints_open, tasks_alive   after leaving the manager context (returned: __aexit__
                                                              came back within 900 virtual seconds)
     "late"   observer_calls, events_delivered            caused by datagrams / timers of abandoned
              connections after the reset returned (must be 0)
     "steady" extra_tasks (LOC / SPA / FACADE task names alive more than once), extra_endpoints (open endpoints
              beyond one per kind) once everything has settled: they belong to an abandoned connection
     "cycles" n, max_endpoints, max_tasks, bound_endpoints, bound_tasks
     "book"   probes, n_orphans (live probe tasks, added at every loop iteration across several tidy
              passes, that are missing from the task manager's list), alive_after_cancel (TaskBook.tla)   *)
EXTENDS Integers, Sequences, TLC, Json, IOUtils
Recs == ndJsonDeserialize(IOEnv.GV_RECS)
Verdict(r) ==
  CASE r.kind = "reset" -> IF Len(r.endpoints_open) > 0 THEN "endpoint-of-abandoned-connection-left-open"
                           ELSE IF Len(r.tasks_alive) > 0 THEN "task-of-abandoned-connection-still-alive" ELSE "ok"
    [] r.kind = "exit" -> IF ~r.returned THEN "context-exit-does-not-return"
                          ELSE IF Len(r.tasks_alive) > 0 THEN "task-alive-after-exit"
                          ELSE IF Len(r.endpoints_open) > 0 THEN "endpoint-open-after-exit" ELSE "ok"
    [] r.kind = "late" -> IF r.observer_calls > 0 \/ r.events_delivered > 0 THEN "late-effect-of-abandoned-connection" ELSE "ok"
    [] r.kind = "steady" -> IF Len(r.extra_tasks) > 0 THEN "task-of-abandoned-connection-still-alive"
                            ELSE IF r.extra_endpoints > 0 THEN "endpoint-of-abandoned-connection-left-open" ELSE "ok"
    [] r.kind = "cycles" -> IF r.max_endpoints > r.bound_endpoints \/ r.max_tasks > r.bound_tasks THEN "resources-grow-with-reconnect-cycles" ELSE "ok"
    [] r.kind = "book" -> IF r.n_orphans > 0 THEN "live-task-missing-from-the-task-list"
                          ELSE IF r.alive_after_cancel > 0 THEN "cancelled-family-still-has-live-tasks" ELSE "ok"
    [] OTHER -> "unknown-kind"
Bad == { <<k, Verdict(Recs[k])>> : k \in { k \in 1..Len(Recs) : Verdict(Recs[k]) # "ok" } }
ASSUME PrintT(<<"GVBAD", Bad, Len(Recs)>>)
===============================================================================
