------------------------------ MODULE SnapshotLog -----------------------------
(* The line-driven automaton of GeckoSnapshot.parse_log_file (C19) over abstract line
   classes, and the line sequence the shell's snapshot command writes.

   Code: utils/snapshot.py parse_log_file / GeckoSnapshot.parse, utils/shell.py
   do_snapshot + version_strings.

   Line classes:
     [c |-> "H", name]            "... INFO Snapshot (<name>)"         starts a snapshot
     [c |-> "F", k, v]            an INFO line setting field k (en, co, pack, cfg, log, data)
     [c |-> "X"]                  any other INFO line
     [c |-> "N"]                  a line without "INFO"                terminates a snapshot
     [c |-> "CS"]                 "Starting spa connection handshake..." starts a connection
     [c |-> "CF", k, v]           a connection-mode line setting field k (sw, cfglog)
     [c |-> "SG", v, last]        a logged STATV datagram carrying segment v (last: next = 0)
   Values are opaque tokens.  A snapshot under construction is a record of fields;
   "data" of a connection is the join of its segments once the last one has been seen.  *)
EXTENDS Naturals, Sequences, FiniteSets, TLC

Empty == [name |-> "", en |-> 0, co |-> 0, pack |-> 0, cfg |-> 0, log |-> 0, data |-> <<>>, segs |-> <<>>]
NoneS == [name |-> "-none-", en |-> 0, co |-> 0, pack |-> 0, cfg |-> 0, log |-> 0, data |-> <<>>, segs |-> <<>>]
IsInfo(ln) == ln.c \in {"H", "F", "X", "CS", "CF", "SG"}     \* the debug/info lines of a log file all carry a level; only "N" lacks INFO

\* GeckoSnapshot.parse: every matching regex fires
Feed(s, ln) ==
  IF ln.c = "H" THEN [s EXCEPT !.name = ln.name]
  ELSE IF ln.c = "F" THEN
       (CASE ln.k = "en" -> [s EXCEPT !.en = ln.v] [] ln.k = "co" -> [s EXCEPT !.co = ln.v]
          [] ln.k = "pack" -> [s EXCEPT !.pack = ln.v] [] ln.k = "cfg" -> [s EXCEPT !.cfg = ln.v]
          [] ln.k = "log" -> [s EXCEPT !.log = ln.v] [] ln.k = "data" -> [s EXCEPT !.data = <<ln.v>>])
  ELSE IF ln.c = "CF" THEN
       (CASE ln.k = "sw" -> [s EXCEPT !.en = ln.v, !.co = ln.v]
          [] ln.k = "cfglog" -> [s EXCEPT !.cfg = ln.v, !.log = ln.v]
          [] ln.k = "pack" -> [s EXCEPT !.pack = ln.v])
  ELSE IF ln.c = "SG" THEN
       LET sg == Append(s.segs, ln.v) IN
       IF ln.last THEN [s EXCEPT !.segs = sg, !.data = sg] ELSE [s EXCEPT !.segs = sg]
  ELSE s

\* one line of parse_log_file: state = [snap, conn, out]
StepLine(st, ln) ==
  LET snap1 == IF ln.c = "H" THEN Empty ELSE st.snap            \* "Snapshot" in line: fresh object
      afterSnap == IF snap1 = NoneS THEN [snap |-> NoneS, out |-> st.out]
                   ELSE IF ln.c # "N" THEN [snap |-> Feed(snap1, ln), out |-> st.out]
                   ELSE [snap |-> NoneS, out |-> Append(st.out, snap1)]
      conn1 == IF ln.c = "CS" THEN [Empty EXCEPT !.name = "Connection found"] ELSE st.conn
      conn2 == IF conn1 = NoneS THEN NoneS ELSE Feed(conn1, ln)
  IN [snap |-> afterSnap.snap, conn |-> conn2, out |-> afterSnap.out]

ParseLines(lines) ==
  LET F[i \in 0..Len(lines)] == IF i = 0 THEN [snap |-> NoneS, conn |-> NoneS, out |-> <<>>] ELSE StepLine(F[i-1], lines[i])
      fin == F[Len(lines)]
      o1 == IF fin.snap # NoneS THEN Append(fin.out, fin.snap) ELSE fin.out
  IN IF fin.conn # NoneS THEN Append(o1, fin.conn) ELSE o1

\* what do_snapshot writes for (name, fields)
WriterBlock(n, f) == << [c |-> "H", name |-> n], [c |-> "X"], [c |-> "X"],
                        [c |-> "F", k |-> "en", v |-> f.en], [c |-> "F", k |-> "co", v |-> f.co],
                        [c |-> "F", k |-> "pack", v |-> f.pack], [c |-> "X"],
                        [c |-> "F", k |-> "cfg", v |-> f.cfg], [c |-> "F", k |-> "log", v |-> f.log], [c |-> "X"],
                        [c |-> "F", k |-> "data", v |-> f.data] >>
Expect(n, f) == [name |-> n, en |-> f.en, co |-> f.co, pack |-> f.pack, cfg |-> f.cfg, log |-> f.log, data |-> <<f.data>>, segs |-> <<>>]
===============================================================================
