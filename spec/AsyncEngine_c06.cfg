SPECIFICATION Spec
CONSTANTS Callers = {"c1", "c2"}
          Verb <- VerbDef
          Gated = {}
          R = 2
          T = 2
          P = 1
          MaxStall = 0
          MaxLost = 1
          MaxLate = 1
          MaxJunk = 0
          WithU = TRUE
INVARIANT MutualExclusion
INVARIANT HolderIsTheBusyOne
INVARIANT AttemptsBounded
INVARIANT ReplyOnlyIfDelivered
INVARIANT FailOnlyAfterAllAttempts
INVARIANT CallBound
INVARIANT CapablePopper
INVARIANT UnhandledOnlyMarked
CHECK_DEADLOCK FALSE
