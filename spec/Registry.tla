------------------------------- MODULE Registry --------------------------------
(* The receive-handler registry of the blocking socket under real threads (C20).

   Code (driver/udp_socket.py): add_receive_handler / remove_receive_handler take self._lock;
   the engine thread's _cleanup_handlers has TWO critical sections:
       with lock:  remove = [h in handlers if h.should_remove_handler]      (CleanupA)
       with lock:  handlers = [h in handlers if h not in remove]            (CleanupB)
   Other threads (a user thread calling press(), the ping thread calling refresh()) register
   handlers at any time, in particular BETWEEN the two sections.  Because the second section
   filters the CURRENT list, such a registration survives.  The control variant writes back a
   list computed from the copy taken in the first section (SweepFromCopy = TRUE): TLC refutes
   NoLostRegistration for it.

   dispatch (_process_received_data) also runs on the engine thread: a handler whose can_handle
   raises must not end the engine (the exception is caught at the top of the receive step):
   EngineAlive.                                                                           *)
EXTENDS Naturals, Sequences, FiniteSets, TLC, Json

CONSTANTS H,              \* handler identities
          MaxSteps,
          SweepFromCopy   \* control: CleanupB writes back a filtered COPY taken in CleanupA

VARIABLES regs,           \* the registry, in registration order
          added,          \* handlers ever registered
          removable,      \* handlers whose should_remove_handler is true
          pc,             \* engine thread: "idle" | "mid" (between the two critical sections)
          toRemove, copy, \* what CleanupA computed
          steps, act
vars == <<regs, added, removable, pc, toRemove, copy, steps, act>>

Init == /\ regs = <<>> /\ added = {} /\ removable = {} /\ pc = "idle" /\ toRemove = {} /\ copy = <<>>
        /\ steps = 0 /\ act = [a |-> "Init", h |-> ""]

ToSet(sq) == { sq[i] : i \in 1..Len(sq) }
Filter(sq, S) == SelectSeq(sq, LAMBDA x : x \notin S)

\* another thread registers a handler (atomic: it takes the lock)
Add(h) == /\ steps < MaxSteps /\ h \notin added
          /\ regs' = Append(regs, h) /\ added' = added \cup {h}
          /\ act' = [a |-> "Add", h |-> h] /\ steps' = steps + 1
          /\ UNCHANGED <<removable, pc, toRemove, copy>>
\* a registered handler finishes (answered / retries exhausted): it asks to be removed
Finish(h) == /\ steps < MaxSteps /\ h \in ToSet(regs) /\ h \notin removable
             /\ removable' = removable \cup {h}
             /\ act' = [a |-> "Finish", h |-> h] /\ steps' = steps + 1
             /\ UNCHANGED <<regs, added, pc, toRemove, copy>>
CleanupA == /\ steps < MaxSteps /\ pc = "idle"
            /\ toRemove' = { h \in ToSet(regs) : h \in removable } /\ copy' = regs /\ pc' = "mid"
            /\ act' = [a |-> "CleanupA", h |-> ""] /\ steps' = steps + 1
            /\ UNCHANGED <<regs, added, removable>>
CleanupB == /\ pc = "mid"
            /\ regs' = IF SweepFromCopy THEN Filter(copy, toRemove) ELSE Filter(regs, toRemove)
            /\ pc' = "idle"
            /\ act' = [a |-> "CleanupB", h |-> ""] /\ steps' = steps + 1
            /\ UNCHANGED <<added, removable, toRemove, copy>>

Next == (\E h \in H : Add(h) \/ Finish(h)) \/ CleanupA \/ CleanupB
Spec == Init /\ [][Next]_vars

\* ---------------------------------------------------------------- properties
\* a registered handler leaves the registry only by asking for it
NoLostRegistration == \A h \in added : (h \in ToSet(regs)) \/ (h \in removable)
\* after a complete cleanup pass nothing that asked for removal before the pass is left
RemovedWhenDone == (pc = "idle" /\ act.a = "CleanupB") => (ToSet(regs) \cap toRemove = {})
NoDuplicates == \A i, j \in 1..Len(regs) : regs[i] = regs[j] => i = j

\* ---------------------------------------------------------------- emitter (behaviours for the replay)
Proj == [regs |-> regs, pc |-> pc]
ProjN == [regs |-> regs', pc |-> pc']
Emit == PrintT(<<"GVT", ToJson([from |-> Proj, act |-> act', to |-> ProjN, lvl |-> TLCGet("level")])>>)
View == <<regs, added, removable, pc, toRemove, copy, steps>>
===============================================================================
