SPECIFICATION Spec
CONSTANTS HookLast = TRUE
          GuardReady = TRUE
INVARIANT CallbackNeverSkipped
CHECK_DEADLOCK FALSE
