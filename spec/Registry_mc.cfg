SPECIFICATION Spec
CONSTANTS H = {"h1", "h2", "h3"}
          MaxSteps = 9
          SweepFromCopy = FALSE
INVARIANT NoLostRegistration
INVARIANT RemovedWhenDone
INVARIANT NoDuplicates
VIEW View
CHECK_DEADLOCK FALSE
