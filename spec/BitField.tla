------------------------------- MODULE BitField -------------------------------
(* Pack-table items as bit fields of a 1- or 2-byte big-endian word (C02, C03, C14, C18).

   Code: GeckoStructAccessor (driver/accessor.py): __init__ derives (length, format,
   bitmask) from (type, size, bitpos, maxitems); _get_raw_value / _get_value read;
   _set_value and async_set_value (a duplicated code path) compose the device write
   (pos, length, word) handed to structure.set_value / async_set_value.
   GeckoTempStructAccessor converts raw words to degrees.

   A shape is [type, len, bitpos, mask, nitems, rw]:
     type   "Byte" | "Word" | "Bool" | "Enum" | "Time" | "Temp"
     len    1 | 2                       bytes of the field
     bitpos -1 (whole field) or the bit position of the sub-field inside the word
     mask   1 | 3 | 7 | 15 (sub-fields)   -1 when bitpos = -1
     nitems number of enum labels (0 otherwise)
     rw     "none" | "ALL" | ...        write permission                              *)
EXTENDS Naturals, Integers, Sequences, FiniteSets, TLC

Pow2(n) == 2 ^ n
FieldMax(len) == IF len = 1 THEN 255 ELSE 65535

\* the mask the accessor derives (bitmask = 1 when a bit position is given, widened by MaxItems)
MaskOf(bitposGiven, maxitems) ==
  IF maxitems > 8 THEN 15 ELSE IF maxitems > 4 THEN 7 ELSE IF maxitems > 2 THEN 3
  ELSE IF bitposGiven THEN 1 ELSE -1

IsSub(s) == s.bitpos >= 0
Width(s) == IF s.mask = 1 THEN 1 ELSE IF s.mask = 3 THEN 2 ELSE IF s.mask = 7 THEN 3 ELSE 4
FieldBits(s) == IF IsSub(s) THEN s.mask * Pow2(s.bitpos) ELSE FieldMax(s.len)

\* _get_raw_value
Read(w, s) == IF IsSub(s) THEN (w \div Pow2(s.bitpos)) % (s.mask + 1) ELSE w
\* the bits of the word outside the item's own field
Outside(w, s) == IF IsSub(s) THEN w - Read(w, s) * Pow2(s.bitpos) ELSE 0
\* the read-modify-write of _set_value / async_set_value
Write(w, s, v) == IF IsSub(s) THEN Outside(w, s) + (v % (s.mask + 1)) * Pow2(s.bitpos) ELSE v

\* -------------------------------------------------------------- laws (design level)
WellFormedShape(s) ==
  /\ s.len \in {1, 2}
  /\ IsSub(s) => s.bitpos + Width(s) <= 8 * s.len
  /\ (s.type = "Enum" /\ IsSub(s)) => s.nitems <= s.mask + 1
  /\ (s.type = "Enum" /\ ~IsSub(s)) => s.nitems <= FieldMax(s.len) + 1

Domain(s) == IF IsSub(s) THEN 0..s.mask ELSE 0..FieldMax(s.len)

ReadBackLaw(w, s, v) == Read(Write(w, s, v), s) = v
IsolationLaw(w, s, v) == Outside(Write(w, s, v), s) = Outside(w, s) /\ Write(w, s, v) <= FieldMax(s.len)
\* two sub-fields of the same word that do not share a bit do not disturb each other
Disjoint(a, b) == \/ a.bitpos + Width(a) <= b.bitpos \/ b.bitpos + Width(b) <= a.bitpos
NeighbourLaw(w, a, b, v) == Disjoint(a, b) => Read(Write(w, a, v), b) = Read(w, b)

\* -------------------------------------------------------------- time "HH:MM"
TimeRaw(hh, mm) == hh * 256 + (mm % 256)
TimeHH(raw) == raw \div 256
TimeMM(raw) == raw % 256

\* -------------------------------------------------------------- temperatures (rationals as num/den)
\* shown value = raw/18 (C)  or  (raw+320)/10 (F)
ShownIs(raw, unit, num, den) ==
  IF unit = "C" THEN num * 18 = raw * den ELSE num * 10 = (raw + 320) * den
\* stored word for a written temperature num/den:  floor(t*18)  /  floor(t*10) - 320
Floor(num, den) == num \div den              \* den > 0, num >= 0
Stored(unit, num, den) == IF unit = "C" THEN Floor(num * 18, den) ELSE Floor(num * 10, den) - 320
\* |Shown(raw) - t| < one device step, cross-multiplied
WithinOneStep(raw, unit, num, den) ==
  IF unit = "C"
  THEN (raw * den - num * 18 < den) /\ (num * 18 - raw * den < den)
  ELSE ((raw + 320) * den - num * 10 < den) /\ (num * 10 - (raw + 320) * den < den)
===============================================================================
