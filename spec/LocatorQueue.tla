------------------------------ MODULE LocatorQueue ------------------------------
(* The receive queue of a discovery run (GeckoAsyncLocator): growth beyond the listed properties.

   A connection has five consumers on its peekable queue, one of which (Unhandled) discards whatever
   nobody claims within two polls (C07).  A discovery run has ONE: the hello consumer, which takes the
   head only if it is a hello.  The queue is the same class, so a datagram that is not a hello - a packet
   of an earlier connection still addressed to the ephemeral port, any stray unicast - stays at the head
   for the rest of the run and every reply behind it goes unheard.

   WithUnhandled = TRUE is the connection's arrangement (two-phase discard), FALSE the locator's.
   C15 quantifies over discovery REPLIES only, so this is an observation, reproduced on the real locator
   by c15 (evidence `stray_datagram_witness`), not a verdict.                                          *)
EXTENDS Naturals, Sequences

CONSTANTS WithUnhandled, MaxHello, MaxStray, MaxPolls

VARIABLES queue,      \* Seq of [kind : {"hello","stray"}, age : Nat]   (age in polls since arrival)
          marked,     \* the Unhandled consumer has seen the current head once
          heard, polls, nH, nS
vars == <<queue, marked, heard, polls, nH, nS>>

Init == queue = <<>> /\ marked = FALSE /\ heard = 0 /\ polls = 0 /\ nH = 0 /\ nS = 0

Arrive(k) == /\ (k = "hello" => nH < MaxHello) /\ (k = "stray" => nS < MaxStray)
             /\ queue' = Append(queue, [kind |-> k, age |-> 0])
             /\ nH' = IF k = "hello" THEN nH + 1 ELSE nH
             /\ nS' = IF k = "stray" THEN nS + 1 ELSE nS
             /\ UNCHANGED <<marked, heard, polls>>

\* one polling interval: every consumer looks at the head once (hello consumer first, then Unhandled)
Poll ==
  /\ polls < MaxPolls /\ polls' = polls + 1
  /\ LET q1 == IF queue # <<>> /\ Head(queue).kind = "hello" THEN Tail(queue) ELSE queue
         took == queue # <<>> /\ Head(queue).kind = "hello"
         \* Unhandled: first sighting marks, second sighting of the same head discards
         q2 == IF WithUnhandled /\ ~took /\ q1 # <<>> /\ marked THEN Tail(q1) ELSE q1
         m2 == IF took \/ q1 = <<>> THEN FALSE
               ELSE IF WithUnhandled /\ ~marked THEN TRUE ELSE FALSE
     IN /\ heard' = IF took THEN heard + 1 ELSE heard
        /\ queue' = [i \in 1..Len(q2) |-> [q2[i] EXCEPT !.age = @ + 1]]
        /\ marked' = m2
  /\ UNCHANGED <<nH, nS>>

Next == Arrive("hello") \/ Arrive("stray") \/ Poll
Spec == Init /\ [][Next]_vars

\* no reply waits longer than it takes to drain what was in front of it: one poll per hello, three per stray
NoStarvation ==
  \A i \in 1..Len(queue) : queue[i].kind = "hello" => queue[i].age <= MaxHello + 3 * MaxStray
================================================================================
