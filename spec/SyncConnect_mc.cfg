SPECIFICATION Spec
CONSTANTS R = 2
          ConnTimeout = 3
          MaxAge = 5
INVARIANT TypeOK
INVARIANT ReadyOnlyWhenConnected
INVARIANT ConnectedOnlyAfterChain
INVARIANT Budget
INVARIANT WireOrder
INVARIANT AbandonedOnlyWithBudgetSpent
INVARIANT PingDeathIsTheTimeout
INVARIANT ConnectedInTimeKeepsPings
PROPERTY OnlyOutstandingIsSent
PROPERTY Monotone
CHECK_DEADLOCK FALSE
