--------------------------- MODULE SyncConnect_Trace ---------------------------
(* Trace validation of real blocking-client connections (GeckoFacade + GeckoSpa on the stepped engine with
   the ping thread running, real simulator, seeded loss) against SyncConnect.  Events:
     [k |-> "tx", step, t]                                    a chain request was put on the wire (t: whole seconds)
     [k |-> "st", step, connected, ready, ping, err, chk, t]  the client's observable state after an engine iteration in
                                                              which it changed (read from the public attributes)
   Answers, give-ups, the two halves of _final_connect, ping cycles and the passage of time are not logged: they
   are SyncConnect's internal actions, taken silently between two logged events (time bounded by the next
   event's time stamp).                                                                                        *)
EXTENDS SyncConnect, Sequences, TraceKit

VARIABLES tid, l
tvars == <<vars, tid, l>>
Log == Logs[tid]
Ev == Log.ev
E == Ev[l]
More == l <= Len(Ev)

TInit == TKInit /\ tid \in 1..NLogs /\ l = 1 /\ Init

TTx == /\ More /\ E.k = "tx" /\ age = E.t
       /\ Send(E.step)
       /\ l' = l + 1 /\ UNCHANGED tid
\* the logged projection holds in the current state
TSt == /\ More /\ E.k = "st" /\ age = E.t
       /\ step = E.step /\ connected = E.connected /\ ready = E.ready
       /\ (E.chk => (pingAlive = E.ping /\ err = E.err))      \* chk = FALSE: the chain and connection only
       /\ l' = l + 1 /\ UNCHANGED <<vars, tid>>
TSilent == /\ More /\ Internal /\ age' <= E.t
           /\ UNCHANGED <<tid, l>>
TNext == TTx \/ TSt \/ TSilent
TSpec == TInit /\ [][TNext]_tvars

Track == /\ TKTrack(tid, l, l > Len(Ev))
         /\ (~ReadyOnlyWhenConnected => TKWhy(tid, "ReadyOnlyWhenConnected"))
         /\ (~ConnectedOnlyAfterChain => TKWhy(tid, "ConnectedOnlyAfterChain"))
         /\ (~Budget => TKWhy(tid, "Budget"))
         /\ (~PingDeathIsTheTimeout => TKWhy(tid, "PingDeathIsTheTimeout"))
         /\ (~ConnectedInTimeKeepsPings => TKWhy(tid, "ConnectedInTimeKeepsPings"))
         /\ ReadyOnlyWhenConnected /\ ConnectedOnlyAfterChain /\ Budget /\ PingDeathIsTheTimeout /\ ConnectedInTimeKeepsPings
Report == TKReport
================================================================================
