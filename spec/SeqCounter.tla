------------------------------ MODULE SeqCounter ------------------------------
(* The two cyclic sequence counters of a connection (C16).

   Code: GeckoAsyncUdpProtocol.get_and_increment_sequence_counter (async stack) and
   GeckoUdpSocket.get_and_increment_sequence_counter (threaded stack, under _lock).
   Both keep two integers: protocol counter (init 0) and command counter (init 191);
   a call with command=FALSE wraps 191 -> 0 and then increments; command=TRUE wraps
   255 -> 191 and then increments; the incremented value is returned.

   Threads: the threaded stack has NT concurrent callers.  With Atomic = TRUE the
   whole read-modify-write is one step (the lock); with Atomic = FALSE it is split in
   a read step and a write step (negative control: TLC must refute NoDuplicate).     *)
EXTENDS Naturals, Sequences, FiniteSets, TLC

CONSTANTS NT,        \* number of concurrent callers (1 for the async stack)
          Atomic,    \* TRUE: counter update is one step (lock held)
          MaxCalls   \* bound on calls per thread in the non-atomic control (0 = unbounded)

VARIABLES p,         \* protocol counter   0..191
          c,         \* command counter  191..255
          pc,        \* per thread: "idle" | "readP" | "readC"
          tmp,       \* per thread: value read (non-atomic variant)
          last,      \* the last completed call: [t, kind, ret]   (overwritten each call)
          ncalls     \* per thread call count (bounded control only)

vars == <<p, c, pc, tmp, last, ncalls>>
Threads == 1..NT

\* the code's arithmetic, literally
CodeNextP(x) == IF x = 191 THEN 1 ELSE x + 1
CodeNextC(x) == IF x = 255 THEN 192 ELSE x + 1

\* the property's reading, stated independently: successor in the own cycle
CycP(x) == IF x = 0 THEN 1 ELSE (x % 191) + 1             \* cycle 1..191
CycC(x) == IF x = 191 THEN 192 ELSE ((x - 192 + 1) % 64) + 192   \* cycle 192..255

Init == /\ p = 0 /\ c = 191
        /\ pc = [t \in Threads |-> "idle"]
        /\ tmp = [t \in Threads |-> 0]
        /\ last = [t |-> 0, kind |-> "none", ret |-> 0, prev |-> 0]
        /\ ncalls = [t \in Threads |-> 0]

Budget(t) == MaxCalls = 0 \/ ncalls[t] < MaxCalls

CallP(t) == /\ Atomic /\ pc[t] = "idle"
            /\ p' = CodeNextP(p)
            /\ last' = [t |-> t, kind |-> "P", ret |-> p', prev |-> p]
            /\ UNCHANGED <<c, pc, tmp, ncalls>>

CallC(t) == /\ Atomic /\ pc[t] = "idle"
            /\ c' = CodeNextC(c)
            /\ last' = [t |-> t, kind |-> "C", ret |-> c', prev |-> c]
            /\ UNCHANGED <<p, pc, tmp, ncalls>>

\* ---- non-atomic control (no lock): read, then write
ReadP(t) == /\ ~Atomic /\ pc[t] = "idle" /\ Budget(t)
            /\ tmp' = [tmp EXCEPT ![t] = p] /\ pc' = [pc EXCEPT ![t] = "readP"]
            /\ ncalls' = [ncalls EXCEPT ![t] = @ + 1]
            /\ UNCHANGED <<p, c, last>>
WriteP(t) == /\ ~Atomic /\ pc[t] = "readP"
             /\ p' = CodeNextP(tmp[t]) /\ pc' = [pc EXCEPT ![t] = "idle"]
             /\ last' = [t |-> t, kind |-> "P", ret |-> p', prev |-> p]
             /\ UNCHANGED <<c, tmp, ncalls>>

Next == \E t \in Threads : CallP(t) \/ CallC(t) \/ ReadP(t) \/ WriteP(t)
Spec == Init /\ [][Next]_vars

\* ---------------------------------------------------------------- properties
TypeOK == p \in 0..191 /\ c \in 191..255
RangeP == last.kind = "P" => last.ret \in 1..191
RangeC == last.kind = "C" => last.ret \in 192..255
NeverZero == last.kind # "none" => last.ret # 0
\* each value is the successor of the previous one in its own cycle
SuccP == last.kind = "P" => last.ret = CycP(last.prev)
SuccC == last.kind = "C" => last.ret = CycC(last.prev)
\* the two kinds do not disturb each other
Independent == [][ (p' # p => c' = c) /\ (c' # c => p' = p) ]_vars
\* linearisability for the counter: a completed call always returns the successor of
\* the value the counter held immediately before it (false without the lock)
View == <<p, c>>
NoDuplicate == last.kind = "P" => last.ret = CycP(last.prev)
===============================================================================
