SPECIFICATION Spec
CONSTANTS Callers = {"c1", "c2"}
          Verb <- VerbDef
          Gated = {}
          R = 2
          T = 2
          P = 1
          MaxStall = 1
          MaxLost = 2
          MaxLate = 1
          MaxJunk = 1
          WithU = TRUE
INVARIANT MutualExclusion
INVARIANT HolderIsTheBusyOne
INVARIANT AttemptsBounded
INVARIANT ReplyOnlyIfDelivered
INVARIANT FailOnlyAfterAllAttempts
INVARIANT CallBound
INVARIANT CapablePopper
INVARIANT UnhandledOnlyMarked
INVARIANT NoHeadOfLine
CHECK_DEADLOCK FALSE
