------------------------------ MODULE PackTables ------------------------------
(* Published pack-table layouts (C18).

   A layout maps a key "module.item" (or "module.@table") to the record of everything a
   client depends on: position, width, bit position, mask, label list, writability,
   refresh window, advertised key lists.  Publishing adds keys; a published key never
   changes.  AllowEdit = TRUE is the negative control (TLC must refute Immutable).

   Well-formedness of a single item is stated with BitField's shape vocabulary.        *)
EXTENDS BitField

CONSTANTS Keys, Vals, AllowEdit
VARIABLE layout            \* partial function Keys -> Vals

LInit == layout = [k \in {} |-> 0]
Publish(k, v) == k \notin DOMAIN layout /\ layout' = [x \in DOMAIN layout \cup {k} |-> IF x = k THEN v ELSE layout[x]]
Edit(k, v) == AllowEdit /\ k \in DOMAIN layout /\ layout[k] # v /\ layout' = [layout EXCEPT ![k] = v]
Retire(k) == AllowEdit /\ k \in DOMAIN layout /\ layout' = [x \in DOMAIN layout \ {k} |-> layout[x]]
LNext == \E k \in Keys, v \in Vals : Publish(k, v) \/ Edit(k, v) \/ Retire(k)
LSpec == LInit /\ [][LNext]_layout

\* the step from the layout pinned at the audited commit to the current layout must be a
\* behaviour of LSpec with AllowEdit = FALSE, i.e. satisfy:
Immutable == [][\A k \in DOMAIN layout : k \in DOMAIN layout' /\ layout'[k] = layout[k]]_layout
ImmutableStep(pinned, current) == \A k \in DOMAIN pinned : k \in DOMAIN current /\ current[k] = pinned[k]

\* ------------------------------------------------------------ one item
BlockLen == 1024
ItemWellFormed(it) ==
  LET s == it.shape IN
  /\ it.pos >= 0 /\ it.pos + s.len <= BlockLen                    \* bytes inside the block
  /\ WellFormedShape(s)                                            \* field inside its bytes, labels representable
  /\ (s.type \in {"Word", "Time", "Temp"}) => s.len = 2
  /\ (s.type = "Bool" /\ IsSub(s)) => s.mask = 1
WhyNot(it) ==
  LET s == it.shape IN
  IF ~(it.pos >= 0 /\ it.pos + s.len <= BlockLen) THEN "bytes-outside-block"
  ELSE IF IsSub(s) /\ ~(s.bitpos + Width(s) <= 8 * s.len) THEN "bitfield-outside-bytes"
  ELSE IF s.type = "Enum" /\ ~(s.nitems <= (IF IsSub(s) THEN s.mask + 1 ELSE FieldMax(s.len) + 1)) THEN "label-not-representable"
  ELSE "type-width"
===============================================================================
