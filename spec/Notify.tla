-------------------------------- MODULE Notify --------------------------------
(* Change notification of watched items after a status-block update (C03).

   Code: GeckoStructure / GeckoAsyncStructure.replace_status_block_segment (swap the
   block, then call accessor.status_block_changed(offset, len, previous) for every
   accessor), GeckoStructAccessor.status_block_changed (range-intersection filter, then
   decoded old value vs decoded new value), Observable (watch de-duplicates, unwatch,
   unwatch_all, _on_change calls every observer once).

   Small model: a block of NB bytes over a two-value alphabet, a fixed set of items
   (whole byte, 2-byte word, two bit fields sharing a byte, a 2-byte field next to them),
   observers o1/o2.  Replace(off, seg) produces the multiset of callbacks of that step;
   the properties relate it to the decoded values before and after.                    *)
EXTENDS BitField, Bags

CONSTANTS NB, Vals, Observers, MaxSteps,
          Filter      \* "code": range intersection as written; "firstbyte": negative control

\* items of the model: [pos, shape]
Sh(type, len, bitpos, mask, n) == [type |-> type, len |-> len, bitpos |-> bitpos, mask |-> mask, nitems |-> n, rw |-> "ALL"]
Items == << [pos |-> 0, shape |-> Sh("Byte", 1, -1, -1, 0)],
            [pos |-> 1, shape |-> Sh("Word", 2, -1, -1, 0)],
            [pos |-> 3, shape |-> Sh("Bool", 1, 0, 1, 0)],
            [pos |-> 3, shape |-> Sh("Enum", 1, 1, 3, 4)],
            [pos |-> 2, shape |-> Sh("Enum", 2, 7, 3, 4)] >>      \* straddles bytes 2 and 3
I == 1..Len(Items)
Pos == 0..(NB - 1)

VARIABLES block, obs, calls, seen, steps
\* obs[i]   : observers registered on item i (Observable keeps a de-duplicated list)
\* calls    : bag of <<item, observer, oldvalue, newvalue>> delivered by the LAST step
\* seen     : the block every callback of the last step could read
vars == <<block, obs, calls, seen, steps>>

Word(b, it) == IF it.shape.len = 1 THEN b[it.pos] ELSE b[it.pos] * 256 + b[it.pos + 1]
Value(b, it) == Read(Word(b, it), it.shape)
\* the intersection filter of status_block_changed
Overlaps(it, off, n) ==
  LET s == IF off > it.pos THEN off ELSE it.pos
      e == IF off + n < it.pos + it.shape.len THEN off + n ELSE it.pos + it.shape.len
  IN IF Filter = "code" THEN e - s > 0 ELSE off <= it.pos /\ it.pos < off + n

Segs(n) == [1..n -> Vals]
Init == /\ block \in [Pos -> Vals] /\ obs = [i \in I |-> {}]
        /\ calls = EmptyBag /\ seen = block /\ steps = 0

Watch(i, o) == /\ steps < MaxSteps /\ obs' = [obs EXCEPT ![i] = @ \cup {o}]    \* already present: no change
               /\ calls' = EmptyBag /\ steps' = steps + 1 /\ UNCHANGED <<block, seen>>
Unwatch(i, o) == /\ steps < MaxSteps /\ o \in obs[i] /\ obs' = [obs EXCEPT ![i] = @ \ {o}]
                 /\ calls' = EmptyBag /\ steps' = steps + 1 /\ UNCHANGED <<block, seen>>
UnwatchAll(i) == /\ steps < MaxSteps /\ obs' = [obs EXCEPT ![i] = {}]
                 /\ calls' = EmptyBag /\ steps' = steps + 1 /\ UNCHANGED <<block, seen>>

Replace(off, seg) ==
  LET n == Len(seg)
      new == [p \in Pos |-> IF p >= off /\ p < off + n THEN seg[p - off + 1] ELSE block[p]]
      fired == { i \in I : Overlaps(Items[i], off, n) /\ Value(block, Items[i]) # Value(new, Items[i]) }
  IN /\ steps < MaxSteps /\ off + n <= NB
     /\ block' = new /\ seen' = new                       \* the block is swapped BEFORE notifying
     /\ calls' = SetToBag(UNION { { <<i, o, Value(block, Items[i]), Value(new, Items[i])>> : o \in obs[i] } : i \in fired })
     /\ steps' = steps + 1 /\ UNCHANGED obs

Next == \/ \E i \in I, o \in Observers : Watch(i, o) \/ Unwatch(i, o)
        \/ \E i \in I : UnwatchAll(i)
        \/ \E off \in Pos, n \in 1..NB : \E seg \in Segs(n) : Replace(off, seg)
Spec == Init /\ [][Next]_vars

\* ---------------------------------------------------------------- properties
\* (as action properties over the step that produced `calls`)
Changed(i, old, new) == Value(old, Items[i]) # Value(new, Items[i])
ExactlyOnceIffChanged ==
  [][ block' # block =>
        \A i \in I, o \in Observers :
          LET k == CopiesIn(<<i, o, Value(block, Items[i]), Value(block', Items[i])>>, calls') IN
          IF Changed(i, block, block') /\ o \in obs[i] THEN k = 1 ELSE k = 0 ]_vars
NoOtherCalls ==
  [][ \A c \in BagToSet(calls') : c[3] = Value(block, Items[c[1]]) /\ c[4] = Value(block', Items[c[1]]) /\ c[3] # c[4] ]_vars
ObserversSeeNewBlock == seen = block
\* the lemma the intersection filter relies on: a changed value implies overlapping ranges
===============================================================================
