INIT LInit
NEXT LNext
CONSTANTS Keys = {}
          Vals = {}
          AllowEdit = FALSE
CHECK_DEADLOCK FALSE
