---------------------------- MODULE ThreadedEngine ----------------------------
(* The blocking stack's engine: GeckoUdpSocket._thread_func (C20).

   One iteration = five sub-steps executed in this order:
     Send    _process_send_requests : throttle (>= 1/rate since the last transmission),
             pop the HEAD of the send queue, transmit
     Recv    _process_received_data : take one datagram, hand it to the FIRST handler in
             registration order whose can_handle accepts it; handle() then handled()
             (handled() re-arms the handler's timeout); any exception is swallowed
     Loop    for every registered handler: if timed out: retry (one retransmission is
             queued, the timeout re-armed) or, with no retries left, on_retry_failed
             (the default marks the handler for removal)
     Cleanup remove handlers marked for removal
     Hook    _loop_func (no effect on engine state here)
   Between any two sub-steps other threads may register handlers, queue sends, datagrams
   may arrive and time may pass.

   Handlers are model values with fixed attributes Attr[h]:
     [accepts (datagram kinds), timeout (ms, 0 = none), nretry, final (kinds after which the
      handler marks itself for removal), raises (kinds on which handle() raises)]          *)
EXTENDS Naturals, Sequences, FiniteSets, TLC, Json

CONSTANTS H, Kinds, Attr, Gap, SmallStep,       \* Gap = 1000 / rate (ms)
          MaxTime, MaxArrivals, Steps, \* Steps = set of time advances
          ResetOnHandled             \* TRUE as written; FALSE = negative control

VARIABLES now, phase, sendQ, destQ, regs, retries, start, marked, inbox, lastSend, wired, ticketQ, nextTicket,
          lastWire, narr, registered, enq, tx, answered, act
\* regs      : sequence of registered handlers (registration order)
\* retries/start/marked : per handler state (remaining retries, timeout origin, marked for removal)
\* sendQ     : queue of handlers to transmit;  ticketQ: the enqueue tickets of those entries;
\* destQ     : whether the entry carries a destination (a retransmission queued before the
\*             first transmission has none: the engine logs an error and drops it)
\* lastWire  : [h, ticket, t] of the last transmission;  tx[h]: transmissions of h so far
\* answered  : handlers that have received their final datagram
core == <<now, phase, sendQ, destQ, regs, retries, start, marked, inbox, lastSend, ticketQ, nextTicket, lastWire, narr, registered, enq, tx, answered>>
vars == <<core, wired, act>>

Init == /\ now = 1000 /\ phase = "send" /\ sendQ = <<>> /\ destQ = <<>> /\ regs = <<>>
        /\ retries = [h \in H |-> Attr[h].nretry] /\ start = [h \in H |-> 0] /\ marked = [h \in H |-> FALSE]
        /\ inbox = <<>> /\ lastSend = 1000 /\ wired = <<>> /\ ticketQ = <<>> /\ nextTicket = 1
        /\ lastWire = [h |-> "none", ticket |-> 0, t |-> 0] /\ narr = 0 /\ registered = {} /\ enq = {}
        /\ tx = [h \in H |-> 0] /\ answered = {}
        /\ act = [a |-> "Init"]

InRegs(h) == \E i \in 1..Len(regs) : regs[i] = h
TimedOut(h) == Attr[h].timeout > 0 /\ now - start[h] > Attr[h].timeout

\* ------------------------------------------------------------- environment
Register(h) == /\ h \notin registered
               /\ regs' = Append(regs, h) /\ registered' = registered \cup {h}
               /\ start' = [start EXCEPT ![h] = now]       \* handler objects are created just before
               /\ act' = [a |-> "Register", h |-> h]
               /\ UNCHANGED <<now, phase, sendQ, destQ, retries, marked, inbox, lastSend, wired, ticketQ, nextTicket, lastWire, narr, enq, tx, answered>>
Enqueue(h) == /\ h \in registered /\ h \notin enq /\ Attr[h].timeout > 0
              /\ sendQ' = Append(sendQ, h) /\ destQ' = Append(destQ, TRUE) /\ ticketQ' = Append(ticketQ, nextTicket) /\ nextTicket' = nextTicket + 1
              /\ enq' = enq \cup {h}
              /\ act' = [a |-> "Enqueue", h |-> h]
              /\ UNCHANGED <<now, phase, regs, retries, start, marked, inbox, lastSend, wired, lastWire, narr, registered, tx, answered>>
Arrive(k) == /\ narr < MaxArrivals /\ Len(inbox) < 2
             /\ inbox' = Append(inbox, k) /\ narr' = narr + 1
             /\ act' = [a |-> "Arrive", k |-> k]
             /\ UNCHANGED <<now, phase, sendQ, destQ, regs, retries, start, marked, lastSend, wired, ticketQ, nextTicket, lastWire, registered, enq, tx, answered>>
\* time passes while the engine waits in recvfrom (and between iterations); between the
\* dispatch of a datagram and the timeout scan of the same iteration no modelled time passes
\* (assumption: that gap is shorter than the clock granularity that matters to any timeout)
Advance(dt) == /\ now + dt <= MaxTime
               /\ phase \in {"send", "recv"}
               /\ now' = now + dt
               /\ act' = [a |-> "Advance", dt |-> dt]
               /\ UNCHANGED <<phase, sendQ, destQ, regs, retries, start, marked, inbox, lastSend, wired, ticketQ, nextTicket, lastWire, narr, registered, enq, tx, answered>>

\* ------------------------------------------------------------- engine sub-steps
Send ==
  /\ phase = "send" /\ phase' = "recv"
  /\ IF now - lastSend < Gap \/ sendQ = <<>>
     THEN UNCHANGED <<sendQ, destQ, ticketQ, lastSend, wired, lastWire, tx>>
     ELSE /\ sendQ' = Tail(sendQ) /\ destQ' = Tail(destQ) /\ ticketQ' = Tail(ticketQ)
          /\ IF Head(destQ)
             THEN /\ lastSend' = now
                  /\ wired' = Append(wired, Head(sendQ))
                  /\ lastWire' = [h |-> Head(sendQ), ticket |-> Head(ticketQ), t |-> now]
                  /\ tx' = [tx EXCEPT ![Head(sendQ)] = @ + 1]
             ELSE UNCHANGED <<lastSend, wired, lastWire, tx>>     \* no destination: error logged, entry dropped
  /\ act' = [a |-> "Send"]
  /\ UNCHANGED <<now, regs, retries, start, marked, inbox, nextTicket, narr, registered, enq, answered>>

Acceptors(k) == { i \in 1..Len(regs) : k \in Attr[regs[i]].accepts }
Recv ==
  /\ phase = "recv" /\ phase' = "loop"
  /\ IF inbox = <<>> THEN UNCHANGED <<inbox, start, marked, answered>>
     ELSE LET k == Head(inbox) IN
          /\ inbox' = Tail(inbox)
          /\ IF Acceptors(k) = {} THEN UNCHANGED <<start, marked, answered>>
             ELSE LET i == CHOOSE i \in Acceptors(k) : \A j \in Acceptors(k) : i <= j
                      h == regs[i] IN
                  IF k \in Attr[h].raises
                  THEN UNCHANGED <<start, marked, answered>>          \* handle() raised: swallowed, handled() not reached
                  ELSE /\ marked' = [marked EXCEPT ![h] = @ \/ k \in Attr[h].final]
                       /\ answered' = IF k \in Attr[h].final THEN answered \cup {h} ELSE answered
                       /\ start' = IF ResetOnHandled THEN [start EXCEPT ![h] = now] ELSE start
  /\ act' = [a |-> "Recv"]
  /\ UNCHANGED <<now, sendQ, destQ, regs, retries, lastSend, wired, ticketQ, nextTicket, lastWire, narr, registered, enq, tx>>

\* handler.loop for every registered handler, in list order
LoopFold ==
  LET F[i \in 0..Len(regs)] ==
        IF i = 0 THEN [q |-> sendQ, dq |-> destQ, tq |-> ticketQ, nt |-> nextTicket, r |-> retries, s |-> start, m |-> marked]
        ELSE LET p == F[i-1]  h == regs[i] IN
             IF ~(Attr[h].timeout > 0 /\ now - p.s[h] > Attr[h].timeout) THEN p
             ELSE IF p.r[h] > 0
                  THEN [q |-> Append(p.q, h), dq |-> Append(p.dq, tx[h] > 0), tq |-> Append(p.tq, p.nt), nt |-> p.nt + 1,
                        r |-> [p.r EXCEPT ![h] = @ - 1], s |-> [p.s EXCEPT ![h] = now], m |-> p.m]
                  ELSE [p EXCEPT !.m = [p.m EXCEPT ![h] = TRUE]]
  IN F[Len(regs)]
Loop ==
  /\ phase = "loop" /\ phase' = "cleanup"
  /\ LET f == LoopFold IN
     /\ sendQ' = f.q /\ destQ' = f.dq /\ ticketQ' = f.tq /\ nextTicket' = f.nt /\ retries' = f.r /\ start' = f.s /\ marked' = f.m
  /\ act' = [a |-> "Loop"]
  /\ UNCHANGED <<now, regs, inbox, lastSend, wired, lastWire, narr, registered, enq, tx, answered>>

Keep(sq) == LET F[i \in 0..Len(sq)] == IF i = 0 THEN <<>> ELSE IF marked[sq[i]] THEN F[i-1] ELSE Append(F[i-1], sq[i]) IN F[Len(sq)]
Cleanup ==
  /\ phase = "cleanup" /\ phase' = "send"
  /\ regs' = Keep(regs)
  /\ act' = [a |-> "Cleanup"]
  /\ UNCHANGED <<now, sendQ, destQ, retries, start, marked, inbox, lastSend, wired, ticketQ, nextTicket, lastWire, narr, registered, enq, tx, answered>>

Next == \/ Send \/ Recv \/ Loop \/ Cleanup
        \/ \E h \in H : Register(h) \/ Enqueue(h)
        \/ \E k \in Kinds : Arrive(k)
        \/ \E dt \in Steps : Advance(dt)
Spec == Init /\ [][Next]_vars

\* attributes used by the bounded configurations: two requests (r1 answered by k1, r2 by k2;
\* timeout 100 ms, 1 retry) and a service handler that also accepts k1 and raises on kx
AttrDef == [h \in {"r1", "r2", "s1"} |->
             IF h = "r1" THEN [accepts |-> {"k1"}, timeout |-> 100, nretry |-> 1, final |-> {"k1"}, raises |-> {}]
             ELSE IF h = "r2" THEN [accepts |-> {"k2"}, timeout |-> 100, nretry |-> 0, final |-> {"k2"}, raises |-> {}]
             ELSE [accepts |-> {"k1", "kx"}, timeout |-> 0, nretry |-> 0, final |-> {}, raises |-> {"kx"}]]

\* ------------------------------------------------------------- properties
\* queued sends leave in FIFO order ...
FifoSends == [][lastWire'.ticket # lastWire.ticket => lastWire'.ticket > lastWire.ticket]_vars   \* (tickets of dropped entries are skipped)
\* ... no faster than the throttle rate
Paced == [][(lastWire'.ticket # lastWire.ticket /\ lastWire.ticket > 0) => lastWire'.t - lastWire.t >= Gap]_vars
\* a request is transmitted at most 1 + N times ...
BoundedTransmissions == \A h \in H : tx[h] <= 1 + Attr[h].nretry
\* ... and an answered request is never queued for transmission again
NoSendAfterAnswer == [][act'.a = "Loop" => \A h \in H : h \in answered => (Len(SelectSeq(sendQ', LAMBDA x : x = h)) <= Len(SelectSeq(sendQ, LAMBDA x : x = h)))]_vars
\* an answered or exhausted request is removed at the next cleanup
RemovedWhenDone == [][act'.a = "Cleanup" => \A h \in H : marked[h] => ~(\E i \in 1..Len(regs') : regs'[i] = h)]_vars

View == core
Proj == [now |-> now, phase |-> phase, sendQ |-> sendQ, regs |-> regs,
         retries |-> [i \in 1..Len(regs) |-> retries[regs[i]]], marked |-> [i \in 1..Len(regs) |-> marked[regs[i]]],
         inbox |-> inbox, lastSend |-> lastSend, nwired |-> Len(wired), tx |-> tx]
ProjN == [now |-> now', phase |-> phase', sendQ |-> sendQ', regs |-> regs',
          retries |-> [i \in 1..Len(regs') |-> retries'[regs'[i]]], marked |-> [i \in 1..Len(regs') |-> marked'[regs'[i]]],
          inbox |-> inbox', lastSend |-> lastSend', nwired |-> Len(wired'), tx |-> tx']
Emit == PrintT(<<"GVT", ToJson([from |-> Proj, act |-> act', to |-> ProjN, lvl |-> TLCGet("level")])>>)
===============================================================================
