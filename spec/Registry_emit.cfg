SPECIFICATION Spec
CONSTANTS H = {"h1", "h2", "h3"}
          MaxSteps = 9
          SweepFromCopy = FALSE
ACTION_CONSTRAINT Emit
VIEW View
CHECK_DEADLOCK FALSE
