------------------------------ MODULE TraceKit --------------------------------
(* Bookkeeping shared by every trace specification.

   A validation run receives a JSON array of recorded executions ("logs") in the file
   named by the environment variable GV_TRACES.  The trace spec chooses one log (tid) in
   its initial predicate, replays it with its own actions, and calls TKTrack from a
   CONSTRAINT so that, whatever happens, the POSTCONDITION can report
     - the set of logs that were matched to their end (accepted),
     - for every log the longest matched prefix,
     - optional reasons recorded with TKWhy (e.g. the name of a violated invariant).
   Must be run with -workers 1 (TLCSet registers are per worker).                   *)
EXTENDS TLC, Naturals, Sequences, Json, IOUtils

Logs == JsonDeserialize(IOEnv.GV_TRACES)
NLogs == Len(Logs)

TKInit == TLCSet(1, {}) /\ TLCSet(2, [i \in 1..NLogs |-> 0]) /\ TLCSet(3, {})

TKTrack(tid, l, done) ==
    /\ TLCSet(2, [TLCGet(2) EXCEPT ![tid] = IF @ < l THEN l ELSE @])
    /\ (done => TLCSet(1, TLCGet(1) \cup {tid}))

TKWhy(tid, w) == TLCSet(3, TLCGet(3) \cup {<<tid, w>>})

TKReport == PrintT(<<"GVTRACE", TLCGet(1), TLCGet(2), TLCGet(3)>>)
===============================================================================
