SPECIFICATION Spec
CONSTANTS NB = 4
          Vals = {0, 255}
          Observers = {"o1", "o2"}
          MaxSteps = 2
          Filter = "firstbyte"
INVARIANT ObserversSeeNewBlock
PROPERTY ExactlyOnceIffChanged
PROPERTY NoOtherCalls
CHECK_DEADLOCK FALSE
