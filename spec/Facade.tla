-------------------------------- MODULE Facade --------------------------------
(* The automation facade (C11, C12, C13): which devices exist for a spa's output wiring,
   what every read-only member evaluates to, and what a command emits.

   Code: automation/async_facade.py (_scan_outputs), automation/facade.py (scan_outputs),
   const.py (DEVICES, SENSORS, BINARY_SENSORS), pump.py, switch.py, heater.py,
   watercare.py, reminders.py, sensors.py.

   Text is carried as sequences of code points so that prefix tests are decided by TLC. *)
EXTENDS Naturals, Integers, Sequences, FiniteSets, TLC

\* ---------------------------------------------------------------- inventory (C12)
IsPrefixOf(p, s) == Len(p) <= Len(s) /\ SubSeq(s, 1, Len(p)) = p
Upper(c) == IF c >= 97 /\ c <= 122 THEN c - 32 ELSE c
UpperSeq(s) == [i \in 1..Len(s) |-> Upper(s[i])]
UD == <<85, 100>>                                   \* "Ud"
NA == <<78, 65>>                                    \* "NA"

\* outputs: sequence of connection labels (one per output item, in table order)
Connections(outputs) == { i \in 1..Len(outputs) : outputs[i] # NA }
\* a device is present iff some connected output's label starts with the device key
Present(dev, outputs) == \E i \in Connections(outputs) : IsPrefixOf(dev, outputs[i])
FilterSeq(sq, P(_)) ==
  LET F[i \in 0..Len(sq)] == IF i = 0 THEN <<>> ELSE IF P(sq[i]) THEN Append(F[i-1], sq[i]) ELSE F[i-1] IN F[Len(sq)]
\* actual devices: table order of all_device_keys, each once
ActualDevices(allDevices, outputs) ==
  LET first(i) == \A j \in 1..(i-1) : allDevices[j] # allDevices[i]
      F[i \in 0..Len(allDevices)] ==
        IF i = 0 THEN <<>>
        ELSE IF Present(allDevices[i], outputs) /\ first(i) THEN Append(F[i-1], allDevices[i]) ELSE F[i-1]
  IN F[Len(allDevices)]
\* user devices: an actual device with a user demand "Ud<device>" (case-insensitive) and known to DEVICES;
\* one entry per matching demand
HasDemand(dev, demands) == \E k \in 1..Len(demands) : UpperSeq(demands[k]) = UpperSeq(UD \o dev)
DemandsOf(dev, demands) == FilterSeq(demands, LAMBDA d : UpperSeq(d) = UpperSeq(UD \o dev))
UserDevices(allDevices, outputs, demands, known) ==
  LET act == ActualDevices(allDevices, outputs)
      F[i \in 0..Len(act)] ==
        IF i = 0 THEN <<>>
        ELSE IF act[i] \in known
             THEN F[i-1] \o [k \in 1..Len(DemandsOf(act[i], demands)) |-> [dev |-> act[i], demand |-> DemandsOf(act[i], demands)[k]]]
             ELSE F[i-1]
  IN F[Len(act)]
OfClass(uds, cls, classOf) == FilterSeq(uds, LAMBDA u : classOf[u.dev] = cls)

NoDup(sq) == \A i, j \in 1..Len(sq) : sq[i] = sq[j] => i = j

\* ---------------------------------------------------------------- value semantics (C11)
WatercareModes == 5
\* str(water_care) for a mode byte (None = -1): never raises
WatercareText(mode) == IF mode = -1 THEN "waiting" ELSE IF mode >= 0 /\ mode < WatercareModes THEN "name" ELSE "unknown"
ReminderText(days) == IF days > 0 THEN "due-in" ELSE IF days = 0 THEN "due-today" ELSE "overdue"
===============================================================================
