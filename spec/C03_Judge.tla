------------------------------- MODULE C03_Judge ------------------------------
(* Judges one recorded update step of a real structure object (C03).
   record: off, n                          the update (offset, segment length)
           items = << [pos, shape, labels, oldw, neww, ops, unit] ... >>
                     watched items (all whose bytes intersect the update, plus silent ones):
                     field word before / after, label list (enums), the history `ops` of
                     watch/unwatch calls on that item: [op |-> "w"|"u"|"ua", o |-> id]
           installed                      the block after the step is the block before it with the
                                          segment written at off (byte comparison by the harness)
           calls = << [item (index into items), o, old, new, sawnew] ... >>
                     callbacks received during the step, with decoded old/new:
                     [k |-> "label"|"bool"|"int"|"time"|"temp", s, n, hh, mm, num, den]      *)
EXTENDS BitField, Json, IOUtils

Recs == ndJsonDeserialize(IOEnv.GV_RECS)

\* live observers after a history of watch / unwatch / unwatch_all calls
Live(ops) == LET F[i \in 0..Len(ops)] ==
                   IF i = 0 THEN {}
                   ELSE IF ops[i].op = "w" THEN F[i-1] \cup {ops[i].o}
                   ELSE IF ops[i].op = "u" THEN F[i-1] \ {ops[i].o}
                   ELSE {}
             IN F[Len(ops)]

Label(it, raw) == IF raw < Len(it.labels) THEN it.labels[raw + 1] ELSE "Unknown"
\* decoded value as a comparable term (temperatures: the stored reading)
Dec(it, w) ==
  LET raw == Read(w, it.shape)  t == it.shape.type IN
  IF t = "Enum" THEN <<"label", Label(it, raw)>>
  ELSE IF t = "Bool" THEN <<"bool", raw = 1>>
  ELSE <<"raw", raw>>

\* does a callback argument denote the decoded value of word w?
Denotes(it, a, w) ==
  LET raw == Read(w, it.shape)  t == it.shape.type IN
  CASE t = "Enum" -> a.k = "label" /\ a.s = Label(it, raw)
    [] t = "Bool" -> a.k = "bool" /\ a.n = (IF raw = 1 THEN 1 ELSE 0)
    [] t = "Time" -> a.k = "time" /\ a.hh = TimeHH(raw) /\ a.mm = TimeMM(raw)
    [] t = "Temp" -> a.k = "temp" /\ ShownIs(raw, it.unit, a.num, a.den)
    [] OTHER -> a.k = "int" /\ a.n = raw

CallsFor(r, i, o) == { c \in 1..Len(r.calls) : r.calls[c].item = i /\ r.calls[c].o = o }
Verdict(r) ==
  LET N == Len(r.items) IN
  IF ~r.installed THEN "update-not-installed"
  ELSE IF \E i \in 1..N : \E o \in Live(r.items[i].ops) :
        Dec(r.items[i], r.items[i].oldw) # Dec(r.items[i], r.items[i].neww) /\ Cardinality(CallsFor(r, i, o)) = 0
  THEN "changed-but-silent"
  ELSE IF \E i \in 1..N : \E o \in Live(r.items[i].ops) : Cardinality(CallsFor(r, i, o)) > 1
  THEN "notified-more-than-once"
  ELSE IF \E c \in 1..Len(r.calls) :
        Dec(r.items[r.calls[c].item], r.items[r.calls[c].item].oldw) = Dec(r.items[r.calls[c].item], r.items[r.calls[c].item].neww)
  THEN "notified-without-change"
  ELSE IF \E c \in 1..Len(r.calls) : r.calls[c].o \notin Live(r.items[r.calls[c].item].ops)
  THEN "removed-or-unknown-observer-called"
  ELSE IF \E c \in 1..Len(r.calls) :
        LET it == r.items[r.calls[c].item] IN ~(Denotes(it, r.calls[c].old, it.oldw) /\ Denotes(it, r.calls[c].new, it.neww))
  THEN "wrong-old-or-new-value"
  ELSE IF \E c \in 1..Len(r.calls) : ~r.calls[c].sawnew
  THEN "observer-saw-old-block"
  ELSE "ok"
Bad == { <<k, Verdict(Recs[k])>> : k \in { k \in 1..Len(Recs) : Verdict(Recs[k]) # "ok" } }
ASSUME PrintT(<<"GVBAD", Bad, Len(Recs)>>)
===============================================================================
