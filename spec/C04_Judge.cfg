CONSTANT WatercareClaimsAll = FALSE
