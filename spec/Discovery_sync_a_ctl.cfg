SPECIFICATION Spec
CONSTANTS Spas = {"a", "b", "c"}
          Filter = "a"
          Poll = 1
          Initial = 3
          Timeout = 6
          MaxArrivals = 4
          ListsAll = TRUE
INVARIANT OnlyRequested
CHECK_DEADLOCK FALSE
