------------------------------- MODULE C13_Judge ------------------------------
(* Facade commands (C13): what a command must put on the wire, and what the client must read
   back after the spa applied it and echoed the change.

   Spa model (implemented by the harness peer, whose actions are part of each record):
     set-value (pos, len, word) : the word is written at pos; if the item is a user demand the
                                  device's output state follows the demand
     key press k                : the user demand of the device with keypad k toggles between OFF and
                                  its first other label; the output state follows
     SETWC mode                 : the water-care mode becomes `mode`, answered with WCSET
   every change is echoed with a partial status update.

   record: cmd ("set_mode"|"turn_on"|"turn_off"|"set_temp"|"set_unit"|"set_wc"), stack ("async"|"sync"),
           on_before (device on before the command), keypad, item = [pos, shape] of the written item,
           existing (its field word before), want (raw field value requested: label index, 0/1, stored
           temperature word, mode), pack = [type, cfg, log],
           sent = << [verb, sub, seq, pack, cfg, log, pos, len, word, key, mode] ... >> command datagrams that
           reached the spa (decoded by the real peer handlers),
           after = raw field value the client reads after the echo, raised = "" or exception type         *)
EXTENDS BitField, Json, IOUtils
Recs == ndJsonDeserialize(IOEnv.GV_RECS)

Idempotent(r) == (r.cmd = "turn_on" /\ r.on_before) \/ (r.cmd = "turn_off" /\ ~r.on_before)
ByKey(r) == r.cmd \in {"turn_on", "turn_off"} /\ r.keypad # 0
CmdSeq(s) == s \in 192..255
ProtoSeq(s) == s \in 1..191

Verdict(r) ==
  IF r.raised # "" THEN "command-raised"
  ELSE IF Idempotent(r) THEN (IF r.sent = <<>> THEN "ok" ELSE "sent-although-already-in-requested-state")
  ELSE IF Len(r.sent) # 1 THEN "not-exactly-one-command"
  ELSE LET d == r.sent[1] IN
       IF r.cmd = "set_wc"
       THEN (IF d.verb = "SETWC" /\ d.mode = r.want /\ ProtoSeq(d.seq) /\ r.after = r.want THEN "ok" ELSE "watercare-command")
       ELSE IF d.verb # "SPACK" \/ ~CmdSeq(d.seq) THEN "not-a-command-range-pack-command"
       ELSE IF d.pack # r.pack.type THEN "wrong-pack-type"
       ELSE IF ByKey(r)
            THEN (IF d.sub = "key" /\ d.key = r.keypad THEN (IF r.after = r.want THEN "ok" ELSE "state-after-echo") ELSE "wrong-key-press")
            ELSE IF d.sub # "set" THEN "expected-set-value"
            ELSE IF d.cfg # r.pack.cfg \/ d.log # r.pack.log THEN "wrong-config-or-log-version"
            ELSE IF d.pos # r.item.pos \/ d.len # r.item.shape.len THEN "wrong-item-addressed"
            ELSE IF d.word # Write(r.existing, r.item.shape, r.want) THEN "wrong-word-written"
            ELSE IF r.after # r.want THEN "state-after-echo"
            ELSE "ok"
Bad == { <<k, Verdict(Recs[k])>> : k \in { k \in 1..Len(Recs) : Verdict(Recs[k]) # "ok" } }
ASSUME PrintT(<<"GVBAD", Bad, Len(Recs)>>)
===============================================================================
