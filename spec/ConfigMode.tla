------------------------------ MODULE ConfigMode ------------------------------
(* Active/idle configuration switching and configuration-aware sleeping (C17).

   Code (config.py):
     GeckoConfig      one process-global settings object; set_config_mode(active) copies
                      every member of the active or idle table into it (no await inside)
     ConfigChange     one shared future.  config_sleep(d): if it is None or done, create a
                      new one; then wait for it with timeout d.  set_config_mode resolves it
                      if it is not yet done.
   Futures are modelled by generation numbers: `cur` is the generation of the shared
   future (0 = None), `done` the set of resolved generations.  A sleeper remembers the
   generation it waits on and its deadline.

   Renew = "code" re-creates the future only when it is None or already resolved;
   Renew = "always" is the negative control (every sleep installs a fresh future, which
   orphans the sleepers still waiting on the previous one: a lost wake-up).              *)
EXTENDS Naturals, FiniteSets, TLC

CONSTANTS Sleepers, Members, MaxDelay, MaxTime, MaxSwitches, Renew

VARIABLES now, table, cur, done, st, nsw, woke
\* st[s] = [phase |-> "idle"|"sleeping", gen, deadline]
\* woke  = set of sleepers that woke in the current instant (reset by Tick)
vars == <<now, table, cur, done, st, nsw, woke>>

Init == /\ now = 0 /\ table = [m \in Members |-> "idle"] /\ cur = 0 /\ done = {}
        /\ st = [s \in Sleepers |-> [phase |-> "idle", gen |-> 0, deadline |-> 0]]
        /\ nsw = 0 /\ woke = {}

Sleep(s, d) ==
  /\ st[s].phase = "idle" /\ s \notin woke
  /\ LET fresh == cur = 0 \/ cur \in done \/ Renew = "always"
         g == IF fresh THEN cur + 1 ELSE cur IN
     /\ cur' = g
     /\ st' = [st EXCEPT ![s] = [phase |-> "sleeping", gen |-> g, deadline |-> now + d]]
  /\ UNCHANGED <<now, table, done, nsw, woke>>

Switch(mode) ==
  /\ nsw < MaxSwitches /\ cur # 0          \* the code asserts a future exists
  /\ table' = [m \in Members |-> mode]     \* the complete table, atomically
  /\ done' = done \cup {cur}
  /\ nsw' = nsw + 1
  /\ UNCHANGED <<now, cur, st, woke>>

\* a sleeper returns from config_sleep: its future was resolved, or its timeout expired
WakeBySwitch(s) == /\ st[s].phase = "sleeping" /\ st[s].gen \in done
                   /\ st' = [st EXCEPT ![s].phase = "idle"] /\ woke' = woke \cup {s}
                   /\ UNCHANGED <<now, table, cur, done, nsw>>
WakeByTimeout(s) == /\ st[s].phase = "sleeping" /\ st[s].deadline = now
                    /\ st' = [st EXCEPT ![s].phase = "idle"] /\ woke' = woke \cup {s}
                    /\ UNCHANGED <<now, table, cur, done, nsw>>

\* time passes only when every wake-up that is due in this instant has happened
Due(s) == st[s].phase = "sleeping" /\ (st[s].gen \in done \/ st[s].deadline = now)
Tick == /\ now < MaxTime /\ \A s \in Sleepers : ~Due(s)
        /\ now' = now + 1 /\ woke' = {}
        /\ UNCHANGED <<table, cur, done, st, nsw>>

Next == \/ \E s \in Sleepers, d \in 1..MaxDelay : Sleep(s, d)
        \/ \E mode \in {"idle", "active"} : Switch(mode)
        \/ \E s \in Sleepers : WakeBySwitch(s) \/ WakeByTimeout(s)
        \/ Tick
Spec == Init /\ [][Next]_vars

\* ---------------------------------------------------------------- properties
NeverAMixture == \A m1, m2 \in Members : table[m1] = table[m2]
\* nobody sleeps past its deadline
NeverOversleeps == \A s \in Sleepers : st[s].phase = "sleeping" => st[s].deadline >= now
\* every sleeper that was asleep when the mode was switched is woken by that switch:
\* a sleeping task never waits on a future that a later switch will not resolve
SleeperHearsNextSwitch == \A s \in Sleepers : st[s].phase = "sleeping" => (st[s].gen = cur /\ cur \notin done) \/ st[s].gen \in done
===============================================================================
