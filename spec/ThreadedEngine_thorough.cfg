SPECIFICATION Spec
CONSTANTS H = {"r1", "r2", "s1"}
          Kinds = {"k1", "k2", "kx"}
          Attr <- AttrDef
          Gap = 20
          SmallStep = 20
          MaxTime = 1230
          MaxArrivals = 2
          Steps = {20, 110}
          ResetOnHandled = TRUE
INVARIANT BoundedTransmissions
PROPERTY FifoSends
PROPERTY Paced
PROPERTY NoSendAfterAnswer
PROPERTY RemovedWhenDone
VIEW View
CHECK_DEADLOCK FALSE
