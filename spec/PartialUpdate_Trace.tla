-------------------------- MODULE PartialUpdate_Trace --------------------------
(* Trace validation of real partial-update histories (async client under its consume()
   task on the virtual loop; threaded client on the stepped engine).

   Log: [init |-> <<b0..b(NB-1)>>, ev |-> <<...>>] with events
     [k |-> "msg", ch |-> << [pos, data] ... >>,        the STATP as built by the peer
      applied |-> << [pos, data] ... >>,                installs the handler task performed
      acks |-> << seq ... >>]                           STATQ datagrams seen for it
     [k |-> "early", ch, acks]                           a STATP that arrived during the handshake (before the
                                                          first full block): acknowledged; what it leaves in the
                                                          handler must not come back with a later message
     [k |-> "silent", pos, v]                            unreported change of the spa block
     [k |-> "refresh", off, data |-> <<bytes>>]         an install performed by a get()
     [k |-> "got", off, len, ok]                         a refresh call returned (ok = it reported success)
     [k |-> "final", block |-> <<bytes>>]               client block at the end
   Installs are observed by wrapping the structure object's replace_status_block_segment
   from the harness (exact linearisation point of every block mutation).             *)
EXTENDS PartialUpdate, TraceKit

VARIABLES tid, l
tvars == <<vars, tid, l>>
Log == Logs[tid]
Ev == Log.ev
E == Ev[l]
More == l <= Len(Ev)
Step == l' = l + 1 /\ UNCHANGED tid

TInit == /\ TKInit /\ tid \in 1..NLogs /\ l = 1
         /\ spa = [p \in Pos |-> Logs[tid].init[p + 1]]
         /\ cli = spa /\ ref = spa /\ changes = <<>> /\ pseq = 0 /\ lastAck = 0
         /\ acks = 0 /\ msgs = 0 /\ steps = 0

\* the message's records, with positions and data as decoded from the datagram
TMsg == /\ More /\ E.k = "msg"
        /\ Len(E.acks) = 1 /\ E.acks[1] \in 1..191              \* exactly one ack, protocol range
        /\ E.applied = AppliedFor(E.ch)                         \* once each, in order, nothing stale
        /\ spa' = ApplyAll(spa, E.ch) /\ ref' = ApplyAll(ref, E.ch)
        /\ cli' = ApplyAll(cli, E.applied)
        /\ changes' = LeftOver(E.ch)
        /\ pseq' = E.acks[1] /\ lastAck' = E.acks[1]
        /\ acks' = acks + 1 /\ msgs' = msgs + 1 /\ steps' = steps + 1
        /\ Step
TEarly == /\ More /\ E.k = "early"
          /\ Len(E.acks) = 1 /\ E.acks[1] \in 1..191
          /\ changes' = LeftOver(E.ch)
          /\ pseq' = E.acks[1] /\ lastAck' = E.acks[1]
          /\ acks' = acks + 1 /\ msgs' = msgs + 1 /\ steps' = steps + 1
          /\ UNCHANGED <<spa, cli, ref>> /\ Step
TSilent == /\ More /\ E.k = "silent"
           /\ spa' = [spa EXCEPT ![E.pos] = E.v] /\ steps' = steps + 1
           /\ UNCHANGED <<cli, ref, changes, pseq, lastAck, acks, msgs>> /\ Step
TRefresh == /\ More /\ E.k = "refresh"
            /\ \A i \in 1..Len(E.data) : E.data[i] = spa[E.off + i - 1]   \* it fetched the spa's bytes
            /\ cli' = [p \in Pos |-> IF p >= E.off /\ p < E.off + Len(E.data) THEN spa[p] ELSE cli[p]]
            /\ ref' = [p \in Pos |-> IF p >= E.off /\ p < E.off + Len(E.data) THEN spa[p] ELSE ref[p]]
            /\ steps' = steps + 1
            /\ UNCHANGED <<spa, changes, pseq, lastAck, acks, msgs>> /\ Step
\* a refresh that reported success has made the client's range equal to the spa's (steps are taken
\* only while nothing else is in flight, so the spa did not change underneath it)
TGot == /\ More /\ E.k = "got"
        /\ E.ok => \A p \in Pos : (p >= E.off /\ p < E.off + E.len) => cli[p] = spa[p]
        /\ UNCHANGED vars /\ Step
TFinal == /\ More /\ E.k = "final"
          /\ Len(E.block) = NB
          /\ \A p \in Pos : E.block[p + 1] = cli[p]
          /\ UNCHANGED vars /\ Step

TNext == TMsg \/ TEarly \/ TSilent \/ TRefresh \/ TGot \/ TFinal
TSpec == TInit /\ [][TNext]_tvars

Track == /\ TKTrack(tid, l, l > Len(Ev))
         /\ (cli # ref => TKWhy(tid, "AppliedOnceInOrder"))
         /\ cli = ref
Report == TKReport
===============================================================================
