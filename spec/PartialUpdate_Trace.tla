-------------------------- MODULE PartialUpdate_Trace --------------------------
(* Trace validation of real partial-update histories (async client under its consume()
   task on the virtual loop; threaded client on the stepped engine).

   Log: [init |-> <<b0..b(NB-1)>>, ev |-> <<...>>] with events
     [k |-> "msg", ch |-> << [pos, data] ... >>,        the STATP as built by the peer
      applied |-> << [pos, data] ... >>,                installs the handler task performed
      acks |-> << seq ... >>]                           STATQ datagrams seen for it
     [k |-> "early", ch, acks]                           a STATP that arrived during the handshake (before the
                                                          first full block): acknowledged; what it leaves in the
                                                          handler must not come back with a later message
     [k |-> "silent", pos, v]                            unreported change of the spa block
     [k |-> "refresh", off, data |-> <<bytes>>]         an install performed by a get()
     [k |-> "got", off, len, ok]                         a refresh call returned (ok = it reported success); with a field
                                                          `raced` the spa's block changed inside the range after it was
                                                          fetched (the protocol's own race): equality is not demanded
     [k |-> "fetch", off, data]                          the spa answered a status-block request with these bytes (logged
                                                          where a reported change reaches the client between the segments)
   Events are logged in ARRIVAL order (for a refresh: arrival of its final segment).  `msg` and `refresh` events may
   carry n > 0, the global sequence number of their (first) install: installs happen in arrival order.
     [k |-> "final", block |-> <<bytes>>]               client block at the end
   Installs are observed by wrapping the structure object's replace_status_block_segment
   from the harness (exact linearisation point of every block mutation).             *)
EXTENDS PartialUpdate, TraceKit

VARIABLES tid, l, fetched, inst
tvars == <<vars, tid, l, fetched, inst>>
NoFetch == [off |-> 999999, data |-> <<>>]
N_(e) == IF "n" \in DOMAIN e THEN e.n ELSE 0
Log == Logs[tid]
Ev == Log.ev
E == Ev[l]
More == l <= Len(Ev)
StepI == l' = l + 1 /\ UNCHANGED tid
Step == StepI /\ UNCHANGED <<fetched, inst>>

TInit == /\ TKInit /\ tid \in 1..NLogs /\ l = 1
         /\ spa = [p \in Pos |-> Logs[tid].init[p + 1]]
         /\ cli = spa /\ ref = spa /\ changes = <<>> /\ pseq = 0 /\ lastAck = 0
         /\ acks = 0 /\ msgs = 0 /\ steps = 0 /\ fetched = NoFetch /\ inst = 0

\* the message's records, with positions and data as decoded from the datagram
TMsg == /\ More /\ E.k = "msg"
        /\ Len(E.acks) = 1 /\ E.acks[1] \in 1..191              \* exactly one ack, protocol range
        /\ E.applied = AppliedFor(E.ch)                         \* once each, in order, nothing stale
        /\ spa' = ApplyAll(spa, E.ch) /\ ref' = ApplyAll(ref, E.ch)
        /\ cli' = ApplyAll(cli, E.applied)
        /\ changes' = LeftOver(E.ch)
        /\ pseq' = E.acks[1] /\ lastAck' = E.acks[1]
        /\ acks' = acks + 1 /\ msgs' = msgs + 1 /\ steps' = steps + 1
        /\ (N_(E) > 0 => N_(E) > inst) /\ inst' = IF N_(E) > 0 THEN N_(E) ELSE inst
        /\ StepI /\ UNCHANGED fetched
TEarly == /\ More /\ E.k = "early"
          /\ Len(E.acks) = 1 /\ E.acks[1] \in 1..191
          /\ changes' = LeftOver(E.ch)
          /\ pseq' = E.acks[1] /\ lastAck' = E.acks[1]
          /\ acks' = acks + 1 /\ msgs' = msgs + 1 /\ steps' = steps + 1
          /\ UNCHANGED <<spa, cli, ref>> /\ Step
TSilent == /\ More /\ E.k = "silent"
           /\ spa' = [spa EXCEPT ![E.pos] = E.v] /\ steps' = steps + 1
           /\ UNCHANGED <<cli, ref, changes, pseq, lastAck, acks, msgs>> /\ Step
TRefresh == /\ More /\ E.k = "refresh"
            \* it installs the spa's bytes: the current ones, or the ones of the logged answer
            /\ \/ \A i \in 1..Len(E.data) : E.data[i] = spa[E.off + i - 1]
               \/ (fetched.off = E.off /\ fetched.data = E.data)
            /\ cli' = [p \in Pos |-> IF p >= E.off /\ p < E.off + Len(E.data) THEN E.data[p - E.off + 1] ELSE cli[p]]
            /\ ref' = [p \in Pos |-> IF p >= E.off /\ p < E.off + Len(E.data) THEN E.data[p - E.off + 1] ELSE ref[p]]
            /\ steps' = steps + 1
            /\ (N_(E) > 0 => N_(E) > inst) /\ inst' = IF N_(E) > 0 THEN N_(E) ELSE inst
            /\ UNCHANGED <<spa, changes, pseq, lastAck, acks, msgs, fetched>> /\ StepI
TFetch == /\ More /\ E.k = "fetch"
          /\ \A i \in 1..Len(E.data) : E.data[i] = spa[E.off + i - 1]
          /\ fetched' = [off |-> E.off, data |-> E.data]
          /\ UNCHANGED <<vars, inst>> /\ StepI
\* a refresh that reported success has made the client's range equal to the spa's (steps are taken
\* only while nothing else is in flight, so the spa did not change underneath it)
TGot == /\ More /\ E.k = "got"
        /\ (E.ok /\ "raced" \notin DOMAIN E) => \A p \in Pos : (p >= E.off /\ p < E.off + E.len) => cli[p] = spa[p]
        /\ UNCHANGED vars /\ Step
TFinal == /\ More /\ E.k = "final"
          /\ Len(E.block) = NB
          /\ \A p \in Pos : E.block[p + 1] = cli[p]
          /\ UNCHANGED vars /\ Step

TNext == TMsg \/ TEarly \/ TSilent \/ TRefresh \/ TFetch \/ TGot \/ TFinal
TSpec == TInit /\ [][TNext]_tvars

Track == /\ TKTrack(tid, l, l > Len(Ev))
         /\ (cli # ref => TKWhy(tid, "AppliedOnceInOrder"))
         /\ cli = ref
Report == TKReport
===============================================================================
