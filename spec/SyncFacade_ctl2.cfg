SPECIFICATION Spec
CONSTANTS HookLast = TRUE
          GuardReady = FALSE
INVARIANT ConnectedMeansBuilt
CHECK_DEADLOCK FALSE
