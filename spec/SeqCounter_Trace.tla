--------------------------- MODULE SeqCounter_Trace ---------------------------
(* Linearisability of recorded concurrent call histories against SeqCounter.

   A log holds, per thread, the sequence of (kind, returned value) of its calls in
   program order: Log.thr[t] = << [kind |-> "P"|"C", ret |-> n], ... >>.  The log is
   accepted iff some interleaving of the threads' calls is a run of the counter.
   No partial-order reduction is applied: a first attempt that preferred protocol
   calls over command calls was unsound (after a wrap two threads can both hold a
   matching value and only one of the choices extends to a full linearisation), so
   TLC explores every consistent cut of the histories.                              *)
EXTENDS SeqCounter, TraceKit

VARIABLES tid, pos
tvars == <<vars, tid, pos>>

Log == Logs[tid]
Thr(t) == Log.thr[t]
Total == LET S[t \in 0..NT] == IF t = 0 THEN 0 ELSE S[t-1] + Len(Thr(t)) IN S[NT]
Done == \A t \in Threads : pos[t] > Len(Thr(t))
Progress == LET S[t \in 0..NT] == IF t = 0 THEN 0 ELSE S[t-1] + pos[t] - 1 IN S[NT]

HasNext(t) == t <= Len(Log.thr) /\ pos[t] <= Len(Thr(t))
E(t) == Thr(t)[pos[t]]
PMatch(t) == HasNext(t) /\ E(t).kind = "P" /\ E(t).ret = CodeNextP(p)
CMatch(t) == HasNext(t) /\ E(t).kind = "C" /\ E(t).ret = CodeNextC(c)
AnyP == \E t \in Threads : PMatch(t)

TInit == /\ TKInit /\ Init /\ tid \in 1..NLogs /\ pos = [t \in Threads |-> 1]

TStep(t) == /\ \/ PMatch(t) /\ CallP(t)
               \/ CMatch(t) /\ CallC(t)
            /\ pos' = [pos EXCEPT ![t] = @ + 1]
            /\ UNCHANGED tid

TNext == \E t \in Threads : TStep(t)
TSpec == TInit /\ [][TNext]_tvars

Track == TKTrack(tid, Progress + 1, Done)
Report == TKReport
===============================================================================
