------------------------------- MODULE C12_Judge ------------------------------
(* Judges one facade built on a real table pair with a chosen output wiring (C12).
   record: outputs, all_devices, demands (code-point sequences), known = << [key, cls] ... >>
           (const.DEVICES), got = [pumps, blowers, lights] as << [dev, demand] ... >> in facade order,
           sensors_expected / sensors_got (names of the sensor entries whose item exists / built),
           keys (facade.devices), lookups (key of get_device(k) per k, <<>> for None),
           same (get_device(k) is that very device), uids (unique ids)                     *)
EXTENDS Facade, Json, IOUtils
Recs == ndJsonDeserialize(IOEnv.GV_RECS)
KnownSet(r) == { r.known[i].key : i \in 1..Len(r.known) }
ClassOf(r) == [k \in KnownSet(r) |-> (CHOOSE i \in 1..Len(r.known) : r.known[i].key = k)]
Cls(r, dev) == r.known[ClassOf(r)[dev]].cls
Expected(r, cls) ==
  LET uds == UserDevices(r.all_devices, r.outputs, r.demands, KnownSet(r)) IN
  FilterSeq(uds, LAMBDA u : Cls(r, u.dev) = cls)
Verdict(r) ==
  IF r.got.pumps # Expected(r, "PUMP") THEN "pumps-differ-from-wiring"
  ELSE IF r.got.blowers # Expected(r, "BLOWER") THEN "blowers-differ-from-wiring"
  ELSE IF r.got.lights # Expected(r, "LIGHT") THEN "lights-differ-from-wiring"
  ELSE IF r.sensors_got # r.sensors_expected THEN "sensors-differ-from-items"
  ELSE IF ~NoDup(r.keys) THEN "duplicate-automation-key"
  ELSE IF ~NoDup(r.uids) THEN "duplicate-unique-id"
  ELSE IF r.lookups # r.keys \/ \E i \in 1..Len(r.same) : ~r.same[i] THEN "lookup-returns-other-device"
  ELSE "ok"
Bad == { <<k, Verdict(Recs[k])>> : k \in { k \in 1..Len(Recs) : Verdict(Recs[k]) # "ok" } }
ASSUME PrintT(<<"GVBAD", Bad, Len(Recs)>>)
===============================================================================
