----------------------------- MODULE PartialUpdate -----------------------------
(* Unsolicited partial status updates (STATP) and their acknowledgement (STATQ), C05.

   Code:
     async : GeckoAsyncPartialStatusBlockProtocolHandler.async_handle  (long-lived
             handler; `changes` is re-initialised for every message) +
             GeckoAsyncSpa._async_on_partial_status_update (applies handler.changes)
     sync  : GeckoPartialStatusBlockProtocolHandler.handle (appends to `changes`) +
             GeckoSpa._on_partial_status_update (applies, then clears)
     both  : one STATQ per STATP, numbered from the protocol counter
     refresh: GeckoAsyncStructure.get / GeckoStructure install of a fetched range

   `spa` is the spa's own block (the truth a refresh fetches), `cli` the client's copy,
   `ref` the reference: what one gets by applying every reported change once, in arrival
   order, and every refresh.  Handler-internal state (`changes`) is modelled explicitly so
   that the historical bug class (stale or accumulating change lists) is expressible:
   ResetPolicy = "code" is the code as written, "never" is the negative control.      *)
EXTENDS Naturals, Sequences, FiniteSets, TLC

CONSTANTS NB,           \* block length
          Vals,         \* byte values
          Variant,      \* "async" | "sync"
          ResetPolicy,  \* "code" | "never"
          MaxSteps

VARIABLES cli, ref, spa,
          changes,      \* the handler's change list as left by the previous message
          pseq,         \* protocol sequence counter of the connection
          lastAck,      \* sequence number of the last STATQ sent (0 = none yet)
          acks, msgs,   \* counts
          steps

vars == <<cli, ref, spa, changes, pseq, lastAck, acks, msgs, steps>>
Pos == 0..(NB - 1)

CodeNextP(x) == IF x = 191 THEN 1 ELSE x + 1

\* a change record as carried by STATP: position + 2 data bytes; the simulator's single
\* 1-byte form is only well-formed as the sole record of a message
Rec2 == { [pos |-> p, data |-> <<a, b>>] : p \in 0..(NB - 2), a \in Vals, b \in Vals }
Rec1 == { [pos |-> p, data |-> <<a>>] : p \in Pos, a \in Vals }
Messages == {<<>>} \cup { <<r>> : r \in Rec1 \cup Rec2 } \cup { <<r, s>> : r \in Rec2, s \in Rec2 }

\* replace_status_block_segment(pos, data)
Patch(b, r) == [p \in Pos |-> IF p >= r.pos /\ p < r.pos + Len(r.data) THEN r.data[p - r.pos + 1] ELSE b[p]]
ApplyAll(b, chs) == LET F[i \in 0..Len(chs)] == IF i = 0 THEN b ELSE Patch(F[i-1], chs[i]) IN F[Len(chs)]

Init == /\ spa \in [Pos -> Vals] /\ cli = spa /\ ref = spa
        /\ changes = <<>> /\ pseq \in {0, 190} /\ lastAck = 0
        /\ acks = 0 /\ msgs = 0 /\ steps = 0

\* what the handler + client callback apply for an arriving message, and what the
\* handler's list holds afterwards
AppliedFor(m) ==
  IF Variant = "async"
  THEN (IF ResetPolicy = "code" THEN m ELSE changes \o m)
  ELSE changes \o m
LeftOver(m) ==
  IF Variant = "async" THEN AppliedFor(m)                 \* list stays until the next message
  ELSE (IF ResetPolicy = "code" THEN <<>> ELSE changes \o m)

\* the spa changes its block and reports it; the client receives the STATP
Msg(m) ==
  /\ steps < MaxSteps
  /\ spa' = ApplyAll(spa, m) /\ ref' = ApplyAll(ref, m)
  /\ pseq' = CodeNextP(pseq) /\ lastAck' = pseq' /\ acks' = acks + 1 /\ msgs' = msgs + 1
  /\ cli' = ApplyAll(cli, AppliedFor(m))
  /\ changes' = LeftOver(m)
  /\ steps' = steps + 1

\* the spa changes a byte without telling (the client learns it at the next refresh)
Silent(p, v) ==
  /\ steps < MaxSteps /\ spa[p] # v
  /\ spa' = [spa EXCEPT ![p] = v] /\ steps' = steps + 1
  /\ UNCHANGED <<cli, ref, changes, pseq, lastAck, acks, msgs>>

\* a full or ranged refresh installs the spa's bytes
Refresh(off, n) ==
  /\ steps < MaxSteps /\ off + n <= NB /\ n > 0
  /\ cli' = [p \in Pos |-> IF p >= off /\ p < off + n THEN spa[p] ELSE cli[p]]
  /\ ref' = [p \in Pos |-> IF p >= off /\ p < off + n THEN spa[p] ELSE ref[p]]
  /\ pseq' = CodeNextP(pseq)            \* the STATU request draws from the same counter
  /\ steps' = steps + 1
  /\ UNCHANGED <<spa, changes, lastAck, acks, msgs>>

Next == \/ \E m \in Messages : Msg(m)
        \/ \E p \in Pos, v \in Vals : Silent(p, v)
        \/ \E off \in Pos, n \in 1..NB : Refresh(off, n)
Spec == Init /\ [][Next]_vars

\* ---------------------------------------------------------------- properties
AppliedOnceInOrder == cli = ref
OneAckPerMessage == acks = msgs
AckInProtocolRange == lastAck = 0 \/ lastAck \in 1..191
===============================================================================
