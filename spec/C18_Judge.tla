------------------------------- MODULE C18_Judge ------------------------------
(* Judges the complete extraction of the shipped pack tables (C18).
   kinds:
     "item"  key, pos, shape                              -> ItemWellFormed
     "keys"  table, what, keys (advertised), tags (items of the table) -> every key names an item
     "name"  module, kind, declared (platform/version the module declares), expected
     "files" pack, cfg, log, key, dcfg, dlog, module      -> FILES naming round trip
     "connect" stack, pack, cfg, log, module, gpack, gcfg, glog -> the modules a real client loaded after
                                                           the spa reported this naming
     "pin"   key, pinned, current ("missing" or the record) -> immutability of published layouts *)
EXTENDS PackTables, Json, IOUtils
Recs == ndJsonDeserialize(IOEnv.GV_RECS)

ToSet(sq) == { sq[i] : i \in 1..Len(sq) }
\* module naming of the shipped tables: <platform>, <platform>-cfg-<n>, <platform>-log-<n>
CfgName(m, v) == m \o "-cfg-" \o ToString(v)
LogName(m, v) == m \o "-log-" \o ToString(v)
Verdict(r) ==
  CASE r.kind = "item"  -> IF ItemWellFormed(r) THEN "ok" ELSE WhyNot(r)
    [] r.kind = "keys"  -> IF ToSet(r.keys) \subseteq ToSet(r.tags) THEN "ok" ELSE "advertised-key-names-no-item"
    [] r.kind = "name"  -> IF r.declared = r.expected THEN "ok" ELSE "module-name-disagrees"
    [] r.kind = "files" -> IF r.dcfg = r.cfg /\ r.dlog = r.log /\ r.key = r.module THEN "ok" ELSE "files-naming"
    [] r.kind = "connect" -> IF r.gpack = r.module /\ r.gcfg = CfgName(r.module, r.cfg) /\ r.glog = LogName(r.module, r.log)
                             THEN "ok" ELSE "client-loads-other-modules-than-the-spa-reports"
    [] r.kind = "pin"   -> IF r.current = r.pinned THEN "ok" ELSE "published-layout-changed"
    [] OTHER -> "unknown-kind"
Bad == { <<k, Verdict(Recs[k])>> : k \in { k \in 1..Len(Recs) : Verdict(Recs[k]) # "ok" } }
ASSUME PrintT(<<"GVBAD", Bad, Len(Recs)>>)
===============================================================================
