SPECIFICATION Spec
INVARIANT Check
CHECK_DEADLOCK FALSE
