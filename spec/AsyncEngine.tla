----------------------------- MODULE AsyncEngine ------------------------------
(* The asyncio request engine and receive-queue dispatch of one connection (C06, C07).

   Code:
     GeckoAsyncUdpProtocol.get          async with Lock: while retry_count > 0: build a fresh
                                        request, send it, wait_for_response; on timeout
                                        retry_count -= 1 and config_sleep(pause)
     GeckoUdpProtocolHandler.wait_for_response / consume      poll the queue head every
                                        ASYNCIO_SLEEP_TIMEOUT_FOR_YIELD
     GeckoUnhandledProtocolHandler.consume                    mark the head, sleep one poll,
                                        pop it if still marked
     AsyncPeekableQueue                 head / mark / pop (pop clears the mark)
     GeckoAsyncSpa._async_on_packet     un-framed content is re-queued at the tail when the
                                        identifier pair is this connection's, dropped otherwise
     gates in GeckoAsyncSpa             is_connected / is_responding_to_pings, evaluated once
                                        when the call starts

   Time is counted in polls.  Every task that sleeps one poll runs once per tick, in an
   arbitrary order inside the tick (`todo`), and may be stalled (skips a tick) a bounded
   number of times.  Datagrams are records; their payload is opaque.                      *)
EXTENDS Naturals, Sequences, FiniteSets, TLC

CONSTANTS Callers,       \* request callers (each call = one protocol.get)
          Verb,          \* Verb[c]: the verb whose reply caller c accepts
          Gated,         \* callers whose API method checks the gates first
          R, T, P,       \* retry count, timeout and pause in polls
          MaxStall, MaxLost, MaxLate, MaxJunk,
          WithU          \* TRUE: the Unhandled consumer runs (FALSE only for negative controls)

VerbDef == [c \in {"c1", "c2", "c3"} |-> IF c = "c1" THEN "v1" ELSE IF c = "c2" THEN "v2" ELSE "v1"]
Consumers == {"U", "PK", "PS"}    \* Unhandled, Packet, Partial (RFErr / WCErr consumers behave like Partial: they pop only their own verb)
Tasks == Consumers \cup Callers

VARIABLES queue, marked, uph, todo, holder, lockQ, pc, tries, age, pausec, sent, got,
          net, lost, late, junk, stalls, headAge, lastPop, connected, pingFresh, gateOpen, el
vars == <<queue, marked, uph, todo, holder, lockQ, pc, tries, age, pausec, sent, got,
          net, lost, late, junk, stalls, headAge, lastPop, connected, pingFresh, gateOpen, el>>

\* ---------------------------------------------------------------- datagrams
\* [id, kind, verb, pair]   kind: "frame" | "reply" | "statp" | "rferr" | "wcerr" | "junk"
\* a frame carries an inner datagram (ikind, verb); pair = identifier pair is this connection's
Reply(v) == [kind |-> "reply", verb |-> v]
Accepts(t, d) ==
  CASE t = "U"  -> TRUE
    [] t = "PK" -> d.kind = "frame"
    [] t = "PS" -> d.kind = "statp"
    [] OTHER    -> d.kind = "reply" /\ d.verb = Verb[t]          \* a caller waiting for its verb

NoPop == [by |-> "none", kind |-> "none", age |-> 0, marked |-> FALSE, ok |-> TRUE]

Init ==
  /\ queue = <<>> /\ marked = FALSE /\ uph = "check"
  /\ todo = IF WithU THEN Consumers ELSE Consumers \ {"U"}
  /\ holder = "none" /\ lockQ = <<>>
  /\ pc = [c \in Callers |-> "idle"] /\ tries = [c \in Callers |-> R] /\ age = [c \in Callers |-> 0]
  /\ pausec = [c \in Callers |-> 0] /\ sent = [c \in Callers |-> 0] /\ got = [c \in Callers |-> "none"]
  /\ net = {} /\ lost = 0 /\ late = 0 /\ junk = 0 /\ stalls = 0 /\ headAge = 0
  /\ lastPop = NoPop /\ connected = TRUE /\ pingFresh = TRUE
  /\ gateOpen = [c \in Callers |-> TRUE]
  /\ el = [c \in Callers |-> 0]

\* ---------------------------------------------------------------- queue operations
PopBy(t) ==
  /\ lastPop' = [by |-> t, kind |-> Head(queue).kind, age |-> headAge, marked |-> marked, ok |-> Accepts(t, Head(queue))]
  /\ marked' = FALSE /\ headAge' = 0

\* ---------------------------------------------------------------- consumers
RunU ==
  /\ "U" \in todo /\ todo' = todo \ {"U"}
  /\ IF uph = "check"
     THEN IF queue # <<>>
          THEN marked' = TRUE /\ uph' = "after" /\ UNCHANGED <<queue, lastPop, headAge>>
          ELSE UNCHANGED <<marked, uph, queue, lastPop, headAge>>
     ELSE /\ uph' = "check"
          /\ IF marked /\ queue # <<>>
             THEN PopBy("U") /\ queue' = Tail(queue)
             ELSE UNCHANGED <<queue, marked, lastPop, headAge>>
  /\ UNCHANGED <<holder, lockQ, pc, tries, age, pausec, sent, got, net, lost, late, junk, stalls,
                 connected, pingFresh, gateOpen, el>>

RunK(t) ==      \* PK / PS
  /\ t \in todo /\ t \in Consumers \ {"U"} /\ todo' = todo \ {t}
  /\ IF queue # <<>> /\ Accepts(t, Head(queue))
     THEN /\ PopBy(t)
          /\ IF t = "PK" /\ Head(queue).pair
             THEN /\ queue' = Append(Tail(queue), [kind |-> Head(queue).ikind, verb |-> Head(queue).verb,
                                                 pair |-> TRUE, ikind |-> "none"])
             ELSE queue' = Tail(queue)                            \* wrong pair: dropped, no effect
     ELSE UNCHANGED <<queue, marked, lastPop, headAge>>
  /\ UNCHANGED <<uph, holder, lockQ, pc, tries, age, pausec, sent, got, net, lost, late, junk, stalls,
                 connected, pingFresh, gateOpen, el>>

\* ---------------------------------------------------------------- callers
\* the call of c ends with result r: release the lock; the first waiter (FIFO) acquires it and
\* runs on within this tick
Finish(c, r) ==
  /\ got' = [got EXCEPT ![c] = r]
  /\ IF lockQ = <<>>
     THEN /\ holder' = "none" /\ lockQ' = lockQ
          /\ pc' = [pc EXCEPT ![c] = "done"] /\ todo' = todo \ {c}
     ELSE /\ holder' = Head(lockQ) /\ lockQ' = Tail(lockQ)
          /\ pc' = [pc EXCEPT ![c] = "done", ![Head(lockQ)] = "send"]
          /\ todo' = (todo \ {c}) \cup {Head(lockQ)}

\* a call starts (any time): the gate is evaluated here, once
Start(c) ==
  /\ pc[c] = "idle" /\ got[c] = "none"
  /\ IF c \in Gated /\ ~(connected /\ pingFresh)
     THEN /\ pc' = [pc EXCEPT ![c] = "done"] /\ got' = [got EXCEPT ![c] = "refused"]
          /\ gateOpen' = [gateOpen EXCEPT ![c] = FALSE]
          /\ UNCHANGED <<holder, lockQ, todo>>
     ELSE /\ gateOpen' = [gateOpen EXCEPT ![c] = TRUE] /\ got' = got
          /\ IF holder = "none" /\ lockQ = <<>>
             THEN holder' = c /\ pc' = [pc EXCEPT ![c] = "send"] /\ todo' = todo \cup {c} /\ UNCHANGED lockQ
             ELSE lockQ' = Append(lockQ, c) /\ pc' = [pc EXCEPT ![c] = "waitlock"] /\ UNCHANGED <<holder, todo>>
  /\ UNCHANGED <<queue, marked, uph, tries, age, pausec, sent, net, lost, late, junk, stalls, headAge, lastPop, connected, pingFresh, el>>

\* fate of the reply to a transmitted request: lost, or delivered (framed, right pair) after d polls
Fates(c) ==
  { {} } \cup { { [dg |-> [kind |-> "frame", ikind |-> "reply", verb |-> Verb[c], pair |-> TRUE], d |-> d] } : d \in 0..1 }
         \cup { { [dg |-> [kind |-> "frame", ikind |-> "reply", verb |-> Verb[c], pair |-> TRUE], d |-> T + P + 1] } }
FateOk(f) == (f = {} => lost < MaxLost) /\ ((\E m \in f : m.d > 1) => late < MaxLate)

TryPop(c) == queue # <<>> /\ Accepts(c, Head(queue))

RunCaller(c) ==
  /\ c \in todo /\ c \in Callers
  /\ CASE pc[c] = "send" ->
            \E f \in Fates(c) :
              /\ FateOk(f)
              /\ lost' = IF f = {} THEN lost + 1 ELSE lost
              /\ late' = IF \E m \in f : m.d > 1 THEN late + 1 ELSE late
              /\ net' = net \cup { [dg |-> m.dg, d |-> m.d] : m \in f }
              /\ sent' = [sent EXCEPT ![c] = @ + 1]
              /\ age' = [age EXCEPT ![c] = 0]
              /\ IF TryPop(c)          \* wait_for_response looks at the head before its first sleep
                 THEN /\ PopBy(c) /\ queue' = Tail(queue) /\ Finish(c, "reply")
                 ELSE /\ pc' = [pc EXCEPT ![c] = "poll"] /\ todo' = todo \ {c}
                      /\ UNCHANGED <<queue, marked, lastPop, headAge, got, holder, lockQ>>
              /\ UNCHANGED <<tries, pausec>>
       [] pc[c] = "poll" ->
            /\ IF TryPop(c)
               THEN /\ PopBy(c) /\ queue' = Tail(queue) /\ Finish(c, "reply")
                    /\ UNCHANGED <<age, tries, pausec>>
               ELSE IF age[c] + 1 > T
                    THEN /\ tries' = [tries EXCEPT ![c] = @ - 1] /\ pausec' = [pausec EXCEPT ![c] = P]
                         /\ pc' = [pc EXCEPT ![c] = "pause"] /\ age' = [age EXCEPT ![c] = @ + 1]
                         /\ todo' = todo \ {c}
                         /\ UNCHANGED <<queue, marked, lastPop, headAge, got, holder, lockQ>>
                    ELSE /\ age' = [age EXCEPT ![c] = @ + 1] /\ todo' = todo \ {c}
                         /\ UNCHANGED <<queue, marked, lastPop, headAge, got, holder, lockQ, tries, pausec, pc>>
            /\ UNCHANGED <<net, lost, late, sent>>
       [] pc[c] = "pause" ->
            /\ IF pausec[c] > 1
               THEN /\ pausec' = [pausec EXCEPT ![c] = @ - 1] /\ todo' = todo \ {c}
                    /\ UNCHANGED <<pc, got, holder, lockQ>>
               ELSE IF tries[c] > 0
                    THEN /\ pc' = [pc EXCEPT ![c] = "send"] /\ pausec' = [pausec EXCEPT ![c] = 0]
                         /\ todo' = todo                        \* loops straight into the next attempt
                         /\ UNCHANGED <<got, holder, lockQ>>
                    ELSE /\ Finish(c, "fail") /\ pausec' = [pausec EXCEPT ![c] = 0]
            /\ UNCHANGED <<queue, marked, lastPop, headAge, age, tries, net, lost, late, sent>>
       [] OTHER -> FALSE
  /\ UNCHANGED <<uph, junk, stalls, connected, pingFresh, gateOpen, el>>

\* ---------------------------------------------------------------- environment
Deliver(m) == /\ m \in net /\ m.d = 0
              /\ queue' = Append(queue, [kind |-> m.dg.kind, verb |-> m.dg.verb, pair |-> m.dg.pair, ikind |-> m.dg.ikind])
              /\ net' = net \ {m}
              /\ headAge' = IF queue = <<>> THEN 0 ELSE headAge
              /\ UNCHANGED <<marked, uph, todo, holder, lockQ, pc, tries, age, pausec, sent, got, lost, late, junk,
                             stalls, lastPop, connected, pingFresh, gateOpen, el>>
\* unsolicited / unknown / mis-addressed / malformed traffic
JunkKinds == { [kind |-> "junk", ikind |-> "none", verb |-> "none", pair |-> TRUE],
               [kind |-> "statp", ikind |-> "none", verb |-> "none", pair |-> TRUE],
               [kind |-> "frame", ikind |-> "statp", verb |-> "none", pair |-> FALSE],
               [kind |-> "frame", ikind |-> "junk", verb |-> "none", pair |-> TRUE] }
Inject(j) == /\ junk < MaxJunk /\ junk' = junk + 1
             /\ queue' = Append(queue, [kind |-> j.kind, verb |-> j.verb, pair |-> j.pair, ikind |-> j.ikind])
             /\ headAge' = IF queue = <<>> THEN 0 ELSE headAge
             /\ UNCHANGED <<marked, uph, todo, holder, lockQ, pc, tries, age, pausec, sent, got, net, lost, late,
                            stalls, lastPop, connected, pingFresh, gateOpen, el>>
Stall(t) == /\ t \in todo /\ stalls < MaxStall /\ todo' = todo \ {t} /\ stalls' = stalls + 1
            /\ UNCHANGED <<queue, marked, uph, holder, lockQ, pc, tries, age, pausec, sent, got, net, lost, late, junk,
                           headAge, lastPop, connected, pingFresh, gateOpen, el>>
Polling == (IF WithU THEN Consumers ELSE Consumers \ {"U"}) \cup { c \in Callers : pc[c] \in {"send", "poll", "pause"} }
Tick == /\ todo = {}
        /\ todo' = Polling
        /\ net' = { [m EXCEPT !.d = IF @ > 0 THEN @ - 1 ELSE 0] : m \in net }
        /\ headAge' = IF queue = <<>> THEN 0 ELSE headAge + 1
        /\ UNCHANGED <<queue, marked, uph, holder, lockQ, pc, tries, age, pausec, sent, got, lost, late, junk, stalls,
                       lastPop, connected, pingFresh, gateOpen>>
        /\ el' = [c \in Callers |-> IF pc[c] \in {"send", "poll", "pause"} THEN el[c] + 1 ELSE el[c]]
Health == /\ \E cn \in BOOLEAN, pf \in BOOLEAN : connected' = cn /\ pingFresh' = pf /\ (cn # connected \/ pf # pingFresh)
          /\ UNCHANGED <<queue, marked, uph, todo, holder, lockQ, pc, tries, age, pausec, sent, got, net, lost, late, junk,
                         stalls, headAge, lastPop, gateOpen, el>>

Next == \/ RunU \/ (\E t \in Consumers \ {"U"} : RunK(t)) \/ (\E c \in Callers : RunCaller(c) \/ Start(c))
        \/ (\E m \in net : Deliver(m)) \/ (\E j \in JunkKinds : Inject(j)) \/ (\E t \in Tasks : Stall(t)) \/ Tick
NextH == Next \/ Health
Spec == Init /\ [][Next]_vars
SpecH == Init /\ [][NextH]_vars
FairSpec == Spec /\ WF_vars(Tick) /\ \A t \in Tasks : WF_vars(RunU \/ (\E k \in Consumers \ {"U"} : RunK(k)) \/ RunCaller(t))

\* ---------------------------------------------------------------- properties (C06)
Busy(c) == pc[c] \in {"send", "poll", "pause"}
MutualExclusion == \A a, b \in Callers : (Busy(a) /\ Busy(b)) => a = b
HolderIsTheBusyOne == \A c \in Callers : Busy(c) => holder = c
AttemptsBounded == \A c \in Callers : sent[c] <= R
ReplyOnlyIfDelivered == \A c \in Callers : got[c] = "reply" => sent[c] >= 1
FailOnlyAfterAllAttempts == \A c \in Callers : got[c] = "fail" => sent[c] = R
GateRespected == \A c \in Callers : ~gateOpen[c] => (sent[c] = 0 /\ got[c] = "refused")
\* real-time bound on the polling grid: a call that holds the lock finishes within R*(T+P) + R + 1 polls
CallBound == \A c \in Callers : el[c] <= R * (T + P) + R + 1
\* ---------------------------------------------------------------- properties (C07)
CapablePopper == lastPop.ok
UnhandledOnlyMarked == lastPop.by = "U" => lastPop.marked
NoHeadOfLine == headAge <= 3 + stalls
\* witness query (expected to be REFUTED): the Unhandled consumer never discards a framed packet
UNeverStealsFrame == ~(lastPop.by = "U" /\ lastPop.kind = "frame")
UNeverStealsReply == ~(lastPop.by = "U" /\ lastPop.kind = "reply")
AllDone == \A c \in Callers : pc[c] \in {"idle", "done"}
EveryCallReturns == \A c \in Callers : (pc[c] # "idle") ~> (pc[c] = "done")
===============================================================================
