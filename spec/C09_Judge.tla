------------------------------- MODULE C09_Judge ------------------------------
(* Judges the measured outcome of real self-healing scenarios (C09); the event log of the
   same run is validated separately against Lifecycle_Trace.
   record: healthy_from (ms at which the network became and stayed healthy, -1 if it never was
           unhealthy), connected_at (first ms >= healthy_from at which the manager was CONNECTED with
           a facade, -1 if never), bound (ms, from the live configuration), final, pump_alive,
           mirrors (client block = spa block at the end), out_from (ms a blackout started while
           CONNECTED, -1 if none), left_at (first ms >= out_from at which the state was not CONNECTED),
           out_len (ms the blackout lasted), out_bound, configured (spa identifier given)                                        *)
EXTENDS Integers, Sequences, TLC, Json, IOUtils
Recs == ndJsonDeserialize(IOEnv.GV_RECS)
Verdict(r) ==
  IF ~r.pump_alive THEN "sequence-pump-died"
  ELSE IF r.configured /\ (r.connected_at < 0 \/ r.final # "CONNECTED") THEN "not-connected-after-network-healed"
  ELSE IF r.configured /\ r.connected_at - (IF r.healthy_from < 0 THEN 0 ELSE r.healthy_from) > r.bound THEN "reconnect-took-longer-than-bound"
  ELSE IF r.configured /\ ~r.mirrors THEN "facade-does-not-mirror-spa"
  ELSE IF r.out_from >= 0 /\ r.out_len >= r.out_bound /\ (r.left_at < 0 \/ r.left_at - r.out_from > r.out_bound) THEN "unreachable-spa-not-reported-in-time"
  ELSE "ok"
Bad == { <<k, Verdict(Recs[k])>> : k \in { k \in 1..Len(Recs) : Verdict(Recs[k]) # "ok" } }
ASSUME PrintT(<<"GVBAD", Bad, Len(Recs)>>)
===============================================================================
