---------------------------- MODULE Discovery_Trace ---------------------------
(* Trace validation of real GeckoAsyncLocator.discover() runs on the virtual loop, and of the blocking
   GeckoLocator.start_discovery(True) on the stepped engine (ListsAll = TRUE).
   Times are virtual milliseconds since the locator's endpoint was opened.  Events:
     [k |-> "arrive", id, spa, t]                  a hello reply entered the receive queue
     [k |-> "pop", id, t]                          the hello consumer took it (queue wrapper)
     [k |-> "disc", spa, name, ip, port, t]        LOCATING_DISCOVERED_SPA delivered
     [k |-> "ret", t, spas, closed, loctasks]      discover() returned
   Log header: resp = [spa |-> [name, ip, port]] for every responder.                   *)
EXTENDS Discovery, TraceKit

CONSTANT Eps
VARIABLES tid, l, headSince, pending
\* headSince: time at which the current head of the queue became the head
\* pending  : spa whose LOCATING_DISCOVERED_SPA must be the next event ("" = none)
tvars == <<vars, tid, l, headSince, pending>>
Log == Logs[tid]
Ev == Log.ev
E == Ev[l]
More == l <= Len(Ev)
Step == l' = l + 1 /\ UNCHANGED tid

TInit == /\ TKInit /\ tid \in 1..NLogs /\ l = 1 /\ Init /\ headSince = 0 /\ pending = ""

\* the head of the queue never waits longer than one poll (the consumer is alive and takes
\* one reply per wake-up)
\* Log.late: the largest lateness of a loop wake-up in this run (a loaded host), 0 for an exact loop
HeadOk(t) == queue = <<>> \/ t - headSince <= Poll + Eps + Log.hd + Log.late
At(t) == t >= now /\ HeadOk(t) /\ now' = t

TArrive == /\ More /\ E.k = "arrive" /\ pending = "" /\ At(E.t)
           /\ queue' = Append(queue, [id |-> E.id, spa |-> E.spa])
           /\ headSince' = IF queue = <<>> THEN E.t ELSE headSince
           /\ arrivals' = arrivals + 1
           /\ UNCHANGED <<seen, spas, found, nextC, nextD, phase, ret, consumedAt, foundAt, pending>> /\ Step
TPop == /\ More /\ E.k = "pop" /\ pending = "" /\ At(E.t)
        /\ queue # <<>> /\ Head(queue).id = E.id               \* FIFO
        /\ LET s == Head(queue).spa IN
           /\ queue' = Tail(queue) /\ headSince' = E.t
           /\ IF s \in seen \/ ~Wanted(s)
              THEN UNCHANGED <<seen, spas, found, consumedAt, foundAt, pending>>
              ELSE /\ seen' = seen \cup {s} /\ spas' = Append(spas, s) /\ found' = (found \/ Finds(s))
                   /\ foundAt' = (IF ~found /\ Finds(s) THEN E.t ELSE foundAt)
                   /\ consumedAt' = [consumedAt EXCEPT ![s] = E.t] /\ pending' = s
        /\ UNCHANGED <<nextC, nextD, phase, ret, arrivals>> /\ Step
TDisc == /\ More /\ E.k = "disc" /\ pending = E.spa /\ E.t = now
         /\ E.name = Log.resp[E.spa].name /\ E.ip = Log.resp[E.spa].ip /\ E.port = Log.resp[E.spa].port
         /\ pending' = "" /\ UNCHANGED <<vars, headSince>> /\ Step
TRet == /\ More /\ E.k = "ret" /\ pending = "" /\ E.t >= now /\ HeadOk(E.t)
        /\ E.spas = spas                                        \* listed = discovered, in order, once each
        /\ E.closed /\ E.loctasks = 0
        /\ IF spas = <<>> THEN E.t >= Timeout /\ E.t <= Timeout + Poll + Eps + Log.late
           ELSE IF found THEN E.t <= foundAt + Log.hd + Poll + Eps + Log.late   \* has_found_spa is set after the client handler returns
           ELSE LET t1 == consumedAt[spas[1]]  base == IF t1 > Initial THEN t1 ELSE Initial IN
                E.t > Initial - Eps /\ E.t <= base + Poll + Eps + Log.late
        /\ phase' = "done" /\ ret' = E.t /\ now' = E.t
        /\ UNCHANGED <<queue, seen, spas, found, nextC, nextD, arrivals, consumedAt, foundAt, headSince, pending>> /\ Step

TNext == TArrive \/ TPop \/ TDisc \/ TRet
TSpec == TInit /\ [][TNext]_tvars
Track == /\ TKTrack(tid, l, l > Len(Ev))
         /\ (~NoDuplicates => TKWhy(tid, "NoDuplicates")) /\ (~OnlyRequested => TKWhy(tid, IF ListsAll THEN "KF:ListsAll" ELSE "OnlyRequested"))
         /\ NoDuplicates /\ (OnlyRequested \/ ListsAll)
Report == TKReport
===============================================================================
