------------------------------- MODULE C19_Judge ------------------------------
(* Judges snapshot round trips (C19).
   kinds:
     "snap"   written = [name, en, co, pack, cfg, log, bytes]   what the shell's snapshot command logged
              parsed  = << the same record per parsed snapshot >> from parse_log_file on that text
              lines   = abstract classes of the surrounding lines (for the record)
     "conn"   block (the spa's bytes), seg (segment size), parsed = << snapshots >>, cfg, log, en, co
     "load"   file, index, bytes (parsed snapshot), served (client block after a full handshake
              against a simulator that loaded it), stack ("async"|"sync"), connected,
              lossy (the simulator's own reliability factor was < 1: then the handshake may
              fail, but a client that does connect must hold the snapshot's bytes)           *)
EXTENDS SnapshotLog, Json, IOUtils
Recs == ndJsonDeserialize(IOEnv.GV_RECS)
Verdict(r) ==
  CASE r.kind = "snap" -> IF r.parsed = r.expect THEN "ok" ELSE "snapshot-log-does-not-parse-back"
    [] r.kind = "conn" -> IF Len(r.parsed) >= 1 /\ r.parsed[Len(r.parsed)].bytes = r.block
                             /\ r.parsed[Len(r.parsed)].cfg = r.cfg /\ r.parsed[Len(r.parsed)].log = r.log
                          THEN "ok" ELSE "traffic-log-does-not-reassemble"
    [] r.kind = "session" -> IF r.parsed_back = r.expected THEN "ok" ELSE "snapshot-log-does-not-parse-back"
    [] r.kind = "load" -> IF Len(r.bytes) = 1024 /\ (r.connected \/ r.lossy) /\ (r.connected => r.served = r.bytes)
                          THEN "ok" ELSE "shipped-snapshot-not-served-unchanged"
    [] OTHER -> "unknown-kind"
Bad == { <<k, Verdict(Recs[k])>> : k \in { k \in 1..Len(Recs) : Verdict(Recs[k]) # "ok" } }
ASSUME PrintT(<<"GVBAD", Bad, Len(Recs)>>)
===============================================================================
