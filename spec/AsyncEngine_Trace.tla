-------------------------- MODULE AsyncEngine_Trace ---------------------------
(* Trace validation of real connections (GeckoAsyncSpa + its consumer tasks, ping/refresh/
   facade loops and harness-started API calls on the virtual loop) against the request
   engine / dispatch rules of AsyncEngine (C06, C07).  Every event carries its arguments, so
   validation is linear.  Times are virtual milliseconds.  Events:

     [k |-> "call", c, gate, gated, t]          an API call starts in task c (gate = connected and
                                                 answering pings at that instant)
     [k |-> "send", c, verb, seq, t]            task c put a request datagram on the wire
     [k |-> "put", id, kind, verb, pair, wf, requeue, t]   a datagram entered the receive queue (requeue:
                                                 put by the Packet consumer; wf: framing well formed)
                                                 kind: "frame"|"inner"|"junk"; verb of the (inner) content
     [k |-> "mark", id, by, t]                  queue.mark()
     [k |-> "pop", id, by, cls, t]              queue.pop() by task `by` of class cls
                                                 ("U","PK","PS","RF","WC","caller")
     [k |-> "ret", c, result, t]                the call returned: "reply" | "fail" | "refused" | "raised" (an exception)
     [k |-> "inert", same, t]                   state comparison around mis-addressed traffic
     [k |-> "down", t]                          the connection's transport was lost (connection_lost ran): nothing
                                                 can be sent any more, the manager tears the consumers down;
                                                 calls still in progress spend their remaining attempts silently
   Header: R, T, P, Poll (ms), Eps.                                                        *)
EXTENDS Integers, Sequences, FiniteSets, TLC, TraceKit

CONSTANTS R, T, P, Poll, Eps

VARIABLES tid, l, queue, marked, headSince, out, calls, order, now, pk, stallAcc, headStall, down
\* stallAcc  : total lateness of loop wake-ups so far (event-loop stalls are logged by the harness)
\* headStall : stallAcc when the current queue head became the head
\* pk        : the frame the Packet consumer popped last and has not yet re-queued ([ok, verb] or NoPk)
\* queue     : <<[id, kind, verb, pair]>>
\* out       : the outstanding request [c, verb, seq, t, popped] or NoReq
\* calls     : function task -> [active, gate, gated, attempts, first, gotreply, lastseq, arrived]
\* order     : sequence of tasks with a started, gate-passing call that has not returned (arrival order)
tvars == <<tid, l, queue, marked, headSince, out, calls, order, now, pk, stallAcc, headStall, down>>
NoPk == [ok |-> FALSE, verb |-> ""]
Log == Logs[tid]
Ev == Log.ev
E == Ev[l]
More == l <= Len(Ev)
Step == l' = l + 1 /\ UNCHANGED <<tid, down>>

NoReq == [c |-> "", verb |-> "", seq |-> -1, t |-> 0, popped |-> FALSE]
NoCall == [active |-> FALSE, gate |-> TRUE, gated |-> FALSE, attempts |-> 0, first |-> 0, gotreply |-> FALSE, lastseq |-> -1, stall0 |-> 0]
TaskNames == { Ev[i].c : i \in { j \in 1..Len(Ev) : Ev[j].k \in {"call", "send", "ret"} } }

ReplyVerb(v) ==
  CASE v = "APING" -> "APING" [] v = "AVERS" -> "SVERS" [] v = "CURCH" -> "CHCUR" [] v = "SFILE" -> "FILES"
    [] v = "STATU" -> "STATV" [] v = "SPACK" -> "PACKS" [] v = "GETWC" -> "WCGET" [] v = "SETWC" -> "WCSET"
    [] v = "REQRM" -> "RMREQ" [] OTHER -> "?"
Sequenced(v) == v \notin {"APING"}

Accepts(cls, d, by) ==
  CASE cls = "U"  -> TRUE
    [] cls = "PK" -> d.kind = "frame"
    [] cls = "PS" -> d.kind = "inner" /\ d.verb \in {"STATP", "STATQ"}
    [] cls = "RF" -> d.kind = "inner" /\ d.verb = "RFERR"
    [] cls = "WC" -> d.kind = "inner" /\ d.verb = "WCERR"
    [] OTHER      -> /\ d.kind = "inner"
                     /\ \/ out.c = by /\ d.verb = ReplyVerb(out.verb)
                        \* after the transport was lost the attempts of the call whose turn it is leave no trace on the
                        \* wire, but its handler still waits at the queue and takes what is there (a late duplicate)
                        \/ down /\ by \in TaskNames /\ calls[by].active /\ order # <<>> /\ Head(order) = by

TInit == /\ TKInit /\ tid \in 1..NLogs /\ l = 1
         /\ queue = <<>> /\ marked = FALSE /\ headSince = 0 /\ out = NoReq
         /\ calls = [c \in TaskNames |-> NoCall] /\ order = <<>> /\ now = 0 /\ pk = NoPk /\ stallAcc = 0 /\ headStall = 0
         /\ down = FALSE

\* no datagram stays at the head for more than a few polls
HeadOk(t) == down \/ queue = <<>> \/ t - headSince <= 3 * Poll + Eps + (stallAcc - headStall)
At(t) == t >= now /\ HeadOk(t) /\ now' = t

TCall == /\ More /\ E.k = "call" /\ At(E.t)
         /\ ~calls[E.c].active
         /\ calls' = [calls EXCEPT ![E.c] = [NoCall EXCEPT !.active = TRUE, !.gate = E.gate, !.gated = E.gated]]
         /\ order' = IF E.gated /\ ~E.gate THEN order ELSE Append(order, E.c)
         /\ UNCHANGED <<queue, marked, headSince, out, pk, stallAcc, headStall>> /\ Step

\* background tasks (ping, refresh, facade update) call the engine without the harness seeing the
\* call boundaries: their first send opens an implicit call
Explicit(c) == calls[c].active
TSend ==
  /\ More /\ E.k = "send" /\ At(E.t)
  /\ ~down                                       \* nothing is handed to a transport that is gone
  /\ LET c == E.c  cl == calls[c] IN
     \* a gated call whose gate was closed when it started sends nothing
     /\ ~(Explicit(c) /\ cl.gated /\ ~cl.gate)
     \* one request outstanding at a time: another task's request must have been answered or timed out
     /\ (out.c # "" /\ out.c # c) => (out.popped \/ E.t - out.t > T - Eps)
     \* arrival order: an explicit call sends only when every call that arrived before it has returned
     /\ Explicit(c) => (order # <<>> /\ Head(order) = c)
     \* bounded attempts, each freshly built
     /\ Explicit(c) => cl.attempts < R
     /\ (Explicit(c) /\ Sequenced(E.verb) /\ cl.attempts > 0) => E.seq # cl.lastseq
     /\ calls' = [calls EXCEPT ![c] = [cl EXCEPT !.attempts = @ + 1, !.lastseq = E.seq,
                                                 !.first = IF cl.attempts = 0 THEN E.t ELSE @,
                                                 !.stall0 = IF cl.attempts = 0 THEN stallAcc ELSE @]]
     /\ out' = [c |-> c, verb |-> E.verb, seq |-> E.seq, t |-> E.t, popped |-> FALSE]
  /\ UNCHANGED <<queue, marked, headSince, order, pk, stallAcc, headStall>> /\ Step

\* a datagram enters the queue from the network, or is the un-framed content of the frame the
\* Packet consumer has just taken (only if that frame was well formed and carried this
\* connection's identifier pair; its content verb is the frame's)
TPut == /\ More /\ E.k = "put" /\ At(E.t)
        \* only the network and the Packet consumer put datagrams into the queue: no consumer hands back what it took
        /\ ("by" \in DOMAIN E) => (E.requeue \/ E.by = "-")
        /\ IF E.requeue
           THEN pk.ok /\ pk.verb = E.verb /\ pk' = NoPk
           ELSE UNCHANGED pk
        /\ queue' = Append(queue, [id |-> E.id, kind |-> E.kind, verb |-> E.verb, pair |-> E.pair, wf |-> E.wf])
        /\ headSince' = IF queue = <<>> THEN E.t ELSE headSince
        /\ headStall' = IF queue = <<>> THEN stallAcc ELSE headStall
        /\ UNCHANGED <<marked, out, calls, order, stallAcc>> /\ Step
TMark == /\ More /\ E.k = "mark" /\ At(E.t)
         /\ queue # <<>> /\ Head(queue).id = E.id
         /\ marked' = TRUE
         /\ UNCHANGED <<queue, headSince, out, calls, order, pk, stallAcc, headStall>> /\ Step
TPop == /\ More /\ E.k = "pop" /\ At(E.t)
        /\ queue # <<>> /\ Head(queue).id = E.id                    \* exactly once, in order
        \* only by a consumer that accepts it; a consumer task whose callback issues a request of
        \* its own (water-care error -> query) pops the reply as a caller
        /\ (Accepts(E.cls, Head(queue), E.by) \/ Accepts("caller", Head(queue), E.by))
        /\ (E.cls = "U") => marked                                  \* Unhandled only pops what it marked
        /\ queue' = Tail(queue) /\ marked' = FALSE /\ headSince' = E.t /\ headStall' = stallAcc
        /\ pk' = IF E.cls = "PK" THEN [ok |-> Head(queue).pair /\ Head(queue).wf, verb |-> Head(queue).verb] ELSE pk
        /\ IF Accepts("caller", Head(queue), E.by) /\ ~(E.cls # "caller" /\ Accepts(E.cls, Head(queue), E.by))
           THEN /\ out' = [out EXCEPT !.popped = TRUE]
                /\ calls' = [calls EXCEPT ![E.by].gotreply = TRUE]
           ELSE UNCHANGED <<out, calls>>
        /\ UNCHANGED <<order, stallAcc>> /\ Step
TRet == /\ More /\ E.k = "ret" /\ At(E.t)
        /\ LET cl == calls[E.c] IN
           /\ cl.active
           \* (a call that its owner cancelled ends whenever the owner says so: nothing is demanded of it)
           /\ (cl.gated /\ ~cl.gate /\ E.result # "cancelled") => (E.result = "refused" /\ cl.attempts = 0)
           /\ E.result = "reply" => cl.gotreply                     \* a reply only if one was delivered to it
           \* (after the transport was lost the remaining attempts leave no trace on the wire)
           /\ E.result = "fail" => (~cl.gotreply /\ (cl.attempts = R \/ (down /\ cl.attempts <= R)))
           /\ E.result = "refused" => cl.attempts = 0
           \* an API call may end with an exception only because the connection went away underneath it
           /\ E.result = "raised" => down
           \* finishes within retry-count x (timeout + pause), on the polling grid
           /\ (cl.attempts > 0 /\ E.result # "cancelled") => E.t - cl.first <= R * (T + P) + R * Poll + Eps + (stallAcc - cl.stall0)
        /\ calls' = [calls EXCEPT ![E.c] = NoCall]
        /\ order' = SelectSeq(order, LAMBDA x : x # E.c)
        /\ out' = IF out.c = E.c THEN NoReq ELSE out
        /\ UNCHANGED <<queue, marked, headSince, pk, stallAcc, headStall>> /\ Step

\* mis-addressed / malformed traffic was injected since the last such event: the client's state
\* (structure bytes, observer callbacks, manager events) must be what it was
TInert == /\ More /\ E.k = "inert" /\ At(E.t) /\ E.same
          /\ UNCHANGED <<queue, marked, headSince, out, calls, order, pk, stallAcc, headStall>> /\ Step

\* the loop woke up d ms late (a stalled event loop): every bound that spans this moment moves by d
TStall == /\ More /\ E.k = "stall" /\ E.t >= now /\ now' = E.t /\ stallAcc' = stallAcc + E.d
          /\ UNCHANGED <<queue, marked, headSince, out, calls, order, pk, headStall>> /\ Step

TDown == /\ More /\ E.k = "down" /\ E.t >= now /\ now' = E.t /\ down' = TRUE
         /\ UNCHANGED <<queue, marked, headSince, out, calls, order, pk, stallAcc, headStall, tid>> /\ l' = l + 1

\* the refresh loop starts a cycle's status request (its call boundary is visible to the harness): like every query it
\* starts only while the spa is connected and answering pings
TBg == /\ More /\ E.k = "bgcall" /\ E.t >= now /\ now' = E.t
       /\ E.gate
       /\ UNCHANGED <<queue, marked, headSince, out, calls, order, pk, stallAcc, headStall, down, tid>> /\ l' = l + 1

TNext == TCall \/ TSend \/ TPut \/ TMark \/ TPop \/ TRet \/ TInert \/ TStall \/ TDown \/ TBg
TSpec == TInit /\ [][TNext]_tvars
Track == TKTrack(tid, l, l > Len(Ev))
Report == TKReport
===============================================================================
