SPECIFICATION Spec
CONSTANTS NT = 2
          Atomic = TRUE
          MaxCalls = 0
INVARIANT TypeOK
INVARIANT RangeP
INVARIANT RangeC
INVARIANT NeverZero
INVARIANT SuccP
INVARIANT SuccC
PROPERTY Independent
CHECK_DEADLOCK FALSE
