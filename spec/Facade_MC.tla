------------------------------- MODULE Facade_MC ------------------------------
(* Design-level check of the inventory function over every wiring of 3 outputs onto 6
   labels (incl. the same device on several outputs, issue #3) and a table with a device
   that has no demand, a demand spelled in a different case, and an unknown device:
   no duplicates, presence iff wired, order = table order.                              *)
EXTENDS Facade
P1 == <<80, 49>>      P2 == <<80, 50>>     BL == <<66, 76>>    LI == <<76, 73>>    O3 == <<79, 51>>   L120 == <<76, 49, 50, 48>>
Labels == { NA, <<80, 49, 72>>, <<80, 49, 76>>, <<80, 50, 72>>, <<66, 76, 79>>, <<76, 73>>, <<79, 51>>, <<76, 49, 50, 48>> }
AllDevices == <<P1, P2, BL, O3, L120, LI>>
Demands == << UD \o P1, UD \o P2, UD \o BL, <<85, 100, 76, 105>>, UD \o L120 >>      \* "UdLi" vs device "LI"
Known == {P1, P2, BL, LI}
Wirings == [1..3 -> Labels]
Inv ==
  \A w \in Wirings :
    LET outs == <<w[1], w[2], w[3]>>
        act == ActualDevices(AllDevices, outs)
        uds == UserDevices(AllDevices, outs, Demands, Known) IN
    /\ NoDup(act)
    /\ \A d \in {AllDevices[i] : i \in 1..Len(AllDevices)} :
         (\E i \in 1..Len(act) : act[i] = d) <=> (\E k \in 1..3 : outs[k] # NA /\ IsPrefixOf(d, outs[k]))
    /\ NoDup([i \in 1..Len(uds) |-> uds[i].dev])
    /\ \A i \in 1..Len(uds) : uds[i].dev \in Known /\ HasDemand(uds[i].dev, Demands)
    /\ (\E k \in 1..3 : outs[k] = <<76, 73>>) <=> (\E i \in 1..Len(uds) : uds[i].dev = LI)   \* "UdLi" matches "LI"
    /\ \A i \in 1..Len(uds) : uds[i].dev # L120                                             \* demand but not a known device
VARIABLE done
Init == done = FALSE
Next == ~done /\ done' = TRUE
Spec == Init /\ [][Next]_done
Check == done => Inv
===============================================================================
