SPECIFICATION LSpec
CONSTANTS MaxEp = 2
          MaxSusp = 0
          MaxReset = 1
          MaxNet = 2
          MaxBg = 1
          HasId = TRUE
          KF_PumpDies = FALSE
          KF_LateComplete = FALSE
          KF_NotFound = TRUE
          Unreliable = FALSE
          AllowExit = FALSE
          MaxSockFail = 0
          MaxRF = 0
          KF_Overtake = TRUE
PROPERTY LHeals
PROPERTY RefinesLifecycle
CHECK_DEADLOCK FALSE
