SPECIFICATION Spec
CONSTANTS Ids = {"t1", "t2", "t3"}
          Keys = {"A", "B"}
          KeyOf <- KeyDef
          TidyAtomic = TRUE
INVARIANT NoOrphan
PROPERTY CancelIsComplete
CHECK_DEADLOCK FALSE
