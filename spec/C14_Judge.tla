------------------------------- MODULE C14_Judge ------------------------------
(* Judges records of the real temperature accessor and water-heater object (C14).

   kinds:
     "read"   raw, unit, num, den            shown value of raw (float projected to num/den)
     "write"  raw, unit, path, outcome, word writing the shown value of `raw` (read-back exactness)
     "dec"    unit, num, den, path, outcome, word      writing the decimal num/den
     "order"  unit, n1, n2, den, w1, w2      two decimals n1/den < n2/den and the words written
     "unit"   label, symbol ("degC"|"degF"), min, max
     "op"     heat, cool (records [present, type, raw, label]), cmp (-1|0|1: current vs real
              target, raw words), got ("Heating"|"Cooling"|"Idle")                          *)
EXTENDS BitField, Json, IOUtils

Recs == ndJsonDeserialize(IOEnv.GV_RECS)

On(f) == IF f.type = "Bool" THEN f.raw = 1 ELSE f.label \notin {"OFF", ""}
ByTemps(c) == IF c < 0 THEN "Heating" ELSE IF c > 0 THEN "Cooling" ELSE "Idle"
Operation(h, c, cmp) ==
  IF h.present /\ c.present
  THEN (IF On(h) THEN "Heating" ELSE IF On(c) THEN "Cooling" ELSE "Idle")
  ELSE IF h.present /\ On(h) THEN "Heating"
  ELSE IF c.present /\ On(c) THEN "Cooling"
  ELSE ByTemps(cmp)

Ok(r) ==
  CASE r.kind = "read"  -> ShownIs(r.raw, r.unit, r.num, r.den)
    [] r.kind = "write" -> r.outcome = "write" /\ r.word = r.raw
    [] r.kind = "dec"   -> /\ r.outcome = "write" /\ r.word >= 0 /\ r.word <= 65535
                           /\ WithinOneStep(r.word, r.unit, r.num, r.den)
                           /\ r.word \in {Stored(r.unit, r.num, r.den) - 1, Stored(r.unit, r.num, r.den),
                                          Stored(r.unit, r.num, r.den) + 1}
    [] r.kind = "order" -> r.w1 <= r.w2
    [] r.kind = "rowrite" -> r.outcome = "refused"           \* an item without write permission refuses, on both paths
    [] r.kind = "unit"  -> IF r.label = "C" THEN r.symbol = "degC" /\ r.min = 15 /\ r.max = 40
                           ELSE r.symbol = "degF" /\ r.min = 59 /\ r.max = 104
    [] r.kind = "op"    -> r.got = Operation(r.heat, r.cool, r.cmp)
    [] OTHER -> FALSE

Bad == { <<k, Recs[k].kind>> : k \in { k \in 1..Len(Recs) : ~Ok(Recs[k]) } }
ASSUME PrintT(<<"GVBAD", Bad, Len(Recs)>>)

\* design-level laws on the complete raw domain are in C14_MC
===============================================================================
