------------------------------- MODULE C02_Judge ------------------------------
(* Judges records of real accessor writes (both write paths) against BitField.

   record:
     shape, pos, existing (word of the item's field before), path ("sync"|"async"),
     maxitems (the table's MaxItems declaration, 0 when absent),
     api  = [k |-> "label"|"bool"|"int"|"strint"|"strbool"|"time"|"temp", n, hh, mm, unit]
            the value handed to the API (labels by their first index; "temp": the shown value
            of raw word n in the given unit),
     outcome = "write" | "refused" | "raised:<type>",
     em = [pos, len, word]   the device write handed to the structure,
     after   = word of the field after applying the write to the block,
     rb      = read-back API value, same encoding as api ("label" n = -1 for "Unknown"),
     outside = TRUE iff every byte outside the field's bytes is unchanged,
     others  = number of other items of the same table, not sharing a bit with this item,
               whose value changed                                                     *)
EXTENDS BitField, Json, IOUtils

Recs == ndJsonDeserialize(IOEnv.GV_RECS)

Enc(s, a) == IF a.k = "time" THEN TimeRaw(a.hh, a.mm) ELSE a.n

Clauses(r) ==
  LET s == r.shape IN
  IF s.rw = "none"
  THEN << <<"refuses-write", r.outcome = "refused">> >>
  ELSE LET v == Enc(s, r.api) IN
       << <<"mask-derivation", IsSub(s) => s.mask = MaskOf(TRUE, r.maxitems)>>,
          <<"writes", r.outcome = "write">>,
          <<"write-addresses-own-field", r.outcome = "write" => (r.em.pos = r.pos /\ r.em.len = s.len)>>,
          <<"device-write-word", r.outcome = "write" => r.em.word = Write(r.existing, s, v)>>,
          <<"fits-field", r.outcome = "write" => (r.em.word >= 0 /\ r.em.word <= FieldMax(s.len))>>,
          <<"applied", r.outcome = "write" => r.after = r.em.word>>,
          <<"reads-back", r.outcome = "write" =>
               IF r.api.k = "time" THEN r.rb.hh = r.api.hh /\ r.rb.mm = r.api.mm /\ r.rb.k = "time"
               ELSE r.rb.n = r.api.n>>,
          <<"other-bits-unchanged", r.outcome = "write" => Outside(r.after, s) = Outside(r.existing, s)>>,
          <<"other-bytes-unchanged", r.outcome = "write" => r.outside>>,
          <<"other-items-unchanged", r.outcome = "write" => r.others = 0>> >>

Failing(r) == LET c == Clauses(r) IN { i \in 1..Len(c) : ~c[i][2] }
Why(r) == LET c == Clauses(r) IN c[CHOOSE i \in Failing(r) : \A j \in Failing(r) : i <= j][1]
Bad == { <<k, Why(Recs[k])>> : k \in { k \in 1..Len(Recs) : Failing(Recs[k]) # {} } }
ASSUME PrintT(<<"GVBAD", Bad, Len(Recs)>>)
===============================================================================
