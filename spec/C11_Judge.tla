------------------------------- MODULE C11_Judge ------------------------------
(* Totality of the facade's read-only API (C11).  There is no Raise transition in the
   specification: a recorded evaluation whose outcome is an exception is not a step.
   kinds:
     "facade"   combo, block, built (BOOLEAN), error, evaluated (count), failures = << [member, exc] ... >>
     "enum"     item, raw, nitems, got ("label" | "Unknown" | "raised:<exc>")
     "wc"       mode (-1 = none yet), text ("waiting"|"name"|"unknown"|"raised:<exc>"), change ("ok"|"raised:<exc>")
     "rem"      days, text ("due-in"|"due-today"|"overdue"|"raised:<exc>")                *)
EXTENDS Facade, Json, IOUtils
Recs == ndJsonDeserialize(IOEnv.GV_RECS)
Verdict(r) ==
  CASE r.kind = "facade" -> IF ~r.built THEN "facade-cannot-be-constructed"
                            ELSE IF r.failures # <<>> THEN "read-only-member-raises" ELSE "ok"
    [] r.kind = "enum" -> IF r.got = (IF r.raw < r.nitems THEN "label" ELSE "Unknown") THEN "ok" ELSE "enum-out-of-range-not-Unknown"
    [] r.kind = "wc" -> IF r.text = WatercareText(r.mode) /\ r.change = "ok" THEN "ok" ELSE "watercare-mode-rendering"
    [] r.kind = "rem" -> IF r.text = ReminderText(r.days) THEN "ok" ELSE "reminder-rendering"
    [] r.kind = "remlist" -> IF r.text = "ok" THEN "ok" ELSE "reminder-list-without-valid-record-raises"
    [] OTHER -> "unknown-kind"
Bad == { <<k, Verdict(Recs[k])>> : k \in { k \in 1..Len(Recs) : Verdict(Recs[k]) # "ok" } }
ASSUME PrintT(<<"GVBAD", Bad, Len(Recs)>>)
===============================================================================
