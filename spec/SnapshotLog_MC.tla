---------------------------- MODULE SnapshotLog_MC ----------------------------
(* Laws of the parser automaton, checked by TLC over all short surroundings:
   1. a writer block followed by a non-INFO line (or end of file) yields exactly one
      snapshot with exactly the written fields, whatever junk lines (other INFO lines,
      non-INFO lines) precede or follow it;
   2. two writer blocks separated by a non-INFO line yield two snapshots in order;
   3. a connection's segments are joined in arrival order once the last one is seen.    *)
EXTENDS SnapshotLog
Junk == { [c |-> "X"], [c |-> "N"] }
JunkSeqs == {<<>>} \cup { <<a>> : a \in Junk } \cup { <<a, b>> : a \in Junk, b \in Junk }
Fields == { [en |-> e, co |-> 3 - e, pack |-> p, cfg |-> 1, log |-> 2, data |-> d] : e \in {1, 2}, p \in {1, 2}, d \in {7, 8} }
Count(sq, x) == Cardinality({ i \in 1..Len(sq) : sq[i] = x })
Law1 == \A pre \in JunkSeqs, post \in JunkSeqs, f \in Fields, term \in {<<>>, <<[c |-> "N"]>>} :
          LET res == ParseLines(pre \o WriterBlock("a", f) \o term \o post) IN
          (term # <<>> \/ post = <<>> \/ \A i \in 1..Len(post) : post[i].c = "X")
             => Count(res, Expect("a", f)) = 1 /\ Len(res) = 1
Law2 == \A f \in Fields, g \in Fields :
          ParseLines(WriterBlock("a", f) \o <<[c |-> "N"]>> \o WriterBlock("b", g)) = <<Expect("a", f), Expect("b", g)>>
Law3 == \A n \in 1..3 :
          LET segs == [i \in 1..n |-> [c |-> "SG", v |-> i, last |-> (i = n)]]
              res == ParseLines(<<[c |-> "CS"], [c |-> "CF", k |-> "sw", v |-> 5]>> \o segs) IN
          Len(res) = 1 /\ res[1].data = [i \in 1..n |-> i] /\ res[1].name = "Connection found"
VARIABLE done
Init == done = FALSE
Next == ~done /\ done' = TRUE
Spec == Init /\ [][Next]_done
Check == done => (Law1 /\ Law2 /\ Law3)
===============================================================================
