------------------------------- MODULE C17_Judge ------------------------------
(* Facade half of C17: the facade selects the active table exactly when some pump or
   blower is on.  record: on = << [cls |-> "PUMP"|"BLOWER", type, raw, label] ... >>,
   other = the same for the other user devices (lights), which do not count,
   mode = "active" | "idle" | "mixed" (the live settings compared with both tables)      *)
EXTENDS Naturals, Sequences, FiniteSets, TLC, Json, IOUtils
Recs == ndJsonDeserialize(IOEnv.GV_RECS)
IsOn(d) == IF d.type = "Bool" THEN d.raw = 1 ELSE d.label # "OFF"
Expected(r) == IF \E i \in 1..Len(r.on) : IsOn(r.on[i]) THEN "active" ELSE "idle"
Bad == { <<k, "active-iff-some-pump-or-blower-on">> : k \in { k \in 1..Len(Recs) : Recs[k].mode # Expected(Recs[k]) } }
ASSUME PrintT(<<"GVBAD", Bad, Len(Recs)>>)
===============================================================================
