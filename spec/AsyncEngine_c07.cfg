SPECIFICATION Spec
CONSTANTS Callers = {"c1"}
          Verb <- VerbDef
          Gated = {}
          R = 1
          T = 2
          P = 1
          MaxStall = 1
          MaxLost = 0
          MaxLate = 0
          MaxJunk = 2
          WithU = TRUE
INVARIANT CapablePopper
INVARIANT UnhandledOnlyMarked
INVARIANT NoHeadOfLine
INVARIANT AttemptsBounded
CHECK_DEADLOCK FALSE
