------------------------------ MODULE SyncConnect ------------------------------
(* The connection sequence of the BLOCKING client (geckolib/spa.py GeckoSpa + automation/facade.py
   GeckoFacade), which the listed properties touch only at engine level (C20).

   Code.  start_connect() opens the socket, starts the ping thread and queues the firmware-version
   request; each answer's on_handled callback (engine thread) queues the next request of the chain

        0 AVERS -> SVERS   1 CURCH -> CHCUR   2 SFILE -> FILES   3 STATU -> STATV... (whole block)

   Requests 0..2 are handlers with retry_count = R and the default retry-failed handler: when the
   budget is spent the handler is REMOVED and the chain stops for good (`abandoned`).  Request 3 is
   GeckoStructure.retry_request: when its budget is spent a RuntimeError is raised and swallowed, the
   handler stays and a late answer still completes the block.  The engine's _loop_func calls
   _final_connect once the structure has a block: _is_connected := True, THEN the facade's
   on_connected callback builds the devices and sets _facade_ready.
   The ping thread calls refresh() every ping period; refresh() reads is_connected, which RAISES once
   CONNECTION_TIMEOUT seconds have passed without a connection: the exception ends the ping thread
   (deliberate deviation from what one would expect, modelled as the action PingDies) and sets
   is_in_error; a connection that completes later stays without pings and periodic refreshes.

   Time is in whole seconds and only matters for the connection timeout; retransmission timeouts are
   left nondeterministic (the engine's timing is ThreadedEngine's subject), the budget is not.      *)
EXTENDS Naturals, FiniteSets, TLC

CONSTANTS R,           \* PROTOCOL_RETRY_COUNT
          ConnTimeout, \* CONNECTION_TIMEOUT_IN_SECONDS
          MaxAge       \* model bound on time

VARIABLES step,        \* 0..4: index of the outstanding request, 4 = the structure has a block
          sent,        \* [0..3 -> Nat] transmissions of each request
          abandoned,   \* the outstanding request's handler was removed with its budget spent
          connected, ready, pingAlive, err, age,
          connAge      \* age at which _is_connected was set (MaxAge + 1 = not yet)
vars == <<step, sent, abandoned, connected, ready, pingAlive, err, age, connAge>>

Steps == 0..3
Never == MaxAge + 1

Init == /\ step = 0 /\ sent = [k \in Steps |-> 0] /\ abandoned = FALSE
        /\ connected = FALSE /\ ready = FALSE /\ pingAlive = TRUE /\ err = FALSE /\ age = 0
        /\ connAge = Never

\* first transmission or retransmission of the outstanding request
Send(k) == /\ k = step /\ k \in Steps /\ ~abandoned /\ sent[k] < 1 + R
           /\ sent' = [sent EXCEPT ![k] = @ + 1]
           /\ UNCHANGED <<step, abandoned, connected, ready, pingAlive, err, age, connAge>>

\* the budget of a chain request is spent: its handler is removed, nothing will ever take its answer
GiveUp == /\ step \in 0..2 /\ ~abandoned /\ sent[step] = 1 + R
          /\ abandoned' = TRUE
          /\ UNCHANGED <<step, sent, connected, ready, pingAlive, err, age, connAge>>

\* an answer to request k reaches the client (answers to earlier requests, or after the handler was
\* removed, find no handler and change nothing)
Handle(k) == /\ k \in Steps /\ sent[k] >= 1
             /\ IF k = step /\ ~abandoned
                THEN step' = k + 1
                ELSE UNCHANGED step
             /\ UNCHANGED <<sent, abandoned, connected, ready, pingAlive, err, age, connAge>>

\* _loop_func: the block is there -> _final_connect (two observable moments: spa connected, facade ready)
FinalA == /\ step = 4 /\ ~connected
          /\ connected' = TRUE /\ connAge' = age
          /\ UNCHANGED <<step, sent, abandoned, ready, pingAlive, err, age>>
FinalB == /\ connected /\ ~ready
          /\ ready' = TRUE
          /\ UNCHANGED <<step, sent, abandoned, connected, pingAlive, err, age, connAge>>

\* one cycle of the ping thread: refresh() -> is_connected
PingCycle == /\ pingAlive
             /\ IF ~connected /\ age > ConnTimeout
                THEN pingAlive' = FALSE /\ err' = TRUE          \* PingDies
                ELSE UNCHANGED <<pingAlive, err>>
             /\ UNCHANGED <<step, sent, abandoned, connected, ready, age, connAge>>

Tick == /\ age < MaxAge /\ age' = age + 1
        /\ UNCHANGED <<step, sent, abandoned, connected, ready, pingAlive, err, connAge>>

Internal == GiveUp \/ (\E k \in Steps : Handle(k)) \/ FinalA \/ FinalB \/ PingCycle \/ Tick
Next == (\E k \in Steps : Send(k)) \/ Internal
Spec == Init /\ [][Next]_vars

\* ---------------------------------------------------------------- properties
TypeOK == /\ step \in 0..4 /\ sent \in [Steps -> 0..(1 + R)] /\ age \in 0..MaxAge
ReadyOnlyWhenConnected == ready => connected
ConnectedOnlyAfterChain == connected => (step = 4 /\ \A k \in Steps : sent[k] >= 1)
Budget == \A k \in Steps : sent[k] <= 1 + R
\* the chain appears on the wire in order: a request is (re)sent only while it is the outstanding one
WireOrder == \A k \in Steps : sent[k] >= 1 => \A j \in 0..(k - 1) : sent[j] >= 1
OnlyOutstandingIsSent == [][\A k \in Steps : sent'[k] > sent[k] => step = k]_vars
\* the chain never goes back, an abandoned chain never moves again
Monotone == [][step' >= step /\ (abandoned => (abandoned' /\ step' = step))]_vars
AbandonedOnlyWithBudgetSpent == abandoned => (step \in 0..2 /\ sent[step] = 1 + R)
\* the ping thread ends only through the connection timeout, and only while not connected
PingDeathIsTheTimeout == ~pingAlive => (err /\ age > ConnTimeout /\ connAge > ConnTimeout)
ConnectedInTimeKeepsPings == (connected /\ connAge <= ConnTimeout) => pingAlive
\* WITNESS (refuted on purpose): a connection that completes after the timeout has no ping thread
NeverConnectedWithoutPings == ~(connected /\ ~pingAlive)
================================================================================
