SPECIFICATION Spec
CONSTANTS NT = 2
          Atomic = FALSE
          MaxCalls = 2
INVARIANT NoDuplicate
CHECK_DEADLOCK FALSE
