"""The blocking GeckoLocator driven deterministically (W2): start_discovery(should_wait=True) runs in
the calling thread, the socket's engine thread is stepped by the harness, and the locator's retry
thread is a real thread that only ever runs while the caller is parked inside
GeckoUdpSocket.wait (strict hand-over, one of the two runs at any time), all on a virtual clock.

Observation for Discovery_Trace: arrival of a reply at the mock socket, its consumption by the
engine (recvfrom), the on_found callback, the return of start_discovery."""
import contextlib
import io
import threading

from .w2 import W2, MockSock


class _SockModule:
    """stands in for the `socket` module inside geckolib.driver.udp_socket"""

    def __init__(self, real, factory):
        self._real = real
        self._factory = factory

    def socket(self, *a, **kw):
        return self._factory()

    def __getattr__(self, name):
        return getattr(self._real, name)


class TapSock(MockSock):
    def __init__(self, clock, log, t0):
        super().__init__(clock)
        self.log = log
        self.t0 = t0
        self.next_id = 0

    def arrive(self, data, sender, spa):
        self.next_id += 1
        self.inbox.append((data, sender, self.next_id))
        self.log.append({"k": "arrive", "id": self.next_id, "spa": spa, "t": self.ms()})

    def ms(self):
        return int(round((self.clock.t - self.t0()) * 1000))

    def recvfrom(self, n):
        if self.inbox:
            data, sender, i = self.inbox.pop(0)
            self.log.append({"k": "pop", "id": i, "t": self.ms()})
            return data, sender
        import socket as _s
        raise _s.timeout()


class SyncDiscovery:
    """responders: objects with .ident .name .addr .token and .plan(n) -> list of latencies for the
    n-th broadcast; kw: spa_to_find / static_ip"""

    ENGINE_DT = 0.05          # the engine thread's iteration period (its socket timeout)

    def __init__(self, responders, **kw):
        self.responders = responders
        self.kw = kw
        self.log = []

    def run(self):
        import geckolib.driver.udp_socket as us
        from geckolib.locator import GeckoLocator
        real_thread = threading.Thread
        w2 = W2()
        w2.__enter__()
        clock = w2.clock
        state = {"loc": None, "sock": None, "retry": None, "retry_wake": None, "turn": "main", "retry_done": False,
                 "next_engine": None, "pending": [], "nbroadcast": 0, "seen_wire": 0}
        cv = threading.Condition()
        by_ident = {r.ident: r for r in self.responders}

        def t0():
            return state["loc"]._started if state["loc"] is not None and state["loc"]._started is not None else clock.t

        def factory():
            s = TapSock(clock, self.log, t0)
            state["sock"] = s
            return s

        def on_found(descriptor):
            r = by_ident.get(descriptor.identifier)
            self.log.append({"k": "disc", "spa": r.token if r else "?", "name": list(descriptor.name.encode("latin1", "replace")),
                             "ip": descriptor.ipaddress, "port": descriptor.port, "t": state["sock"].ms()})

        def engine_and_network():
            gsock = state["loc"]._socket
            W2.step(gsock)
            ts = state["sock"]
            while state["seen_wire"] < len(ts.wire):
                _, data, dest = ts.wire[state["seen_wire"]]
                state["seen_wire"] += 1
                if data == b"<HELLO>1</HELLO>":
                    n = state["nbroadcast"]
                    state["nbroadcast"] += 1
                    for r in self.responders:
                        if dest[0] not in ("<broadcast>", "255.255.255.255", r.addr[0]):
                            continue
                        for lat in r.plan(n):
                            state["pending"].append((clock.t + lat, r))
            state["pending"].sort(key=lambda x: x[0])

        def run_retry_until_it_waits():
            with cv:
                state["turn"] = "retry"
                cv.notify_all()
                while state["turn"] != "main":
                    cv.wait()

        def patched_wait(gsock, timeout):
            if threading.current_thread() is state["retry"]:
                with cv:
                    state["retry_wake"] = clock.t + timeout
                    state["turn"] = "main"
                    cv.notify_all()
                    while state["turn"] != "retry":
                        cv.wait()
                return
            # the caller of start_discovery: virtual time passes while it is parked here
            loc = state["loc"]
            if state["retry"] is None and getattr(loc._retry_thread, "started", False):
                def body():
                    with cv:
                        while state["turn"] != "retry":
                            cv.wait()
                    try:
                        loc._retry_thread.target()     # (no stdout redirection here: it is process-global)
                    finally:
                        with cv:
                            state["retry_done"] = True
                            state["retry_wake"] = None
                            state["turn"] = "main"
                            cv.notify_all()
                state["retry"] = real_thread(target=body, daemon=True)
                state["retry"].start()
                state["retry_wake"] = clock.t          # it runs at once, as a started thread would
                state["next_engine"] = clock.t
            target = clock.t + timeout
            while True:
                cands = [target]
                if state["retry_wake"] is not None and not state["retry_done"]:
                    cands.append(state["retry_wake"])
                if state["next_engine"] is not None:
                    cands.append(state["next_engine"])
                if state["pending"]:
                    cands.append(state["pending"][0][0])
                nxt = max(clock.t, min(cands))
                clock.t = nxt
                while state["pending"] and state["pending"][0][0] <= clock.t + 1e-12:
                    _, r = state["pending"].pop(0)
                    if not state["sock"].closed:
                        state["sock"].arrive(b"<HELLO>" + r.ident + b"|" + r.name.encode("latin1") + b"</HELLO>", r.addr, r.token)
                if state["retry_wake"] is not None and not state["retry_done"] and state["retry_wake"] <= clock.t + 1e-12:
                    state["retry_wake"] = None
                    run_retry_until_it_waits()
                if state["next_engine"] is not None and state["next_engine"] <= clock.t + 1e-12:
                    engine_and_network()
                    state["next_engine"] = clock.t + self.ENGINE_DT
                if gsock._exit_event is not None and gsock._exit_event.is_set():
                    return
                if clock.t >= target - 1e-12:
                    return

        saved_wait = us.GeckoUdpSocket.wait
        saved_sockmod = us.socket
        us.GeckoUdpSocket.wait = patched_wait
        us.socket = _SockModule(saved_sockmod, factory)
        try:
            loc = GeckoLocator("gv-client-uuid", on_found=on_found, **self.kw)
            state["loc"] = loc
            with contextlib.redirect_stdout(io.StringIO()):
                loc.start_discovery(True)
            tret = state["sock"].ms()
            # let the retry thread notice that the socket is closed and end
            if state["retry"] is not None and not state["retry_done"]:
                run_retry_until_it_waits()
            retry_alive = bool(state["retry"] is not None and not state["retry_done"])
            spas = []
            for d in loc.spas:
                r = by_ident.get(d.identifier)
                spas.append(r.token if r else "?")
            self.log.append({"k": "ret", "t": tret, "spas": spas, "closed": bool(state["sock"].closed), "loctasks": 1 if retry_alive else 0})
            self.broadcasts = state["nbroadcast"]
        finally:
            us.GeckoUdpSocket.wait = saved_wait
            us.socket = saved_sockmod
            w2.__exit__(None, None, None)
        # events up to the return, in time order (arrive < pop < disc at equal times keeps log order)
        return self.log
