"""Evidence writer (schema /root/.vp/EVIDENCE.schema.json)."""
import json
import os
import time

from . import env


class Evidence:
    def __init__(self, pid, tier, level="model_checking"):
        self.pid = pid
        self.tier = tier
        self.level = level
        self.t0 = time.time()
        self.cov = {
            "states": 0, "transitions": 0, "traces_validated_against_impl": 0,
            "evaluations": 0, "distinct_nontrivial": 0, "rule": "", "samples": [],
            "tlc_runs": [],
        }
        self.assumptions = []
        self.violations = 0
        self.known = []

    def add_tlc(self, name, r, note=""):
        self.cov["states"] += r.distinct
        self.cov["transitions"] += r.generated
        self.cov["tlc_runs"].append({
            "model": name, "distinct_states": r.distinct, "states_generated": r.generated,
            "depth": r.depth, "completed": bool(r.completed), "wall_s": round(r.wall, 1),
            "violated": r.violated,
            "note": note or ("cut off by the outer timeout: no violation among the states explored until then (counts from "
                             "the last progress line)" if getattr(r, "timed_out", False) else ""),
            "coverage": {k: v[1] for k, v in sorted(r.coverage.items())},
        })

    def sample(self, s, limit=5):
        if len(self.cov["samples"]) < limit:
            self.cov["samples"].append(s)

    def write(self):
        os.makedirs(env.EVIDENCE, exist_ok=True)
        doc = {
            "property_id": self.pid,
            "tier": self.tier,
            "seed": env.seed(),
            "level": self.level,
            "coverage": self.cov,
            "assumptions": self.assumptions,
            "wall_s": round(time.time() - self.t0, 2),
            "violations": self.violations,
            "known_findings_seen": self.known,
            "repo_rev": env.repo_rev(),
        }
        if not self.cov["samples"]:
            self.cov["samples"] = ["(no case recorded)"]
        path = os.path.join(env.EVIDENCE, f"{self.pid}.json")
        tmp = path + ".tmp"
        with open(tmp, "w") as f:
            json.dump(doc, f, indent=1, default=str)
        os.replace(tmp, path)
        return path
