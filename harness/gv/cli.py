"""./check <ID> [--tier quick|thorough] [--replay PATH]"""
import argparse
import importlib
import json
import os
import sys
import traceback

from . import env
from .ctx import Ctx


def main(argv=None):
    ap = argparse.ArgumentParser()
    ap.add_argument("pid")
    ap.add_argument("--tier", default=os.environ.get("VERIF_TIER", "quick"),
                    choices=["quick", "thorough"])
    ap.add_argument("--replay", default=None)
    a = ap.parse_args(argv)
    pid = a.pid.upper()
    try:
        mod = importlib.import_module(f"gv.checks.{pid.lower()}")
    except ModuleNotFoundError as e:
        print(f"no check for {pid}: {e}", file=sys.stderr)
        return 2
    ctx = Ctx(pid, a.tier)

    def watchdog(signum, frame):
        # code under test that never returns must not hang the check for ever: no verdict (exit 2)
        print(f"MACHINERY-ERROR {pid}: watchdog: the check did not finish within its wall-clock limit", file=sys.stderr)
        os._exit(2)

    import signal
    signal.signal(signal.SIGALRM, watchdog)
    signal.alarm(int(os.environ.get("GV_WATCHDOG_S", 2400 if a.tier == "quick" else 8 * 3600)))
    try:
        env.use_repo()
        if a.replay:
            with open(a.replay) as f:
                doc = json.load(f)
            if not hasattr(mod, "replay"):
                print("this check has no replay entry point", file=sys.stderr)
                return 2
            mod.replay(ctx, doc)
        else:
            mod.run(ctx)
        return ctx.finish()
    except env.MachineryError as e:
        print(f"MACHINERY-ERROR {pid}: {e}", file=sys.stderr)
        if ctx.new:
            # violations that were already established (judged by TLC against recorded cases) stand: a later part
            # of the check that could not be carried out does not take them back
            print(f"  ({len(ctx.new)} violation(s) had been established before; they are reported)", file=sys.stderr)
            ctx.ev.assumptions.append(f"the check ended early with a machinery error after violations were established: {e}")
            return ctx.finish()
        return 2
    except Exception:
        traceback.print_exc()
        print(f"MACHINERY-ERROR {pid}: unexpected exception in the harness", file=sys.stderr)
        if ctx.new:
            print(f"  ({len(ctx.new)} violation(s) had been established before; they are reported)", file=sys.stderr)
            ctx.ev.assumptions.append("the check ended early with an unexpected harness exception after violations were established")
            return ctx.finish()
        return 2


if __name__ == "__main__":
    sys.exit(main())
