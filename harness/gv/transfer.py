"""Rigs that run ONE status-block transfer of the real code under harness-controlled
network actions (the actions of spec/StatusTransfer.tla).

AsyncRig: real GeckoAsyncStructure.get + real GeckoAsyncUdpProtocol on the virtual loop.
SyncRig : real GeckoStructure + real GeckoUdpSocket engine stepped by hand.
Both talk to the real GeckoSimulator (segment size and block length set by the rig).
"""
import asyncio

from . import env
from .simnet import SimPeer, SIM_ADDR
from .vloop import World
from .w2 import W2, MockSock

SPA_ID = b"SPA01:02:03:04:05:06"
CLIENT_ID = b"IOSclient-gv"
CLIENT_ADDR = ("10.0.0.2", 40001)


TAGS = [b"</DATAS>", b"<DATAS>", b"</PACKT>", b"<PACKT>", b"</DATAS></PACKT>", b"</SRCCN>", b"</DESCN><DATAS>", b"STATV", b"<HELLO>"]


def blocks(N, rng, coded=False, tags=False):
    if tags:
        # block bytes are arbitrary: the protocol's own tag text is legal content
        spa = bytearray(rng.randrange(256) for _ in range(N))
        for _ in range(max(2, N // 60)):
            t = rng.choice(TAGS)
            if len(t) < N:
                p = rng.randrange(0, N - len(t))
                spa[p:p + len(t)] = t
        spa = bytes(spa)
        old = bytes((b + 1 + rng.randrange(255)) % 256 for b in spa)
        return spa, old
    if coded:
        spa = bytes((p % 250) + 1 for p in range(N))
        old = bytes(0 for _ in range(N))
        return spa, old
    spa = bytes(rng.randrange(256) for _ in range(N))
    old = bytes((b + 1 + rng.randrange(255)) % 256 for b in spa)
    return spa, old


class _Base:
    def __init__(self, N, S, R, start, length, spa_block, old_block):
        self.N, self.S, self.R = N, S, R
        self.start, self.length = start, length
        self.spa_block, self.old_block = spa_block, old_block
        self.peer = SimPeer(seg=S)
        self.peer.sim.structure.set_status_block(spa_block)
        self.bag = []        # in-flight datagrams: dict(m=..., data=bytes)
        self.log = []        # events for trace validation
        self._seen = 0

    # ---- message decoding (real handlers) --------------------------------------
    def _decode_v(self, framed):
        from geckolib.driver import GeckoPacketProtocolHandler, GeckoStatusBlockProtocolHandler
        ph = GeckoPacketProtocolHandler()
        ph.handle(framed, SIM_ADDR)
        content = ph.packet_content
        sh = GeckoStatusBlockProtocolHandler()
        if content is None or not sh.can_handle(content, None):
            return None, content, ph.parms
        sh.handle(content, None)
        off = self.start + sh.sequence * self.S
        data = sh.data
        if self.spa_block[off:off + len(data)] != data or len(data) == 0:
            found = self.spa_block.find(data) if data else -1
            off = found if found >= 0 else -1
        m = {"t": "V", "idx": sh.sequence, "next": sh.next, "off": off, "len": len(data)}
        return m, content, ph.parms

    def serve(self):
        """The simulator answers one STATU that is in flight."""
        for i, d in enumerate(self.bag):
            if d["m"]["t"] == "U":
                break
        else:
            raise env.MachineryError("serve: no STATU in flight")
        d = self.bag.pop(i)
        chain = []
        for reply, dest in self.peer.on_datagram(d["data"], CLIENT_ADDR):
            m, content, parms = self._decode_v(reply)
            if m is None:
                m = {"t": "X"}
            self.bag.append({"m": m, "data": reply})
            chain.append(m)
        self.log.append({"k": "serve"})
        return chain

    def find(self, m):
        for i, d in enumerate(self.bag):
            if d["m"] == m:
                return i
        return None

    def drop(self, m):
        i = self.find(m)
        if i is None:
            raise env.MachineryError(f"drop: {m} not in flight")
        self.bag.pop(i)
        self.log.append({"k": "drop", "m": m})

    def dup(self, m):
        i = self.find(m)
        if i is None:
            raise env.MachineryError(f"dup: {m} not in flight")
        self.bag.append(dict(self.bag[i]))
        self.log.append({"k": "dup", "m": m})

    def deliver(self, m, kind="deliver"):
        i = self.find(m)
        if i is None:
            raise env.MachineryError(f"deliver: {m} not in flight")
        d = self.bag.pop(i)
        self.log.append({"k": kind, "m": m})
        self._deliver(d["data"])
        self.collect()

    def collect(self):
        """Move newly transmitted STATU datagrams from the wire into the bag."""
        wire = self._wire()
        while self._seen < len(wire):
            data = wire[self._seen]
            self._seen += 1
            self.bag.append({"m": {"t": "U"}, "data": data})
            self.log.append({"k": "send"})
        if self.done() and (not self.log or self.log[-1]["k"] != "ret"):
            self.log.append({"k": "ret", "ok": bool(self.ok()), "cli": self.classes(),
                             "blen": len(self.block())})

    @property
    def sent(self):
        return len(self._wire())

    def classes(self):
        b = self.block()
        out = []
        for p in range(self.N):
            if p >= len(b):
                out.append("missing")
            elif b[p] == self.spa_block[p]:
                out.append("spa")
            elif b[p] == self.old_block[p]:
                out.append("old")
            else:
                out.append("junk")
        return out

    def projection(self):
        net = {}
        for d in self.bag:
            key = tuple(sorted(d["m"].items()))
            net[key] = net.get(key, 0) + 1
        return {"cli": self.classes(), "grown": len(self.block()) != self.N, "sent": self.sent,
                "result": ("ok" if self.ok() else "fail") if self.done() else "none", "net": net}


class AsyncRig(_Base):
    variant = "async"

    def __init__(self, N, S, R, start, length, spa_block, old_block):
        super().__init__(N, S, R, start, length, spa_block, old_block)
        from geckolib.driver import GeckoAsyncUdpProtocol, GeckoAsyncStructure, GeckoStatusBlockProtocolHandler
        from geckolib.config import GeckoConfig
        self.world = World(net=_NullNet())
        self.world.__enter__()
        loop = self.world.loop
        self.T = GeckoConfig.PROTOCOL_TIMEOUT_IN_SECONDS
        self.struct = GeckoAsyncStructure(None, None)
        self.struct.set_status_block(old_block)
        self.parms = (SIM_ADDR[0], SIM_ADDR[1], SPA_ID, CLIENT_ID)

        async def setup():
            tr, proto = await loop.create_datagram_endpoint(
                lambda: GeckoAsyncUdpProtocol(None, SIM_ADDR))
            return tr, proto

        self.tr, self.proto = loop.run_until_complete(setup())

        def mk():
            return GeckoStatusBlockProtocolHandler.request(
                self.proto.get_and_increment_sequence_counter(False), start, length, parms=self.parms)

        self.task = loop.create_task(self.struct.get(self.proto, mk, R), name="GV:get")
        self.advance(0.001)
        self.collect()

    def close(self):
        if not self.task.done():
            self.task.cancel()
        self.world.__exit__(None, None, None)

    def advance(self, dt):
        self.world.loop.run_until_complete(asyncio.sleep(dt))

    def _wire(self):
        return [d for (_, d, _) in self.tr.sent][getattr(self, "_w0", 0):]

    def restart(self, start, length, after_success=False):
        """a NEW get() on the same structure and protocol object (the caller has re-based `old_block`)"""
        from geckolib.driver import GeckoStatusBlockProtocolHandler
        if not self.task.done():
            raise env.MachineryError("restart: the previous transfer is still running")
        self.start, self.length = start, length
        self.bag, self.log, self._seen = [], [], 0
        self._w0 = len(self.tr.sent)

        def mk():
            return GeckoStatusBlockProtocolHandler.request(
                self.proto.get_and_increment_sequence_counter(False), start, length, parms=self.parms)

        self.task = self.world.loop.create_task(self.struct.get(self.proto, mk, self.R), name="GV:get")
        self.advance(0.001)
        self.collect()

    def _deliver(self, framed):
        m, content, parms = self._decode_v(framed)
        # the Packet consumer's job (framing, identifier pair) is C04/C07's subject: the
        # inner content enters the receive queue exactly as _async_on_packet would put it
        self.proto.datagram_received(content, parms)
        self.advance(0.1001)

    def timeout(self):
        self.advance(self.T + 0.25)
        self.collect()

    def done(self):
        return self.task.done()

    def ok(self):
        return self.task.done() and not self.task.cancelled() and self.task.exception() is None and self.task.result()

    def block(self):
        return self.struct.status_block


class _NullNet:
    loop = None

    def client_send(self, transport, data, addr):
        pass


class SyncRig(_Base):
    variant = "sync"

    def __init__(self, N, S, R, start, length, spa_block, old_block):
        super().__init__(N, S, R, start, length, spa_block, old_block)
        from geckolib.driver import (GeckoUdpSocket, GeckoStructure, GeckoPacketProtocolHandler,
                                     GeckoStatusBlockProtocolHandler)
        from geckolib.config import GeckoConfig
        self.w2 = W2()
        self.w2.__enter__()
        self.T = GeckoConfig.PROTOCOL_TIMEOUT_IN_SECONDS
        self.sock = GeckoUdpSocket()
        self.ms = MockSock(self.w2.clock)
        self.sock._socket = self.ms
        self.sock.open()                   # (the engine thread is inert: W2.step runs its loop body)
        self.sock.add_receive_handler(GeckoPacketProtocolHandler(socket=self.sock))
        self.struct = GeckoStructure(None)
        self.struct.set_status_block(old_block)
        self.parms = (SIM_ADDR[0], SIM_ADDR[1], SPA_ID, CLIENT_ID)
        saved = GeckoConfig.PROTOCOL_RETRY_COUNT
        GeckoConfig.PROTOCOL_RETRY_COUNT = R
        try:
            self.request = GeckoStatusBlockProtocolHandler.request(
                self.sock.get_and_increment_sequence_counter(False), start, length, parms=self.parms)
        finally:
            GeckoConfig.PROTOCOL_RETRY_COUNT = saved
        self.struct.retry_request(self.sock, self.request, self.parms)
        self.iterate(2)
        self.collect()

    def close(self):
        self.w2.__exit__(None, None, None)

    def iterate(self, n=1):
        for _ in range(n):
            self.w2.advance(0.03)
            W2.step(self.sock)

    def _wire(self):
        return [d for (_, d, _) in self.ms.wire][getattr(self, "_w0", 0):]

    def _deliver(self, framed):
        self.ms.inbox.append((framed, SIM_ADDR))
        self.iterate(2 * len(self.ms.inbox) + 2)

    def enqueue(self, m, kind="deliver"):
        """the datagram reaches the socket's receive buffer, but the engine thread does not run yet: it
        will find this one and the next one waiting back to back"""
        i = self.find(m)
        if i is None:
            raise env.MachineryError(f"enqueue: {m} not in flight")
        d = self.bag.pop(i)
        self.log.append({"k": kind, "m": m})
        self.ms.inbox.append((d["data"], SIM_ADDR))

    def timeout(self):
        self.w2.advance(self.T + 0.25)
        W2.step(self.sock)
        self.iterate(2)
        self.collect()

    def done(self):
        return self.request not in self.sock._receive_handlers

    def ok(self):
        return self.done() and self.struct.had_at_least_one_block

    def restart(self, start, length, after_success=False):
        """a NEW transfer on the same structure and socket, after the previous one has FAILED (the client's copy is
        untouched, so the log of the new transfer starts from the same old block) - or, with after_success, after it
        has succeeded and the caller has re-based `old_block` on what the client holds now"""
        from geckolib.driver import GeckoStatusBlockProtocolHandler
        from geckolib.config import GeckoConfig
        if self.ok() and not after_success:
            raise env.MachineryError("restart: the previous transfer has not failed")
        if after_success:
            # (the flag is sticky; cleared by the harness so that it tells whether THIS transfer completed)
            self.struct.had_at_least_one_block = False
        self.start, self.length = start, length
        self.bag, self.log, self._seen = [], [], 0
        self._w0 = len(self.ms.wire)
        saved = GeckoConfig.PROTOCOL_RETRY_COUNT
        GeckoConfig.PROTOCOL_RETRY_COUNT = self.R
        try:
            self.request = GeckoStatusBlockProtocolHandler.request(
                self.sock.get_and_increment_sequence_counter(False), start, length, parms=self.parms)
        finally:
            GeckoConfig.PROTOCOL_RETRY_COUNT = saved
        self.struct.retry_request(self.sock, self.request, self.parms)
        self.iterate(2)
        self.collect()

    def block(self):
        return self.struct.status_block
