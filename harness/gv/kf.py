"""Known findings: /verif/known_findings.json is read-only at run time.

Entry: {"id": "KF-…", "property": "C04", "status": "known"|"fixed", "signature": {...},
        "what": "...", "commit": "<sha, for fixed>"}.
A violation is matched by *signature* (all keys of the entry's signature must be present
and equal in the violation's signature); `fixed` entries never suppress anything."""
import json
import os

from . import env

_PATH = os.path.join(env.VERIF, "known_findings.json")


def load():
    if not os.path.exists(_PATH):
        return []
    with open(_PATH) as f:
        return json.load(f)["findings"]


def match(pid, sig):
    for e in load():
        if e.get("status") != "known" or e["property"] != pid:
            continue
        if all(sig.get(k) == v for k, v in e["signature"].items()):
            return e
    return None


def flags():
    """KF_* spec constants that are switched on (status known)."""
    return {e["flag"] for e in load() if e.get("status") == "known" and e.get("flag")}
