"""Lifecycle scenarios of the real GeckoAsyncSpaMan on the virtual loop (W1) and their logs for
Lifecycle_Trace (C08, C09, C10)."""
import asyncio

from . import env
from .sessions import AsyncSession
from . import vloop as _vl

EV = {
    "SPA_MAN_ENTER": "SPA_MAN_ENTER", "SPA_MAN_EXIT": "SPA_MAN_EXIT", "SPA_NOT_FOUND": "SPA_NOT_FOUND",
    "LOCATING_STARTED": "LOCATING_STARTED", "LOCATING_DISCOVERED_SPA": "LOCATING_DISCOVERED",
    "LOCATING_FINISHED": "LOCATING_FINISHED", "CONNECTION_STARTED": "CONNECTION_STARTED",
    "CONNECTION_GOT_FIRMWARE_VERSION": "GOT_FIRMWARE", "CONNECTION_GOT_CHANNEL": "GOT_CHANNEL",
    "CONNECTION_GOT_CONFIG_FILES": "GOT_CONFIG", "CONNECTION_INITIAL_DATA_BLOCK_REQUEST": "INITIAL_DATA_BLOCK",
    "CONNECTION_SPA_COMPLETE": "SPA_COMPLETE", "CONNECTION_PROTOCOL_RETRY_COUNT_EXCEEDED": "CONN_RETRY_EXCEEDED",
    "CONNECTION_FINISHED": "CONNECTION_FINISHED", "RUNNING_PING_RECEIVED": "PING_RECEIVED",
    "RUNNING_PING_MISSED": "PING_MISSED", "RUNNING_PING_NO_RESPONSE": "PING_NO_RESPONSE",
    "RUNNING_SPA_DISCONNECTED": "SPA_DISCONNECTED", "RUNNING_SPA_PACK_REFRESHED": "PACK_REFRESHED",
    "CLIENT_HAS_STATUS_SENSOR": "HAS_STATUS_SENSOR", "CLIENT_HAS_RECONNECT_BUTTON": "HAS_RECONNECT_BUTTON",
    "CLIENT_HAS_PING_SENSOR": "HAS_PING_SENSOR", "CLIENT_FACADE_IS_READY": "FACADE_IS_READY",
    "CLIENT_FACADE_TEARDOWN": "FACADE_TEARDOWN", "ERROR_TOO_MANY_RF_ERRORS": "TOO_MANY_RF",
    "ERROR_PROTOCOL_RETRY_COUNT_EXCEEDED": "RETRY_EXCEEDED", "ERROR_RF_ERROR": "RF_ERROR",
}
ST = {"IDLE": "IDLE", "LOCATING_SPAS": "LOCATING", "LOCATED_SPAS": "LOCATED", "CONNECTING": "CONNECTING",
      "SPA_READY": "SPA_READY", "CONNECTED": "CONNECTED", "ERROR_SPA_NOT_FOUND": "NOT_FOUND",
      "ERROR_NEEDS_ATTENTION": "NEEDS_ATT", "ERROR_PING_MISSED": "ERR_PING", "ERROR_RF_FAULT": "ERR_RF"}
TEXT = {"Connected": "CONNECTED", "Connecting...": "CONNECTING", "Lost contact with spa (RFERR)": "ERR_RF",
        "Lost contact with in.touch2 module": "ERR_PING", "Needs attention, check logs": "NEEDS_ATT",
        "Searching for spas...": "LOCATING", "Choose spa": "LOCATED", "Cannot find spa, check logs": "NOT_FOUND",
        "GeckoSpaState.IDLE": "IDLE", "GeckoSpaState.SPA_READY": "SPA_READY"}


class LifecycleRun:
    """script: list of (time, action, arg) with actions net / reset / exit / sockfail (the next arg endpoint
    creations raise OSError); susp: dict event-name ->
    seconds the client handler sleeps in that delivery (first occurrence after arm time)"""

    def __init__(self, rng, script, susp=None, rank="stable", horizon=400.0, spa_identifier="SPA01:02:03:04:05:06",
                 snapshot=None, has_id=True, spa_address=None):
        self.rng = rng
        self.ident = spa_identifier
        self.has_id = has_id
        if not has_id:
            spa_identifier = None          # the manager starts without a chosen spa ("Choose spa")
        self.script = sorted(script, key=lambda x: x[0])
        self.susp = dict(susp or {})
        self.log = []
        self.conn_started_at = []
        self.horizon = horizon
        self.exited = False
        self.unknown = []
        kw = {"snapshot": snapshot} if snapshot else {}
        if spa_address is not None:
            kw["spa_address"] = spa_address
        self.s = AsyncSession(rank=rank, rank_seed=rng.random(), on_event=self._on_event, autostart=False,
                              spa_identifier=spa_identifier, **kw)

    # ---- observation ----------------------------------------------------------------
    def _epoch_of(self, task):
        created = getattr(task, "_gv_created", 0.0)
        return sum(1 for t in self.conn_started_at if t <= created + 1e-9)

    def _by(self, rec):
        name = rec["task"]
        task = asyncio.current_task()
        if name.startswith("SPAMAN:"):
            return "PUMP", 0
        if name.startswith("LOC:"):
            return "LOC", 0
        if name == "SPA:Ping loop":
            return "PING", self._epoch_of(task)
        if name.startswith("SPA:") or name.startswith("FACADE:"):
            return "BG", self._epoch_of(task)
        if name.startswith("GV:reset"):
            return "USER", 0
        return "MAIN", 0

    async def _on_event(self, sess, man, event, rec, kw):
        by, ep = self._by(rec)
        name = EV.get(event.name)
        if name is None:
            self.unknown.append(event.name)
            name = event.name
        if event.name == "CONNECTION_STARTED":
            self.conn_started_at.append(sess.loop.time())
        sensor = "absent" if rec["sensor"] is None else TEXT.get(rec["sensor"], rec["sensor"])
        self.log.append({"k": "deliver", "ev": name, "by": by, "ep": ep, "st": ST[rec["state"]], "fac": rec["facade"],
                         "spa": rec["spa"], "descr": rec["descr"], "sensor": sensor, "t": int(round(rec["t"] * 1000))})
        self._occ = getattr(self, "_occ", {})
        self._occ[event.name] = self._occ.get(event.name, 0) + 1
        d = self.susp.pop(f"{event.name}#{self._occ[event.name]}", None)      # "NAME#k": the k-th delivery of NAME
        if d is None:
            d = self.susp.pop(event.name, None)
        if d:
            self.log.append({"k": "susp"})
            await asyncio.sleep(d)

    # ---- driving ----------------------------------------------------------------------
    def run(self):
        s = self.s
        loop = s.loop
        resets = []

        async def do_reset(setinfo=False):
            self.log.append({"k": "reset", "phase": "start", "setinfo": bool(setinfo)})
            try:
                if setinfo:
                    # what a configuration flow does once the user has chosen a spa
                    await s.man.async_set_spa_info(None, self.ident, "My Spa")
                else:
                    await s.man.async_reset()
            finally:
                self.log.append({"k": "reset", "phase": "return", "setinfo": bool(setinfo)})

        try:
            for (t, action, arg) in self.script:
                if action == "sockfail" and t <= 0:
                    loop.fail_endpoints = int(arg)
                    loop.on_endpoint_fail = lambda kw: self.log.append({"k": "sockfail"})
            s.enter()
            for (t, action, arg) in self.script:
                if t > loop.time():
                    s.advance(t - loop.time())
                if action == "net":
                    mode = "bad" if arg in ("blackout", "lossy", "rferr", "noping", "firstlost") else "ok"
                    s.net.blackhole = arg == "blackout"
                    s.net.phases = ([(loop.time(), 1e12, "lossy", 0.4)] if arg == "lossy" else
                                    [(loop.time(), 1e12, "noping", None)] if arg == "noping" else
                                    [(loop.time(), 1e12, "firstlost", None)] if arg == "firstlost" else
                                    [(loop.time(), 1e12, "rferr", None)] if arg == "rferr" else [])
                    if mode != getattr(self, "_mode", "ok"):
                        self.log.append({"k": "net", "mode": mode})
                    self._mode = mode
                elif action == "rfburst":
                    # the in.touch2 module reports `arg` RF errors in a row on the current connection
                    from .checks.c07 import frame
                    spa_ = s.man._spa
                    if spa_ is not None and s.conn_transport() is not None:
                        for i in range(int(arg)):
                            s.inject(frame(spa_.descriptor.identifier, spa_.client_id, b"RFERR"), delay=0.001 * i)
                elif action == "change":
                    # the spa changes a byte of its live section and the report never reaches the client (lost): only
                    # the periodic refresh can repair the client's copy
                    spa_ = s.man._spa
                    if spa_ is not None and getattr(spa_, "log_class", None) is not None:
                        blk = s.peer.sim.structure.status_block
                        pos = spa_.log_class.begin + int(arg or 7)
                        s.peer.sim.structure.set_status_block(blk[:pos] + bytes([(blk[pos] + 1) % 256]) + blk[pos + 1:])
                        self.changed = getattr(self, "changed", 0) + 1
                elif action == "sockfail":
                    loop.fail_endpoints = int(arg)
                    loop.on_endpoint_fail = lambda kw: self.log.append({"k": "sockfail"})
                elif action in ("reset", "setinfo"):
                    if any(not r.done() for r in resets):
                        continue        # the model has one user
                    resets.append(loop.create_task(do_reset(action == "setinfo"), name=f"GV:reset:{len(resets)}"))
                    s.advance(0)
                elif action == "exit":
                    break
            if not any(a == "exit" for _, a, _ in self.script):
                if self.horizon > loop.time():
                    s.advance(self.horizon - loop.time())
            for r in resets:
                if not r.done():
                    s.advance(30)
            self.pending_resets = [r for r in resets if not r.done()]
            self.final = {"state": ST[s.man.spa_state.name], "facade": s.man.facade is not None,
                          "pump_alive": any(t.get_name() == "SPAMAN:Sequence Pump" and not t.done() for t in loop.tasks),
                          "time": loop.time()}
            if s.man.facade is not None and s.spa is not None:
                self.final["block_equal"] = s.spa.struct.status_block == s.peer.sim.structure.status_block
            # context exit
            self.log.append({"k": "exit"})
            self.exit_returned = s.exit_context()
            self.exited = True
            s.advance(0.5)
            self.after_exit = {
                "tasks_alive": sorted(t.get_name() for t in loop.tasks if not t.done() and not t.get_name().startswith("GV:")
                                      and not t.get_name().startswith("Task-")),
                "endpoints_open": [(tr.id, "LOC" if tr.kw.get("allow_broadcast") else "SPA") for tr in loop.transports if not tr.closed],
                "endpoints_total": len(loop.transports),
            }
            self.log.append({"k": "end", "exited": True})
        finally:
            self.s.close()
        return self
