"""Per-run context handed to each check: verdict collection, replay files, evidence."""
import json
import os
import time

from . import env, kf
from .evidence import Evidence


class Ctx:
    def __init__(self, pid, tier):
        self.pid = pid
        self.tier = tier
        self.quick = tier == "quick"
        self.ev = Evidence(pid, tier)
        self.new = []       # (sig, replay_path)
        self.known = {}     # kf id -> (entry, count)
        self.t0 = time.time()
        self._seen = set()

    # ---- verdicts -------------------------------------------------------------
    def violation(self, sig: dict, detail: dict):
        """Report one violating case.  `sig` identifies *what* fails (used to match the
        known-findings file); `detail` is everything needed to replay it."""
        e = kf.match(self.pid, sig)
        if e is not None:
            ent, n = self.known.get(e["id"], (e, 0))
            self.known[e["id"]] = (ent, n + 1)
            return "known"
        key = json.dumps(sig, sort_keys=True, default=str)
        if key in self._seen:
            return "dup"
        self._seen.add(key)
        d = env.outdir("replay", self.pid)
        path = os.path.join(d, f"{self.pid}-{len(self.new)+1:03d}.json")
        with open(path, "w") as f:
            json.dump({"property": self.pid, "tier": self.tier, "seed": env.seed(),
                       "repo_rev": env.repo_rev(), "signature": sig, "detail": detail},
                      f, indent=1, default=str)
        self.new.append((sig, path))
        return "new"

    def tlc_design(self, name, r, expect_violated=()):
        """Account for a design-model TLC run.  A violated invariant of the *design*
        model is a machinery error unless expected (negative controls)."""
        from . import tlc
        self.ev.add_tlc(name, r)
        tlc.require_ok(r, name)
        bad = [v for v in r.violated if v not in expect_violated]
        if bad:
            raise env.MachineryError(
                f"design model {name} violates {bad}; see {getattr(r, 'meta', '?')}/tlc.out")

    def finish(self):
        for kid, (e, n) in sorted(self.known.items()):
            print(f"KNOWN-FINDING: property={self.pid} {e['what']} [{kid}; {n} case(s)]")
            self.ev.known.append({"id": kid, "cases": n})
        for sig, path in self.new:
            print(f"VIOLATION property={self.pid} replay={path}")
            print("  signature:", json.dumps(sig, default=str)[:400])
        self.ev.violations = len(self.new)
        p = self.ev.write()
        c = self.ev.cov
        print(f"[{self.pid}/{self.tier}] states={c['states']} traces={c['traces_validated_against_impl']}"
              f" evaluations={c['evaluations']} distinct_nontrivial={c['distinct_nontrivial']}"
              f" violations={len(self.new)} known={len(self.known)} wall={time.time()-self.t0:.1f}s -> {p}")
        return 1 if self.new else 0
