"""Generator round trip for tests/packgen.py (C18): a shipped table is turned back into the XML shape
the generator reads (one element per item with the attributes the generator looks at, the sections it
derives the key lists from), the REAL generator functions write modules into a scratch package, and
the layout extracted from the regenerated modules is compared with the layout of the shipped ones.

The inverse mapping is the harness's; what is exercised is the generator's: attribute -> constructor
argument mapping, type dispatch (Temp by tag name, Word/word), skipped tags, constant obfuscation,
key-list derivation, module naming."""
import importlib
import importlib.util
import os
import shutil
import sys
import tempfile
import xml.etree.ElementTree as ET

from . import env, packs
from .layout import _rec_item

PKG = "gvgenpkg"


def _load_packgen():
    path = os.path.join(env.REPO, "tests", "packgen.py")
    spec = importlib.util.spec_from_file_location("gv_packgen_under_test", path)
    mod = importlib.util.module_from_spec(spec)
    spec.loader.exec_module(mod)
    return mod


def _item_element(parent, tag, acc):
    e = ET.SubElement(parent, tag)
    e.set("Pos", str(acc.pos))
    e.set("Type", acc.type)
    if acc.bitpos is not None:
        e.set("BitPos", str(acc.bitpos))
    if acc.type == "Enum":
        e.set("Items", "|".join(acc.items))
        if acc.length == 2:
            e.set("Size", "2")
        if acc.maxitems is not None:
            e.set("MaxItems", str(acc.maxitems))
    if acc.read_write is not None:
        e.set("RW", acc.read_write)
    return e


def _struct_xml(kind, tb, root_tag):
    """XML for one config / log structure with the items in table order"""
    accs = tb.accessors
    x = ET.Element(root_tag)
    x.set("LibRev", str(tb.version))
    outputs = list(tb.output_keys) if kind == "cfg" else []
    if kind == "log":
        x.set("Begin", str(tb.begin))
        x.set("End", str(tb.end))
        ds = ET.SubElement(x, "DeviceStatus")
        for d in list(tb.all_device_keys)[:-1]:
            ET.SubElement(ds, d)
        ud = ET.SubElement(x, "UserDemands")
        for d in tb.user_demand_keys:
            ET.SubElement(ud, d)
        em = ET.SubElement(x, "ErrorMessages")
        for d in tb.error_keys:
            ET.SubElement(em, d)
    for tag, acc in accs.items():
        sec = ET.SubElement(x, "HCOutputConfig" if tag in outputs else "Items")
        _item_element(sec, tag, acc)
    return x


class RoundTrip:
    def __init__(self):
        self.tmp = tempfile.mkdtemp(prefix="gvgen")
        os.makedirs(os.path.join(self.tmp, PKG, "packs"))
        with open(os.path.join(self.tmp, PKG, "__init__.py"), "w") as f:
            f.write("")
        with open(os.path.join(self.tmp, PKG, "accessor.py"), "w") as f:
            f.write("from geckolib.driver.accessor import *  # noqa\n"
                    "from geckolib.driver.accessor import (GeckoByteStructAccessor, GeckoWordStructAccessor, GeckoTimeStructAccessor,\n"
                    "    GeckoBoolStructAccessor, GeckoEnumStructAccessor, GeckoTempStructAccessor, GeckoStructAccessor)\n")
        self.pg = _load_packgen()
        self.pg.CODE_PATH = os.path.join(self.tmp, PKG, "packs")
        sys.path.insert(0, self.tmp)

    def close(self):
        if self.tmp in sys.path:
            sys.path.remove(self.tmp)
        for k in [k for k in sys.modules if k == PKG or k.startswith(PKG + ".")]:
            del sys.modules[k]
        shutil.rmtree(self.tmp, ignore_errors=True)

    def regenerate(self, platform_mod, cfg_mods, log_mods):
        """run the real generator for one platform with the given config / log tables
        -> dict module name -> extracted record set (same shape as layout.extract)"""
        import contextlib
        import io
        from geckolib.driver import GeckoStructure
        st = GeckoStructure(None)
        ptb = packs.table(platform_mod, st)
        plat = ET.Element("Plateform")
        plat.set("Segment", "aMainControl")
        plat.set("Name", ptb.name)
        plat.set("Type", str(ptb.type))
        ls = ET.SubElement(plat, "LogStructures")
        for m in log_mods:
            e = _struct_xml("log", packs.table(m, st), "LogStructure")
            ls.append(e)
        cs = ET.SubElement(plat, "ConfigStructures")
        for m in cfg_mods:
            e = _struct_xml("cfg", packs.table(m, st), "ConfigStructure")
            cs.append(e)
        with contextlib.redirect_stdout(io.StringIO()):
            self.pg.build_plateform(plat, f'"{ptb.revision}"')
        out = {}
        importlib.invalidate_caches()
        for m in [platform_mod] + list(cfg_mods) + list(log_mods):
            name = m["name"]
            full = f"{PKG}.packs.{name}"
            sys.modules.pop(full, None)
            try:
                mod = importlib.import_module(full)
            except Exception as e:  # noqa
                out[name] = {"error": f"{type(e).__name__}: {e}"}
                continue
            st2 = GeckoStructure(None)
            if m["kind"] == "pack":
                tb = mod.GeckoPack(st2)
                out[name] = {"@table": {"kind": "pack", "name": tb.name, "type": int(tb.type), "revision": str(tb.revision)}}
                continue
            tb = (mod.GeckoConfigStruct if m["kind"] == "cfg" else mod.GeckoLogStruct)(st2)
            t = {"kind": m["kind"], "version": int(tb.version)}
            if m["kind"] == "cfg":
                t["output_keys"] = list(tb.output_keys)
            else:
                t["begin"], t["end"] = int(tb.begin), int(tb.end)
                t["all_device_keys"] = list(tb.all_device_keys)
                t["user_demand_keys"] = list(tb.user_demand_keys)
                t["error_keys"] = sorted(tb.error_keys)          # the generator de-duplicates through a set
            accs = tb.accessors
            t["tags"] = list(accs)
            rec = {"@table": t}
            for tag, acc in accs.items():
                rec[tag] = _rec_item(acc)
            out[name] = rec
        return out
