"""Complete extraction of the shipped pack tables through real table/accessor objects."""
from . import packs


def _rec_item(acc):
    s = packs.shape_of(acc)
    items = acc.items if isinstance(acc.items, list) else None
    return {"pos": int(acc.pos), "shape": s, "labels": list(items) if items is not None else [],
            "maxitems": int(acc.maxitems) if acc.maxitems is not None else 0,
            "cls": type(acc).__name__, "format": acc.format}


def extract():
    """-> dict key -> record.  Keys: '<module>.<item>' and '<module>.@table'."""
    from geckolib.driver import GeckoStructure
    out = {}
    st = GeckoStructure(None)
    for m in packs.modules():
        tb = packs.table(m, st)
        if m["kind"] == "pack":
            out[f"{m['name']}.@table"] = {"kind": "pack", "name": tb.name, "type": int(tb.type),
                                          "revision": str(tb.revision)}
            continue
        t = {"kind": m["kind"], "version": int(tb.version)}
        if m["kind"] == "cfg":
            t["output_keys"] = list(tb.output_keys)
        else:
            t["begin"] = int(tb.begin)
            t["end"] = int(tb.end)
            t["all_device_keys"] = list(tb.all_device_keys)
            t["user_demand_keys"] = list(tb.user_demand_keys)
            t["error_keys"] = list(tb.error_keys)
        accs = tb.accessors
        t["tags"] = list(accs)
        out[f"{m['name']}.@table"] = t
        for tag, acc in accs.items():
            out[f"{m['name']}.{tag}"] = _rec_item(acc)
    return out
