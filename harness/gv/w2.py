"""W2 — the threaded (blocking) stack stepped deterministically without threads.

threading.Thread is replaced by an inert class, time.monotonic by a virtual clock, the
UDP socket by a mock wire.  One engine iteration is the body of
GeckoUdpSocket._thread_func, executed by `step()` in the same order as the code.
"""
import socket as _socket
import threading as _threading
import time as _time


class _IterationDone(Exception):
    pass


class CoopThreads:
    """Helper threads of the blocking stack (the spa's ping thread, the facade's update thread) run as REAL
    threads, but only ever one at a time and only when the harness lets them: a thread runs until it parks in
    GeckoUdpSocket.wait(timeout), which records its virtual wake-up time; `run_due()` (called before every
    engine pass) resumes the threads whose time has come and waits until each is parked again.
    Deterministic, on the virtual clock."""

    def __init__(self, clock, real_thread_cls):
        self.clock = clock
        self.real = real_thread_cls
        self.cv = _threading.Condition()
        self.recs = []

    def spawn(self, target):
        rec = {"wake": self.clock.t, "go": False, "done": False, "thread": None, "error": None,
               "name": getattr(target, "__name__", "")}

        def body():
            with self.cv:
                while not rec["go"]:
                    self.cv.wait()
            try:
                target()
            except BaseException as e:  # noqa
                rec["error"] = e        # (the thread simply ends, as a real thread would)
            finally:
                with self.cv:
                    rec["done"] = True
                    rec["go"] = False
                    self.cv.notify_all()

        rec["thread"] = self.real(target=body, daemon=True)
        self.recs.append(rec)
        rec["thread"].start()

    def _mine(self):
        cur = _threading.current_thread()
        for rec in self.recs:
            if rec["thread"] is cur:
                return rec
        return None

    def park(self, timeout):
        """called (through the patched GeckoUdpSocket.wait) by a helper thread; False if the caller is not one"""
        rec = self._mine()
        if rec is None:
            return False
        with self.cv:
            rec["wake"] = self.clock.t + max(0.0, timeout)
            rec["go"] = False
            self.cv.notify_all()
            while not rec["go"]:
                self.cv.wait()
        return True

    def run_due(self, force=False):
        for rec in self.recs:
            if rec["done"] or (not force and rec["wake"] > self.clock.t + 1e-12):
                continue
            with self.cv:
                rec["go"] = True
                self.cv.notify_all()
                while rec["go"] and not rec["done"]:
                    self.cv.wait(timeout=30)

    def finish(self):
        """let every helper thread observe that its socket is closed and end"""
        for _ in range(3):
            self.run_due(force=True)
        return len([r for r in self.recs if not r["done"]])


class InertThread:
    coop = None          # set by W2 while a world with cooperative helper threads is active

    def __init__(self, *a, **kw):
        self.target = kw.get("target")
        self.started = False

    def start(self):
        self.started = True
        t = self.target
        if InertThread.coop is not None and t is not None and getattr(t, "__name__", "") != "_thread_func":
            InertThread.coop.spawn(t)

    def join(self, timeout=None):
        return

    def is_alive(self):
        return False


class MockSock:
    def __init__(self, clock):
        self.clock = clock
        self.wire = []      # (t, data, dest)
        self.inbox = []     # (data, sender)
        self.closed = False

    def settimeout(self, t):
        pass

    def setsockopt(self, *a):
        pass

    def bind(self, *a):
        pass

    def close(self):
        self.closed = True

    def sendto(self, data, dest):
        self.wire.append((self.clock.t, bytes(data), dest))

    def recvfrom(self, n):
        if self.inbox:
            item = self.inbox.pop(0)
            # (a datagram longer than the buffer the caller offers is cut to it, as the operating system does)
            return (item[0][:n],) + tuple(item[1:])
        raise _socket.timeout()


class Clock:
    def __init__(self):
        self.t = 1000.0


class W2:
    def __init__(self, helper_threads=False):
        self.clock = Clock()
        self.helper_threads = helper_threads
        self.coop = None

    def __enter__(self):
        self._thread = _threading.Thread
        self._mono = _time.monotonic
        _threading.Thread = InertThread
        clock = self.clock
        _time.monotonic = lambda: clock.t
        if self.helper_threads:
            import geckolib.driver.udp_socket as us
            self.coop = CoopThreads(clock, self._thread)
            InertThread.coop = self.coop
            self._saved_wait = us.GeckoUdpSocket.wait
            coop = self.coop

            def wait(sock, timeout):
                coop.park(timeout)          # (the harness's own thread has nothing to wait for in a stepped world)
                return None
            us.GeckoUdpSocket.wait = wait
        return self

    def __exit__(self, *a):
        if self.coop is not None:
            import geckolib.driver.udp_socket as us
            try:
                self.coop.finish()
            finally:
                us.GeckoUdpSocket.wait = self._saved_wait
                InertThread.coop = None
        _threading.Thread = self._thread
        _time.monotonic = self._mono
        return False

    def advance(self, dt):
        self.clock.t += dt

    @staticmethod
    def step(sock, substeps=None):
        """One iteration of the engine thread.  Without `substeps`: exactly one pass of the REAL
        GeckoUdpSocket._thread_func loop body (the loop is entered and left again when it comes round to
        its first statement a second time), so that the order, the skipping and the repetition of the
        sub-steps are the code's own.  With `substeps`: the named sub-steps only (C20's replay steps the
        model's sub-actions one by one)."""
        if substeps is None:
            if InertThread.coop is not None:
                InertThread.coop.run_due()
            if not sock.isopen:
                return
            calls = [0]
            orig = type(sock)._process_send_requests

            def first_statement():
                calls[0] += 1
                if calls[0] > 1:
                    raise _IterationDone()
                return orig(sock)

            sock._process_send_requests = first_statement
            try:
                sock._thread_func()
            except _IterationDone:
                pass
            finally:
                del sock._process_send_requests
            return
        if "send" in substeps:
            sock._process_send_requests()
        if "recv" in substeps:
            sock._process_received_data()
        if "loop" in substeps:
            for handler in sock._receive_handlers:
                handler.loop(sock)
        if "cleanup" in substeps:
            sock._cleanup_handlers()
        if "hook" in substeps:
            sock._loop_func()


class Descriptor:
    def __init__(self, ident=b"SPA01:02:03:04:05:06", client=b"IOSclient", dest=("10.0.0.1", 10022), name="spa"):
        self.identifier = ident
        self.client_identifier = client
        self.destination = dest
        self.name = name
        self.identifier_as_string = ident.decode("latin1")
