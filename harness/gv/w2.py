"""W2 — the threaded (blocking) stack stepped deterministically without threads.

threading.Thread is replaced by an inert class, time.monotonic by a virtual clock, the
UDP socket by a mock wire.  One engine iteration is the body of
GeckoUdpSocket._thread_func, executed by `step()` in the same order as the code.
"""
import socket as _socket
import threading as _threading
import time as _time


class InertThread:
    def __init__(self, *a, **kw):
        self.target = kw.get("target")
        self.started = False

    def start(self):
        self.started = True

    def join(self, timeout=None):
        return

    def is_alive(self):
        return False


class MockSock:
    def __init__(self, clock):
        self.clock = clock
        self.wire = []      # (t, data, dest)
        self.inbox = []     # (data, sender)
        self.closed = False

    def settimeout(self, t):
        pass

    def setsockopt(self, *a):
        pass

    def bind(self, *a):
        pass

    def close(self):
        self.closed = True

    def sendto(self, data, dest):
        self.wire.append((self.clock.t, bytes(data), dest))

    def recvfrom(self, n):
        if self.inbox:
            return self.inbox.pop(0)
        raise _socket.timeout()


class Clock:
    def __init__(self):
        self.t = 1000.0


class W2:
    def __init__(self):
        self.clock = Clock()

    def __enter__(self):
        self._thread = _threading.Thread
        self._mono = _time.monotonic
        _threading.Thread = InertThread
        clock = self.clock
        _time.monotonic = lambda: clock.t
        return self

    def __exit__(self, *a):
        _threading.Thread = self._thread
        _time.monotonic = self._mono
        return False

    def advance(self, dt):
        self.clock.t += dt

    @staticmethod
    def step(sock, substeps=("send", "recv", "loop", "cleanup", "hook")):
        """One iteration of GeckoUdpSocket._thread_func's body."""
        if "send" in substeps:
            sock._process_send_requests()
        if "recv" in substeps:
            sock._process_received_data()
        if "loop" in substeps:
            for handler in sock._receive_handlers:
                handler.loop(sock)
        if "cleanup" in substeps:
            sock._cleanup_handlers()
        if "hook" in substeps:
            sock._loop_func()


class Descriptor:
    def __init__(self, ident=b"SPA01:02:03:04:05:06", client=b"IOSclient", dest=("10.0.0.1", 10022), name="spa"):
        self.identifier = ident
        self.client_identifier = client
        self.destination = dest
        self.name = name
        self.identifier_as_string = ident.decode("latin1")
