"""W2 — the threaded (blocking) stack stepped deterministically without threads.

threading.Thread is replaced by an inert class, time.monotonic by a virtual clock, the
UDP socket by a mock wire.  One engine iteration is the body of
GeckoUdpSocket._thread_func, executed by `step()` in the same order as the code.
"""
import socket as _socket
import threading as _threading
import time as _time


class _IterationDone(Exception):
    pass


class InertThread:
    def __init__(self, *a, **kw):
        self.target = kw.get("target")
        self.started = False

    def start(self):
        self.started = True

    def join(self, timeout=None):
        return

    def is_alive(self):
        return False


class MockSock:
    def __init__(self, clock):
        self.clock = clock
        self.wire = []      # (t, data, dest)
        self.inbox = []     # (data, sender)
        self.closed = False

    def settimeout(self, t):
        pass

    def setsockopt(self, *a):
        pass

    def bind(self, *a):
        pass

    def close(self):
        self.closed = True

    def sendto(self, data, dest):
        self.wire.append((self.clock.t, bytes(data), dest))

    def recvfrom(self, n):
        if self.inbox:
            return self.inbox.pop(0)
        raise _socket.timeout()


class Clock:
    def __init__(self):
        self.t = 1000.0


class W2:
    def __init__(self):
        self.clock = Clock()

    def __enter__(self):
        self._thread = _threading.Thread
        self._mono = _time.monotonic
        _threading.Thread = InertThread
        clock = self.clock
        _time.monotonic = lambda: clock.t
        return self

    def __exit__(self, *a):
        _threading.Thread = self._thread
        _time.monotonic = self._mono
        return False

    def advance(self, dt):
        self.clock.t += dt

    @staticmethod
    def step(sock, substeps=None):
        """One iteration of the engine thread.  Without `substeps`: exactly one pass of the REAL
        GeckoUdpSocket._thread_func loop body (the loop is entered and left again when it comes round to
        its first statement a second time), so that the order, the skipping and the repetition of the
        sub-steps are the code's own.  With `substeps`: the named sub-steps only (C20's replay steps the
        model's sub-actions one by one)."""
        if substeps is None:
            if not sock.isopen:
                return
            calls = [0]
            orig = type(sock)._process_send_requests

            def first_statement():
                calls[0] += 1
                if calls[0] > 1:
                    raise _IterationDone()
                return orig(sock)

            sock._process_send_requests = first_statement
            try:
                sock._thread_func()
            except _IterationDone:
                pass
            finally:
                del sock._process_send_requests
            return
        if "send" in substeps:
            sock._process_send_requests()
        if "recv" in substeps:
            sock._process_received_data()
        if "loop" in substeps:
            for handler in sock._receive_handlers:
                handler.loop(sock)
        if "cleanup" in substeps:
            sock._cleanup_handlers()
        if "hook" in substeps:
            sock._loop_func()


class Descriptor:
    def __init__(self, ident=b"SPA01:02:03:04:05:06", client=b"IOSclient", dest=("10.0.0.1", 10022), name="spa"):
        self.identifier = ident
        self.client_identifier = client
        self.destination = dest
        self.name = name
        self.identifier_as_string = ident.decode("latin1")
