"""Paths, seeds and import plumbing shared by every check."""
import os
import sys
import random
import subprocess

VERIF = os.path.dirname(os.path.dirname(os.path.dirname(os.path.abspath(__file__))))
REPO = os.environ.get("GV_REPO", "/repo")
SRC = os.path.join(REPO, "src")
SPEC = os.path.join(VERIF, "spec")
OUT = os.path.join(VERIF, "out")
EVIDENCE = os.path.join(VERIF, "evidence")
GUARD = "GECKOLIB_VERIF"


def seed() -> int:
    try:
        return int(os.environ.get("VERIF_SEED", "0"))
    except ValueError:
        return 0


def rng(tag: str = "") -> random.Random:
    return random.Random(f"{seed()}:{tag}")


def use_repo():
    """Make `import geckolib` resolve to the working tree under REPO."""
    if SRC in sys.path:
        sys.path.remove(SRC)
    sys.path.insert(0, SRC)
    os.environ[GUARD] = "1"
    import logging

    logging.disable(logging.CRITICAL)
    import geckolib  # noqa

    got = os.path.dirname(os.path.dirname(os.path.abspath(geckolib.__file__)))
    if os.path.realpath(got) != os.path.realpath(SRC):
        raise MachineryError(f"geckolib imported from {got}, wanted {SRC}")
    return geckolib


def repo_rev() -> str:
    try:
        r = subprocess.run(
            ["git", "-C", REPO, "rev-parse", "--short", "HEAD"],
            capture_output=True, text=True, timeout=20,
        ).stdout.strip()
        d = subprocess.run(
            ["git", "-C", REPO, "status", "--porcelain", "--", "src"],
            capture_output=True, text=True, timeout=20,
        ).stdout.strip()
        return r + ("+dirty" if d else "")
    except Exception:
        return "unknown"


def outdir(*parts) -> str:
    p = os.path.join(OUT, *parts)
    os.makedirs(p, exist_ok=True)
    return p


class MachineryError(Exception):
    """The framework itself could not run (exit 2, never reported as a violation)."""
