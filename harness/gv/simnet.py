"""Network double and in-process adapter for the bundled GeckoSimulator (never opened).

Network.client_send(transport, data, addr) is called by FakeTransport.sendto.  The
datagram's fate is decided by `policy` (a callable or the default scripted phases);
delivered datagrams reach peers (`Peer.on_datagram`) whose replies are scheduled back
to the transport with a latency.  Everything is logged with virtual timestamps.
"""
import contextlib
import io
import logging
import random

SIM_ADDR = ("10.0.0.1", 10022)


class SimPeer:
    """The real GeckoSimulator, driven in-process."""

    def __init__(self, snapshot_file=None, snapshot=None, name=None, seg=None, first_commands=None):
        from geckolib import GeckoSimulator  # noqa
        from geckolib.utils.snapshot import GeckoSnapshot

        root = logging.getLogger()
        before = list(root.handlers)
        with contextlib.redirect_stdout(io.StringIO()):
            # first_commands: the scripted way of bringing a simulator up (GeckoSimulator(["load <file>", ...]))
            self.sim = GeckoSimulator(first_commands) if first_commands else GeckoSimulator()
        for h in list(root.handlers):
            if h not in before:
                root.removeHandler(h)
        if snapshot is None and snapshot_file is not None:
            snaps = GeckoSnapshot.parse_log_file(snapshot_file)
            snapshot = snaps[0]
        if snapshot is not None:
            with contextlib.redirect_stdout(io.StringIO()):
                self.sim.set_snapshot(snapshot)
        if name is not None:
            self.sim.do_name(name)
            # the standard handler list holds the old hello handler: replace it
            hs = self.sim._socket._receive_handlers
            hs[0] = self.sim._hello_handler
        if seg is not None:
            self.sim._STATUS_BLOCK_SEGMENT_SIZE = seg
        self.addr = SIM_ADDR
        self.rferr = False

    def on_datagram(self, data, sender):
        sock = self.sim._socket
        self.sim._do_rferr = self.rferr
        with contextlib.redirect_stdout(io.StringIO()):
            sock.dispatch_recevied_data(data, sender)
        out = []
        while sock._send_handlers:
            h, dest = sock._send_handlers.pop(0)
            out.append((h.send_bytes, (dest[0], dest[1])))
        return out

    def push_changes(self, client_parms, changes):
        """Unsolicited STATP to a client (parms = (ip, port, src_id, dst_id) as the
        simulator would have recorded from the client's last packet)."""
        from geckolib.driver import GeckoPartialStatusBlockProtocolHandler
        h = GeckoPartialStatusBlockProtocolHandler.report_changes(self.sim._socket, changes, parms=client_parms)
        return h.send_bytes


class Network:
    """Fault-injecting wire between FakeTransports and peers."""

    def __init__(self, peers=None, latency=0.01, seed=0):
        self.loop = None
        self.peers = peers or []
        self.latency = latency
        self.rng = random.Random(seed)
        self.log = []            # (t, dir, data, info)
        self.phases = []         # [(t_from, t_to, kind, param)]
        self.c2s = None          # callable(data, now, n) -> list of delays (empty = drop) or None=default
        self.s2c = None
        self.n_c2s = 0
        self.n_s2c = 0
        self.on_event = None
        self.blackhole = False

    # ---- scripted phases ---------------------------------------------------
    def phase_at(self, now):
        for (a, b, kind, param) in self.phases:
            if a <= now < b:
                return kind, param
        return "ok", None

    def _default_fate(self, data, now, n, direction):
        kind, param = self.phase_at(now)
        if self.blackhole or kind == "blackout":
            return []
        if kind == "noping":
            # a selective loss: every ping (request or answer) is lost, everything else gets through
            if b"APING" in data:
                return []
        if kind == "lossy":
            if self.rng.random() < param:
                return []
        return [self.latency]

    def client_send(self, transport, data, addr):
        now = self.loop.time()
        self.n_c2s += 1
        fates = None
        if self.phase_at(now)[0] == "firstlost":
            # the first datagram that leaves a newly opened endpoint is lost (an expired ARP entry, a radio module
            # waking up); everything after it gets through
            seen = self.__dict__.setdefault("_first_seen", set())
            if transport.id not in seen:
                seen.add(transport.id)
                fates = []
        if fates is None and self.c2s is not None:
            fates = self.c2s(data, now, self.n_c2s)
        if fates is None:
            fates = self._default_fate(data, now, self.n_c2s, "c2s")
        self.log.append((now, "c2s", data, {"to": addr, "fates": list(fates), "tr": transport.id}))
        for d in fates:
            self.loop.call_at(now + d, self._at_peer, transport, data, addr)

    def _at_peer(self, transport, data, addr):
        now = self.loop.time()
        kind, param = self.phase_at(now)
        for peer in self.peers:
            if addr is not None and addr[0] not in ("<broadcast>", "255.255.255.255") and not addr[0].endswith(".255") \
                    and addr[0] != peer.addr[0]:
                continue            # (x.y.z.255: a subnet's directed broadcast reaches every peer)
            if hasattr(peer, "rferr"):
                peer.rferr = kind == "rferr"
            for item in peer.on_datagram(data, transport.local):
                reply, dest = item[0], item[1]
                extra = item[2] if len(item) > 2 else 0.0
                self.n_s2c += 1
                fates = None
                if self.s2c is not None:
                    fates = self.s2c(reply, now, self.n_s2c)
                if fates is None:
                    fates = [f + extra for f in self._default_fate(reply, now, self.n_s2c, "s2c")]
                self.log.append((now, "s2c", reply, {"from": peer.addr, "fates": list(fates), "tr": transport.id}))
                for d in fates:
                    self.loop.call_at(now + d, self._at_client, transport, reply, peer.addr)

    def _at_client(self, transport, data, addr):
        if self.on_event:
            self.on_event("deliver", data, transport)
        transport.deliver(data, addr)

    def inject(self, transport, data, addr, delay=0.0):
        """Deliver an arbitrary datagram to a client endpoint (stray traffic)."""
        self.log.append((self.loop.time(), "inj", data, {"tr": transport.id}))
        self.loop.call_at(self.loop.time() + delay, self._at_client, transport, data, addr)
