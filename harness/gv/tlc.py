"""TLC runner: model checking, batch judging of records, trace validation.

Three ways TLC is used:

* model_check(): exhaustive (or -simulate) exploration of a bounded design spec.
* judge(): function-shaped code.  Records produced by the real code are written as
  NDJSON, a judge module defines `Ok(r)` / `Why(r)` over them and TLC evaluates the
  predicate for every record (TLC is the only oracle; Python only parses the verdict).
* validate(): stateful code.  Each recorded execution (a JSON log) is checked to be a
  behaviour of a trace spec that reuses the design spec's actions; many logs per JVM,
  verdict per log = accepted | rejected at event k.
"""
import json
import os
import re
import shutil
import subprocess
import time
from concurrent.futures import ThreadPoolExecutor

from . import env

JAR = "/opt/veriftools/tla/tla2tools.jar"
CM = "/opt/veriftools/tla/CommunityModules-deps.jar"


def _java(heap="1g", gc="Serial", dfs=False):
    cmd = ["java", f"-XX:+Use{gc}GC", f"-Xmx{heap}", "-Xss64m", "-XX:TieredStopAtLevel=1"]
    if gc == "Parallel":
        cmd = ["java", "-XX:+UseParallelGC", f"-Xmx{heap}"]
    if dfs:
        cmd.append("-Dtlc2.tool.queue.IStateQueue=StateDeque")
    cmd += ["-cp", f"{JAR}:{CM}", "tlc2.TLC"]
    return cmd


class TlcResult:
    def __init__(self, out, rc, wall):
        self.out = out
        self.rc = rc
        self.wall = wall
        m = re.search(r"(\d+) states generated, (\d+) distinct states found", out)
        self.generated = int(m.group(1)) if m else 0
        self.distinct = int(m.group(2)) if m else 0
        if not m:
            # a run that was cut off by the outer timeout: the last progress line says how far it got
            pm = re.findall(r"Progress\(\d+\)[^\n]*?: ([\d,]+) states generated[^\n]*?, ([\d,]+) distinct states found", out)
            if pm:
                self.generated = int(pm[-1][0].replace(",", ""))
                self.distinct = int(pm[-1][1].replace(",", ""))
        m = re.search(r"depth of the complete state graph search is (\d+)", out)
        self.depth = int(m.group(1)) if m else 0
        self.violated = re.findall(
            r"Error: (?:Invariant|Action property) (\w+) is violated", out
        )
        self.violated += re.findall(r"Error: Temporal property (\w+) was violated", out)
        if "Temporal properties were violated" in out:
            self.violated.append("TEMPORAL")
        if "Deadlock reached" in out:
            self.violated.append("DEADLOCK")
        self.completed = "Model checking completed. No error has been found." in out
        self.sim = "Running Random Simulation" in out or "simulation" in out.lower()
        self.errors = [
            l for l in out.splitlines()
            if l.startswith("Error:") or "Exception" in l or "*** Errors" in l
        ]
        self.coverage = {}
        for m in re.finditer(r"^<(\w+) line [^>]* of module (\w+)>: (\d+):(\d+)", out, re.M):
            name = m.group(1)
            d, t = int(m.group(3)), int(m.group(4))
            a, b = self.coverage.get(name, (0, 0))
            self.coverage[name] = (a + d, b + t)
        self.prints = []
        for l in out.splitlines():
            if l.startswith("<<\"GV"):
                self.prints.append(l)

    @property
    def ok(self):
        return self.completed and not self.violated

    def machinery_failure(self):
        """True when TLC did not run to a verdict (parse error, crash, timeout)."""
        if self.violated:
            return False
        return not self.completed and not self.sim_done()

    def sim_done(self):
        return "The number of states generated:" in self.out or "Progress:" in self.out


def model_check(module, cfg, workers=16, timeout=900, simulate=None, depth=None,
                seed=None, heap="8g", tag=None, envv=None, coverage=True, dfs=False,
                extra=None):
    """Run TLC on spec/<module>.tla with spec/<cfg>.  Returns TlcResult."""
    tag = tag or f"{module}-{os.path.splitext(os.path.basename(cfg))[0]}"
    meta = env.outdir("tlc", tag)
    shutil.rmtree(meta, ignore_errors=True)
    os.makedirs(meta, exist_ok=True)
    cmd = _java(heap=heap, gc="Parallel", dfs=dfs)
    cmd += ["-workers", str(workers), "-metadir", meta, "-noGenerateSpecTE"]
    if coverage and not simulate:
        cmd += ["-coverage", "1"]
    if simulate:
        cmd += ["-simulate", simulate]
    if depth:
        cmd += ["-depth", str(depth)]
    if seed is not None:
        cmd += ["-seed", str(seed)]
    if extra:
        cmd += extra
    cmd += ["-config", cfg, module + ".tla"]
    e = dict(os.environ)
    if envv:
        e.update({k: str(v) for k, v in envv.items()})
    t0 = time.time()
    try:
        p = subprocess.run(cmd, cwd=env.SPEC, capture_output=True, text=True,
                           timeout=timeout, env=e)
        out, rc = p.stdout + p.stderr, p.returncode
    except subprocess.TimeoutExpired as ex:
        out = (ex.stdout or b"").decode("utf8", "replace") if isinstance(ex.stdout, bytes) else (ex.stdout or "")
        out += "\nGV-TIMEOUT\n"
        rc = -9
        subprocess.run(["pkill", "-f", meta], capture_output=True)
    wall = time.time() - t0
    with open(os.path.join(meta, "tlc.out"), "w") as f:
        f.write(out)
    shutil.rmtree(os.path.join(meta, "states"), ignore_errors=True)
    r = TlcResult(out, rc, wall)
    r.meta = meta
    r.timed_out = rc == -9
    return r


def require_ok(r: TlcResult, what: str):
    """Design-model runs must complete without violation; anything else is machinery."""
    if r.violated:
        return
    if not r.completed and not r.timed_out:
        tail = "\n".join(r.out.splitlines()[-25:])
        raise env.MachineryError(f"TLC did not complete for {what}:\n{tail}")


# --------------------------------------------------------------------------------
# Batch judging


def _judge_one(module, path, envv, heap, timeout, cfg="Judge.cfg"):
    meta = path + ".meta"
    shutil.rmtree(meta, ignore_errors=True)
    cmd = _java(heap=heap) + ["-workers", "1", "-metadir", meta, "-noGenerateSpecTE",
                              "-config", cfg, module + ".tla"]
    e = dict(os.environ)
    e["GV_RECS"] = path
    if envv:
        e.update({k: str(v) for k, v in envv.items()})
    p = subprocess.run(cmd, cwd=env.SPEC, capture_output=True, text=True, timeout=timeout, env=e)
    shutil.rmtree(meta, ignore_errors=True)
    return p.stdout + p.stderr


def _parse_tla_value(s):
    """Parse the small subset of TLA+ values our judges print: ints, strings, tuples, sets."""
    pos = 0

    def ws():
        nonlocal pos
        while pos < len(s) and s[pos] in " \n\t":
            pos += 1

    def val():
        nonlocal pos
        ws()
        if s.startswith("<<", pos):
            pos += 2
            items = seq(">>")
            return items
        if s[pos] == "{":
            pos += 1
            return seq("}")
        if s[pos] == '"':
            j = pos + 1
            buf = []
            while s[j] != '"':
                if s[j] == "\\":
                    j += 1
                buf.append(s[j])
                j += 1
            pos = j + 1
            return "".join(buf)
        m = re.match(r"-?\d+", s[pos:])
        if m:
            pos += m.end()
            return int(m.group(0))
        m = re.match(r"TRUE|FALSE", s[pos:])
        if m:
            pos += m.end()
            return m.group(0) == "TRUE"
        m = re.match(r"[A-Za-z_][A-Za-z0-9_]*", s[pos:])
        if m:
            pos += m.end()
            return m.group(0)
        raise ValueError(f"cannot parse TLA value at {pos}: {s[pos:pos+40]!r}")

    def seq(close):
        nonlocal pos
        items = []
        ws()
        if s.startswith(close, pos):
            pos += len(close)
            return items
        while True:
            items.append(val())
            ws()
            if s.startswith(close, pos):
                pos += len(close)
                return items
            if s[pos] == ",":
                pos += 1
            else:
                raise ValueError(f"expected , or {close} at {pos}: {s[pos:pos+40]!r}")

    v = val()
    return v


def gv_prints(out):
    """All `<<"GV...", ...>>` values printed by PrintT in a TLC run (multi-line safe)."""
    res = []
    i = 0
    pat = re.compile(r'<<\s*"GV')
    while True:
        m = pat.search(out, i)
        if not m:
            break
        i = m.start()
        depth = 0
        j = i
        instr = False
        while j < len(out):
            c = out[j]
            if instr:
                if c == "\\":
                    j += 1
                elif c == '"':
                    instr = False
            elif c == '"':
                instr = True
            elif out.startswith("<<", j):
                depth += 1
                j += 1
            elif out.startswith(">>", j):
                depth -= 1
                j += 1
                if depth == 0:
                    break
            j += 1
        res.append(_parse_tla_value(out[i:j + 1]))
        i = j + 1
    return res


def judge(module, records, tag, envv=None, chunk=40000, heap="1500m", timeout=1800, jobs=8, cfg="Judge.cfg"):
    """Judge records with spec/<module>.tla (must print <<"GVBAD", {<<k, why>>...}, n>>).

    Returns (bad, n_judged) where bad = list of (record_index, why).  Raises
    MachineryError if any chunk produced no verdict."""
    d = env.outdir("judge", tag)
    for f in os.listdir(d):
        if f.endswith(".ndjson"):
            os.remove(os.path.join(d, f))
    chunks = []
    for c in range(0, len(records), chunk):
        path = os.path.join(d, f"recs_{c}.ndjson")
        with open(path, "w") as f:
            for r in records[c:c + chunk]:
                f.write(json.dumps(r, separators=(",", ":")) + "\n")
        chunks.append((c, path, len(records[c:c + chunk])))
    bad = []
    total = 0

    def run(ch):
        return ch, _judge_one(module, ch[1], envv, heap, timeout, cfg)

    with ThreadPoolExecutor(max_workers=jobs) as ex:
        for (c, path, n), out in ex.map(run, chunks):
            vals = [v for v in gv_prints(out) if v and v[0] == "GVBAD"]
            if not vals:
                with open(path + ".out", "w") as f:
                    f.write(out)
                tail = "\n".join(out.splitlines()[-30:])
                raise env.MachineryError(f"judge {module} gave no verdict for {path}:\n{tail}")
            v = vals[-1]
            if v[2] != n:
                raise env.MachineryError(f"judge {module}: judged {v[2]} of {n} records")
            total += v[2]
            for item in v[1]:
                if isinstance(item, list):
                    bad.append((c + item[0] - 1, item[1] if len(item) > 1 else ""))
                else:
                    bad.append((c + item - 1, ""))
    bad.sort()
    return bad, total


# --------------------------------------------------------------------------------
# Trace validation


def validate(module, logs, tag, cfg_text, envv=None, heap="1500m", timeout=1800,
             chunk=200, jobs=8, dfs=True, why_rejects=True):
    """Validate recorded executions against trace spec spec/<module>.tla.

    `logs` is a list of JSON-able logs (each a dict with key "ev": list of events, plus
    header fields).  The trace spec must read `Logs == JsonDeserialize(IOEnv.GV_TRACES)`
    (a sequence of logs), choose `tid` in Init, and print on POSTCONDITION
    <<"GVTRACE", acceptedSet, maxl>> where maxl is a function tid -> longest matched prefix
    (printed as a sequence).  Returns list of verdict dicts per log:
    {"accepted": bool, "matched": int, "len": int}."""
    d = env.outdir("trace", tag)
    for f in os.listdir(d):
        if f.endswith(".json"):
            os.remove(os.path.join(d, f))
    cfg = os.path.join(d, "Trace.cfg")
    with open(cfg, "w") as f:
        f.write(cfg_text)
    chunks = []
    for c in range(0, len(logs), chunk):
        path = os.path.join(d, f"logs_{c}.json")
        with open(path, "w") as f:
            json.dump(logs[c:c + chunk], f, separators=(",", ":"))
        chunks.append((c, path, len(logs[c:c + chunk])))

    def run(ch):
        c, path, n = ch
        meta = path + ".meta"
        shutil.rmtree(meta, ignore_errors=True)
        cmd = _java(heap=heap, dfs=dfs) + ["-workers", "1", "-metadir", meta,
                                           "-noGenerateSpecTE", "-deadlock",
                                           "-config", cfg, module + ".tla"]
        e = dict(os.environ)
        e["GV_TRACES"] = path
        if envv:
            e.update({k: str(v) for k, v in envv.items()})
        p = subprocess.run(cmd, cwd=env.SPEC, capture_output=True, text=True,
                           timeout=timeout, env=e)
        shutil.rmtree(meta, ignore_errors=True)
        return ch, p.stdout + p.stderr

    verdicts = [None] * len(logs)
    states = 0
    with ThreadPoolExecutor(max_workers=jobs) as ex:
        for (c, path, n), out in ex.map(run, chunks):
            vals = [v for v in gv_prints(out) if v and v[0] == "GVTRACE"]
            m = re.search(r"(\d+) states generated, (\d+) distinct states found", out)
            if m:
                states += int(m.group(2))
            inv = re.findall(r"Error: (?:Invariant|Action property) (\w+) is violated", out)
            if not vals:
                with open(path + ".out", "w") as f:
                    f.write(out)
                tail = "\n".join(out.splitlines()[-30:])
                raise env.MachineryError(f"trace spec {module} gave no verdict for {path}:\n{tail}")
            v = vals[-1]
            accepted = set(v[1])
            maxl = v[2]
            whys = {}
            if len(v) > 3:
                for item in v[3]:
                    whys.setdefault(item[0], []).append(item[1])
            for k in range(n):
                L = logs[c + k].get("n", len(logs[c + k].get("ev", [])))
                verdicts[c + k] = {
                    "accepted": (k + 1) in accepted and not inv and not (why_rejects and (k + 1) in whys),
                    "matched": maxl[k] - 1 if k < len(maxl) else 0,
                    "len": L,
                    "why": whys.get(k + 1) or (inv[:1] if inv else None),
                }
    return verdicts, states


# --------------------------------------------------------------------------------
# State graph out of TLC


def dump_graph(module, cfg, tag, timeout=600):
    """Run TLC with -dump dot,actionlabels and parse the graph.

    Returns (nodes, edges, init): nodes = {id: {var: value-string}}, edges =
    [(src, dst, action-label)], init = set of initial node ids."""
    meta = env.outdir("tlc", tag)
    shutil.rmtree(meta, ignore_errors=True)
    os.makedirs(meta, exist_ok=True)
    dot = os.path.join(meta, "g.dot")
    cmd = _java(heap="4g") + ["-workers", "1", "-metadir", meta, "-noGenerateSpecTE",
                             "-dump", "dot,actionlabels", dot, "-config", cfg, module + ".tla"]
    p = subprocess.run(cmd, cwd=env.SPEC, capture_output=True, text=True, timeout=timeout)
    out = p.stdout + p.stderr
    r = TlcResult(out, p.returncode, 0)
    if not r.completed:
        raise env.MachineryError("graph dump failed for %s:\n%s" % (module, "\n".join(out.splitlines()[-20:])))
    nodes, edges, init = {}, [], set()
    node_re = re.compile(r'^(-?\d+) \[label="((?:[^"\\]|\\.)*)"')
    edge_re = re.compile(r'^(-?\d+) -> (-?\d+) \[label="((?:[^"\\]|\\.)*)"')
    with open(dot) as f:
        for line in f:
            m = edge_re.match(line)
            if m:
                edges.append((m.group(1), m.group(2), m.group(3)))
                continue
            m = node_re.match(line)
            if m:
                lab = m.group(2).replace('\\"', '"')
                d = {}
                for part in lab.split("\\n"):
                    part = part.strip()
                    if part.startswith("/\\\\ "):
                        part = part[4:]
                    if " = " in part:
                        k, v = part.split(" = ", 1)
                        d[k.strip()] = v.strip()
                nodes[m.group(1)] = d
                if "style = filled" in line:
                    init.add(m.group(1))
    shutil.rmtree(os.path.join(meta, "states"), ignore_errors=True)
    os.remove(dot)
    return nodes, edges, init, r


def apalache(module, init, inv, length, tag, timeout=600):
    """apalache-mc check --init=<init> --inv=<inv> --length=<n>; -> (ok, seconds, tail of the output).
    ok is True (no error up to the length), False (a counterexample), None (the tool did not decide)."""
    import shutil
    import subprocess
    import time
    exe = shutil.which("apalache-mc")
    if exe is None:
        return None, 0.0, "apalache-mc not on PATH"
    out_dir = env.outdir(os.path.join("apalache", tag))
    t0 = time.time()
    try:
        p = subprocess.run([exe, "check", f"--init={init}", f"--inv={inv}", f"--length={length}", f"--out-dir={out_dir}",
                            os.path.join(env.SPEC, module + ".tla")], capture_output=True, text=True, timeout=timeout, cwd=env.SPEC)
    except subprocess.TimeoutExpired:
        return None, time.time() - t0, "timeout"
    txt = p.stdout + p.stderr
    ok = True if "EXITCODE: OK" in txt else False if "Checker has found an error" in txt else None
    return ok, time.time() - t0, txt[-600:]
