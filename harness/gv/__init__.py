"""gv — geckolib verification harness (model-based, TLA+/TLC)."""
