"""Reusable sessions of the real client stacks against the real simulator.

AsyncSession   : GeckoAsyncSpaMan (+locator, spa, facade) on the virtual loop (W1).
ThreadedSession: GeckoSpa + GeckoFacade on the stepped engine (W2).
Both are driven imperatively by the harness; nothing runs in real time.
"""
import asyncio
import contextlib
import io

from . import env
from .simnet import Network, SimPeer, SIM_ADDR
from .vloop import World
from . import vloop as _vl
from .w2 import W2, MockSock, Descriptor

DEFAULT_SNAPSHOT = env.REPO + "/tests/snapshots/default.snapshot"
SPA_ID = "SPA01:02:03:04:05:06"


class AsyncSession:
    def __init__(self, snapshot=DEFAULT_SNAPSHOT, rank="stable", rank_seed=None, on_event=None,
                 peer=None, spa_identifier=SPA_ID, spa_address=None, spa_name="gv", latency=0.01,
                 net_seed=0, autostart=True):
        from geckolib import GeckoAsyncSpaMan

        self.peer = peer or SimPeer(snapshot)
        self.net = Network([self.peer], latency=latency, seed=net_seed)
        self.world = World(self.net, rank=rank, rng=rank_seed)
        self.world.__enter__()
        self.loop = self.world.loop
        self.events = []
        sess = self

        class Man(GeckoAsyncSpaMan):
            async def handle_event(self, event, **kw):
                rec = {
                    "t": sess.loop.time(), "ev": event.name, "state": self.spa_state.name,
                    "facade": self.facade is not None,
                    "spa": self._spa is not None,
                    "descr": "none" if self.spa_descriptors is None else ("some" if self.spa_descriptors else "empty"),
                    "sensor": self.status_sensor.state if self.status_sensor is not None else None,
                    "task": (asyncio.current_task().get_name() if asyncio.current_task() else "?"),
                    "connected": bool(self._spa is not None and self._spa.is_connected),
                }
                sess.events.append(rec)
                if on_event is not None:
                    await on_event(sess, self, event, rec, kw)

        kw = {}
        if spa_identifier is not None:
            kw["spa_identifier"] = spa_identifier
        if spa_address is not None:
            kw["spa_address"] = spa_address
        if spa_name is not None:
            kw["spa_name"] = spa_name
        self.man = Man("gv-client-uuid", **kw)
        self.entered = False
        if autostart:
            self.enter()

    # ---- driving ------------------------------------------------------------
    def run(self, coro):
        return self.loop.run_until_complete(coro)

    def enter(self):
        self.run(self.man.__aenter__())
        self.entered = True

    def advance(self, dt):
        self.run(asyncio.sleep(dt))

    def wait_connected(self, limit=120.0, need_update=False):
        t0 = self.loop.time()
        while self.loop.time() - t0 < limit:
            if self.man.facade is not None and self.man.spa_state.name == "CONNECTED":
                if not need_update or self.man.facade._ready:
                    return True
            self.advance(0.1)
        return False

    def quiesce(self, limit=120.0):
        """advance until no request holds the protocol lock and the receive queue is empty"""
        t0 = self.loop.time()
        while self.loop.time() - t0 < limit:
            spa = self.spa
            if spa is None or spa._protocol is None:
                return True
            if not spa._protocol.Lock.locked() and spa._protocol.queue.head is None:
                return True
            self.advance(0.1)
        return False

    def exit_context(self, limit=900.0):
        """leave the manager context; -> True if __aexit__ returned within `limit` virtual seconds
        (the task is left pending otherwise: code that swallows cancellation must not hang the harness)"""
        task = self.loop.create_task(self.man.__aexit__(None, None, None), name="GV:exit")
        self.run(asyncio.wait({task}, timeout=limit))
        self.entered = False
        if task.done():
            task.result()
            return True
        return False

    def close(self):
        try:
            if self.entered:
                self.exit_context()
        finally:
            self.world.__exit__(None, None, None)

    def __enter__(self):
        return self

    def __exit__(self, *a):
        self.close()
        return False

    # ---- access -------------------------------------------------------------
    @property
    def spa(self):
        return self.man._spa

    @property
    def facade(self):
        return self.man.facade

    def conn_transports(self):
        return [t for t in self.loop.transports if not t.kw.get("allow_broadcast")]

    def conn_transport(self):
        c = self.conn_transports()
        return c[-1] if c else None

    def inject(self, data, delay=0.0, transport=None):
        tr = transport or self.conn_transport()
        self.net.inject(tr, data, SIM_ADDR, delay)

    def client_parms(self):
        """parms as the simulator sees this client: (ip, port, client_id, spa_id)."""
        tr = self.conn_transport()
        spa = self.spa
        return (tr.local[0], tr.local[1], spa.client_id, spa.descriptor.identifier)

    def sent(self, transport=None):
        tr = transport or self.conn_transport()
        return [(t, d) for (t, d, _) in tr.sent]


def inner(datagram):
    """content of the <DATAS> element of a framed packet (harness-side decoder)."""
    i = datagram.find(b"<DATAS>")
    j = datagram.rfind(b"</DATAS>")
    if i < 0 or j < 0:
        return None
    return datagram[i + 7: j]


class ThreadedSession:
    def __init__(self, snapshot=DEFAULT_SNAPSHOT, peer=None, facade_first=True):
        from geckolib.spa import GeckoSpa
        from geckolib.automation.facade import GeckoFacade

        self.peer = peer or SimPeer(snapshot)
        self.w2 = W2(helper_threads=True)        # the spa's ping thread runs (cooperatively, on the virtual clock)
        self.w2.__enter__()
        self.spa = GeckoSpa(Descriptor())
        self.sock = MockSock(self.w2.clock)
        self.spa._socket = self.sock
        self.seen = 0
        self.drop = None      # callable(data, direction) -> bool
        with contextlib.redirect_stdout(io.StringIO()):
            if facade_first:
                self.facade = GeckoFacade(self.spa)
                self.spa.start_connect()
            else:
                # the order of GeckoSpaDescriptor.get_facade(): the connection is started, the facade comes later
                self.facade = None
                self.spa.start_connect()

    def make_facade(self):
        from geckolib.automation.facade import GeckoFacade
        with contextlib.redirect_stdout(io.StringIO()):
            self.facade = GeckoFacade(self.spa)
        return self.facade

    def pump(self, iters=1, dt=0.03):
        for _ in range(iters):
            self.w2.advance(dt)
            W2.step(self.spa)
            while self.seen < len(self.sock.wire):
                _, data, dest = self.sock.wire[self.seen]
                self.seen += 1
                if self.drop and self.drop(data, "c2s"):
                    continue
                with contextlib.redirect_stdout(io.StringIO()):
                    replies = self.peer.on_datagram(data, ("10.0.0.2", 40001))
                for item in replies:
                    reply = item[0]
                    if self.drop and self.drop(reply, "s2c"):
                        continue
                    self.sock.inbox.append((reply, self.peer.addr))

    def wait_connected(self, iters=600):
        for _ in range(iters):
            self.pump(1)
            if self.facade.is_connected:
                return True
        return False

    def transfer_pending(self):
        return any(type(h).__name__ == "GeckoStatusBlockProtocolHandler" for h in self.spa._receive_handlers)

    def settle(self, limit=4000):
        """pump until no status-block transfer is pending and nothing waits in the socket"""
        for _ in range(limit):
            if not self.transfer_pending() and not self.sock.inbox:
                return True
            self.pump(1)
        return False

    def next_periodic_refresh(self, limit_s=200.0, dt=0.05):
        """run until the ping thread's next periodic refresh has been requested and has completed; the harness
        never calls refresh() itself while the ping thread runs: two refresh requests in flight at once share
        the blocking structure's assembly state (DESIGN: observed outside the listed properties)"""
        n0 = sum(1 for (_, d, _) in self.sock.wire if (inner(d) or b"").startswith(b"STATU"))
        started = False
        for _ in range(int(limit_s / dt)):
            self.pump(1, dt=dt)
            if not started:
                started = sum(1 for (_, d, _) in self.sock.wire if (inner(d) or b"").startswith(b"STATU")) > n0
            elif not self.transfer_pending() and not self.sock.inbox:
                return True
        return False

    def inject(self, data):
        self.sock.inbox.append((data, self.peer.addr))

    def client_parms(self):
        return ("10.0.0.2", 40001, self.spa.descriptor.client_identifier, self.spa.descriptor.identifier)

    def wire(self):
        return [d for (_, d, _) in self.sock.wire]

    def close(self):
        try:
            with contextlib.redirect_stdout(io.StringIO()):
                if self.spa.isopen:
                    self.spa.complete()          # closes the socket: the ping thread sees it and ends
        finally:
            self.w2.__exit__(None, None, None)

    def __enter__(self):
        return self

    def __exit__(self, *a):
        self.close()
        return False


class QueueTap:
    """Harness-side wrapper around a protocol's receive queue: logs put / mark / pop with
    the acting task and virtual time (C07's prescribed observation point)."""

    def __init__(self, protocol, loop):
        self.log = []
        self.loop = loop
        q = protocol.queue
        self.q = q
        self._id = 0
        self.ids = {}
        orig_put, orig_pop, orig_mark = q.put_nowait, q.pop, q.mark
        tap = self

        def who():
            try:
                t = asyncio.current_task()
                return t.get_name() if t else "-"
            except RuntimeError:
                return "-"

        def put_nowait(item):
            tap._id += 1
            tap.ids[id(item)] = tap._id
            item = _Tagged(item, tap._id)
            tap.log.append({"n": next(_vl.SEQ), "k": "put", "id": tap._id, "t": loop.time(), "data": bytes(item[0]) if item[0] is not None else None, "by": who()})
            return orig_put(item)

        def pop():
            head = q.head
            hid = head.gv_id if isinstance(head, _Tagged) else 0
            tap.log.append({"n": next(_vl.SEQ), "k": "pop", "id": hid, "t": loop.time(), "by": who(), "marked": q.is_marked})
            return orig_pop()

        def mark():
            head = q.head
            hid = head.gv_id if isinstance(head, _Tagged) else 0
            tap.log.append({"n": next(_vl.SEQ), "k": "mark", "id": hid, "t": loop.time(), "by": who()})
            return orig_mark()

        q.put_nowait = put_nowait
        q.pop = pop
        q.mark = mark


class _Tagged(tuple):
    def __new__(cls, item, gv_id):
        o = super().__new__(cls, item)
        o.gv_id = gv_id
        return o
