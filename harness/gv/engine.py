"""Engine scenarios on the full async stack (W1): concurrent API callers, reply faults,
junk traffic, wake-order policies; produces logs for AsyncEngine_Trace (C06, C07)."""
import asyncio
import re

from . import env
from .sessions import AsyncSession, QueueTap, inner
from .simnet import SIM_ADDR
from . import vloop as _vl

CLS = {"SPA:Unhandled packet": "U", "SPA:Packet handler": "PK", "SPA:Partial status block handler": "PS",
       "SPA:RFErr handler": "RF", "SPA:WCErr handler": "WC"}


def ms(t):
    return int(round(t * 1000))


def verb_of(content):
    v = (content or b"")[:5]
    return v.decode("latin1") if re.fullmatch(rb"[A-Z]{5}", v) else "?????"


def classify(data, spa):
    """-> (kind, verb, pair) of a datagram as the consumers see it"""
    if data.startswith(b"<PACKT>") and data.endswith(b"</PACKT>"):
        c = inner(data)
        m = re.search(rb"<SRCCN>(.*?)</SRCCN><DESCN>(.*?)</DESCN>", data, re.DOTALL)
        wf = bool(re.search(rb"<SRCCN>.*?</SRCCN><DESCN>.*?</DESCN><DATAS>.*</DATAS>", data[7:-8], re.DOTALL))
        pair = bool(m) and m.group(1) == spa.descriptor.identifier and m.group(2) == spa.client_id
        return "frame", verb_of(c) if wf else "?????", pair, wf
    return "inner", verb_of(data), True, True


class NoConnection(env.MachineryError):
    """the client did not get connected to the bundled simulator over a fault-free network within 90 s"""


class EngineScenario:
    def __init__(self, rng, rank="stable", fault=None, snapshot=None, on_event=None):
        self.rng = rng
        kw = {"snapshot": snapshot} if snapshot else {}
        if on_event:
            kw["on_event"] = on_event
        self.s = AsyncSession(rank=rank, rank_seed=rng.random(), **kw)
        s = self.s
        if not s.wait_connected(90, need_update=True):
            s.close()
            raise NoConnection("engine scenario: no connection")
        s.quiesce()
        self.spa = s.spa
        self.tr = s.conn_transport()
        self.tap = QueueTap(self.spa._protocol, s.loop)
        self.n0 = len(self.tr.sent)
        self.ev = []           # call / ret events (with _abs time)
        self._watch_loss(self.spa._protocol)
        self._watch_background(self.spa)
        self.ncall = 0
        self.tasks = []
        self.fault = fault

    def _watch_loss(self, proto):
        """log the moment the connection's transport is gone (connection_lost ran: a fatal socket error, or the
        manager dropping the connection), whatever the scenario"""
        orig = proto.connection_lost
        loop = self.s.loop

        def lost(exc):
            orig(exc)
            self.ev.append({"k": "down", "t": ms(loop.time()), "_n": next(_vl.SEQ)})
        proto.connection_lost = lost

    def _watch_background(self, spa):
        """the refresh loop is a caller whose call boundaries the harness can see: it enters the structure's get()
        once per cycle.  Logged with the gate as the harness evaluates it at that instant (connected, and a ping
        answered within the freshness window): a background query starts only behind an open gate"""
        orig = spa.struct.get
        loop = self.s.loop
        sess = self

        async def get(*a, **kw):
            t = asyncio.current_task()
            name = t.get_name() if t is not None else "-"
            if name == "SPA:Refresh loop":
                sess.ev.append({"k": "bgcall", "c": name, "gate": bool(spa.is_connected and sess.answering_pings()),
                                "t": ms(loop.time()), "_n": next(_vl.SEQ)})
            return await orig(*a, **kw)
        spa.struct.get = get

    def stalls(self, rng, p=0.04, choices=(0.25, 0.6, 1.3)):
        """from now on the event loop occasionally wakes up late (a callback that blocked it); every
        stall is logged so that the trace specification can move its bounds by exactly that much"""
        loop = self.s.loop
        loop.lateness = lambda: (rng.choice(choices) if rng.random() < p else 0.0)
        loop.on_late = lambda when, late: self.ev.append({"k": "stall", "d": ms(late), "t": ms(when + late), "_n": next(_vl.SEQ)})

    @classmethod
    def early(cls, rng, rank="stable"):
        """a scenario that observes the connection from the creation of its endpoint (queue tap attached
        before the first handshake datagram); the caller drives time with `self.s.advance`"""
        self = cls.__new__(cls)
        self.rng = rng
        self.s = AsyncSession(rank=rank, rank_seed=rng.random(), autostart=False)
        self.tap = None
        self.tr = None
        self.n0 = 0
        self.ev = []
        self.ncall = 0
        self.tasks = []
        self.fault = None
        loop = self.s.loop

        def on_endpoint(tr, proto):
            if not tr.kw.get("allow_broadcast") and self.tap is None:
                self.tr = tr
                self.tap = QueueTap(proto, loop)
                self._watch_loss(proto)
        loop.on_endpoint = on_endpoint
        self.s.enter()
        return self

    @property
    def spa(self):
        return self.__dict__.get("_spa") or self.s.man._spa

    @spa.setter
    def spa(self, v):
        self.__dict__["_spa"] = v

    def close(self):
        self.s.close()

    def answering_pings(self):
        """independent of the code's own property: a ping reply was received less than
        2 x PING_FREQUENCY ago (the freshness window the gates are documented to use)"""
        from geckolib.config import GeckoConfig
        s = self.s
        last = None
        for e in reversed(s.events):
            if e["ev"] == "RUNNING_PING_RECEIVED":
                last = e["t"]
                break
        if last is None:
            for t in s.loop.tasks:
                if t.get_name() == "SPA:Ping loop" and not t.done():
                    last = t._gv_created
        if last is None:
            return False
        return (s.loop.time() - last) < GeckoConfig.PING_FREQUENCY_IN_SECONDS * 2

    # ---- harness-started API calls ---------------------------------------------
    def start_call(self, api, gated=True):
        s, spa = self.s, self.spa
        self.ncall += 1
        name = f"GV:call:{self.ncall}"
        sess = self

        async def wrapper():
            t0 = s.loop.time()
            gate = bool(spa.is_connected and sess.answering_pings())
            n_ev = len(s.events)
            sess.ev.append({"k": "call", "c": name, "gate": gate, "gated": gated, "t": ms(t0), "_n": next(_vl.SEQ)})
            raised = None
            try:
                await api()
            except asyncio.CancelledError:
                raised = "cancelled"
                raise
            except Exception as e:  # noqa
                raised = type(e).__name__
            finally:
                t1 = s.loop.time()
                failed = any(e["ev"] == "ERROR_PROTOCOL_RETRY_COUNT_EXCEEDED" and e["task"] == name for e in s.events[n_ev:])
                result = ("cancelled" if raised == "cancelled" else "raised" if raised else
                          "refused" if (gated and not gate) else "fail" if failed else "reply")
                sess.ev.append({"k": "ret", "c": name, "result": result, "exc": raised or "", "t": ms(t1), "_n": next(_vl.SEQ)})

        t = s.loop.create_task(wrapper(), name=name)
        self.tasks.append(t)
        return t

    def apis(self):
        spa = self.spa
        f = self.__dict__.get("_facade0") or self.s.facade
        if f is not None:
            # (the connection may be replaced while a scenario waits: the calls keep addressing the connection the
            # scenario started with)
            self.__dict__["_facade0"] = f
        out = [("wc", lambda: spa.async_get_watercare()), ("rem", lambda: spa.async_get_reminders()),
               ("press", lambda: spa.async_press(self.rng.choice([1, 2, 16])))]
        if f is not None and f.pumps:
            p = f.pumps[0]
            out.append(("setmode", lambda: spa._on_async_set_value(300, 1, self.rng.randrange(4))))
        return out

    # ---- log assembly -------------------------------------------------------------
    def log(self):
        s, spa = self.s, self.spa
        ev = list(self.ev)
        for (t, data, addr), by, n in list(zip(self.tr.sent, self.tr.sent_by, self.tr.sent_n))[self.n0:]:
            c = inner(data)
            v = verb_of(c)
            if v in ("STATQ", "?????"):
                continue            # acknowledgements are not requests
            seq = c[5] if c and len(c) > 5 else -1
            ev.append({"k": "send", "c": by or "-", "verb": v, "seq": seq, "t": ms(t), "_n": n})
        for e in self.tap.log:
            if e["k"] == "put":
                kind, verb, pair, wf = classify(e["data"], spa)
                ev.append({"k": "put", "id": e["id"], "kind": kind, "verb": verb, "pair": pair, "wf": wf,
                           "requeue": e["by"] == "SPA:Packet handler", "by": e["by"], "t": ms(e["t"]), "_n": e["n"]})
            elif e["k"] == "mark":
                ev.append({"k": "mark", "id": e["id"], "by": e["by"], "t": ms(e["t"]), "_n": e["n"]})
            else:
                cls = CLS.get(e["by"], "caller")
                ev.append({"k": "pop", "id": e["id"], "by": e["by"], "cls": cls, "t": ms(e["t"]), "_n": e["n"]})
        return ev


def merge(scn):
    """all observed events in true execution order (global sequence numbers taken at the
    moment of observation)"""
    ev = scn.log()
    ev.sort(key=lambda e: e["_n"])
    for e in ev:
        e.pop("_n")
    return ev
