"""C08 — lifecycle follows the state table; facade-ready / teardown are well-bracketed.

Design: spec/Lifecycle.tla (the _handle_event switch, pump, locate/connect brackets with
finally, non-atomic reset, ping / runtime events, exit, client-handler suspension as a
budgeted action).  TLC runs the reachable set to closure for the bounded configuration and
checks ConnectedSound, ReadyIffEnterConnected, TeardownBracket, BracketsSane,
BracketsClosedAtExit, SensorMirrorsState, ResetLandsIdle (known findings as named flags:
every property holds on every behaviour that takes no flagged transition).
Binding: the real manager on the virtual loop against the real simulator; scenarios combine
network phases (blackout, lossy, RF-error), user resets at enumerated points of discovery /
handshake / steady / error states, suspended client handlers and context exit; the log of
handle_event deliveries (state, facade, spa, descriptors, status-sensor text sampled at
delivery, delivering task) and harness actions is validated by TLC against Lifecycle_Trace
with all non-delivery steps inferred."""
import json

from .. import env, tlc, kf
from ..lifecycle import LifecycleRun

CFG = """SPECIFICATION TSpec
CONSTANTS MaxEp = {maxep}
          MaxSusp = 100
          MaxReset = 100
          MaxNet = 100
          MaxBg = 1000
          HasId = {hasid}
          KF_PumpDies = {pumpdies}
          KF_LateComplete = {late}
          KF_NotFound = TRUE
          Unreliable = TRUE
          AllowExit = TRUE
          KF_Overtake = {overtake}
          MaxSockFail = 100
          MaxRF = {maxrf}
CONSTRAINT Track
POSTCONDITION Report
CHECK_DEADLOCK FALSE
"""


def max_rf():
    from geckolib.const import GeckoConstants
    return int(GeckoConstants.MAX_RF_ERRORS_BEFORE_HALT)


def flag(name):
    return "TRUE" if name in kf.flags() else "FALSE"


def design_cfg(base, **over):
    """materialise a design cfg with the known-finding flags of known_findings.json"""
    import os
    import re
    txt = open(os.path.join(env.SPEC, base)).read()
    txt = re.sub(r"KF_PumpDies = \w+", f"KF_PumpDies = {flag('KF_PumpDies')}", txt)
    txt = re.sub(r"KF_Overtake = \w+", f"KF_Overtake = {flag('KF_Overtake')}", txt)
    txt = re.sub(r"KF_NotFound = \w+", f"KF_NotFound = {flag('KF_NotFound')}", txt)
    txt = re.sub(r"KF_LateComplete = \w+", f"KF_LateComplete = {flag('KF_LateComplete')}", txt)
    for k, v in over.items():
        txt = re.sub(rf"\b{k} = \w+", f"{k} = {v}", txt)
    p = os.path.join(env.outdir("cfg"), base)
    with open(p, "w") as f:
        f.write(txt)
    return p


SUSP_EVENTS = ["RUNNING_SPA_DISCONNECTED", "CLIENT_FACADE_TEARDOWN", "CONNECTION_SPA_COMPLETE", "CONNECTION_STARTED",
               "LOCATING_FINISHED", "CONNECTION_GOT_CHANNEL", "RUNNING_PING_RECEIVED", "CLIENT_FACADE_IS_READY"]


_PILOT = {}


def handshake_datagram_times():
    """times at which the client sends each datagram of discovery + handshake in an undisturbed run
    (a pilot run of the real code); faults are then placed just before each of them"""
    if "t" not in _PILOT:
        r = LifecycleRun(env.rng("c08-pilot"), [], horizon=12.0)
        r.run()
        ts = sorted({round(t, 3) for (t, d, _data, _info) in r.s.net.log if d == "c2s" and t < 11.0})
        _PILOT["t"] = ts
        _PILOT["ev"] = sorted({round(e["t"] / 1000.0, 3) for e in r.log if e["k"] == "deliver" and e["t"] < 11000})
        _PILOT["named"] = [(e["ev"], round(e["t"] / 1000.0, 3)) for e in r.log if e["k"] == "deliver" and e["t"] < 11000]
        # arrival of the final segment of the initial status block
        from ..sessions import inner as _inner
        lastseg = [t + (info["fates"][0] if info.get("fates") else 0.0) for (t, d, data, info) in r.s.net.log
                   if d == "s2c" and (_inner(data) or b"")[:5] == b"STATV" and len(_inner(data)) > 7 and _inner(data)[6] == 0 and t < 11.0]
        _PILOT["lastseg"] = round(lastseg[0], 3) if lastseg else None
    return _PILOT["t"]


def event_times():
    """times of the event deliveries of the same pilot run (the boundaries between the steps of discovery / handshake)"""
    handshake_datagram_times()
    return _PILOT["ev"]


def scenarios(rng, quick):
    """-> list of (name, script, susp, horizon)"""
    out = [("happy", [], {}, 30.0)]
    # a blackout that begins just before each datagram of discovery / handshake leaves the client
    for k, t in enumerate(handshake_datagram_times()):
        for d in ([100.0] if quick else [3.0, 30.0, 100.0, 200.0]):
            a = max(0.0, round(t - 0.005, 3))
            out.append((f"blackout-before-dgram{k}@{a}+{d}", [(a, "net", "blackout"), (a + d, "net", "ok")], {}, a + d + 250))
    # resets at enumerated points of discovery, handshake and steady state
    pts = [0.05, 2.0, 4.05, 4.15, 4.3, 4.6, 4.8, 5.0, 6.0, 7.65, 7.75, 9.0, 20.0]
    if not quick:
        pts = [round(0.05 + 0.1 * k, 2) for k in range(0, 90)]
    for t in pts:
        out.append((f"reset@{t}", [(t, "reset", None)], {}, t + 45))
    # ... and shortly after every event delivery of an undisturbed run (inside the step that the event opens: the
    # second discovery of a connection attempt, each handshake request, ...)
    for te in event_times():
        for d in ([0.05] if quick else [0.002, 0.05, 0.09]):
            t = round(te + d, 3)
            out.append((f"reset@ev{te}+{d}", [(t, "reset" if int(te * 1000) % 2 == 0 else "setinfo", None)], {}, t + 45))
    # a reset in the very polls in which the final segment of the initial status block arrives and is taken
    event_times()
    # (the 27 frames arrive together and are unwrapped one per poll: the block is complete just before SPA_COMPLETE)
    tc_ = [te for (n2_, te) in _PILOT["named"] if n2_ == "SPA_COMPLETE"]
    if tc_:
        for d_ in [round(0.01 * k, 2) for k in range(1, 16)]:
            t = round(tc_[0] - d_, 3)
            out.append((f"lastseg-reset-{d_}", [(t, "reset", None)], {}, t + 60))       # (no wake-up jitter: the name)
    # a reset that lands while the client's handler of an event of the connection attempt is suspended (the second
    # LOCATING_FINISHED belongs to the connection's own discovery, the CONNECTION_ events to its handshake)
    event_times()
    seen_n = {}
    for (nm, te) in _PILOT["named"]:
        seen_n[nm] = seen_n.get(nm, 0) + 1
        if (nm, seen_n[nm]) in (("LOCATING_FINISHED", 2), ("LOCATING_STARTED", 2), ("CONNECTION_STARTED", 1), ("GOT_CHANNEL", 1)):
            full = {"LOCATING_FINISHED": "LOCATING_FINISHED", "LOCATING_STARTED": "LOCATING_STARTED",
                    "CONNECTION_STARTED": "CONNECTION_STARTED", "GOT_CHANNEL": "CONNECTION_GOT_CHANNEL"}[nm]
            t = round(te + 0.1, 3)
            out.append((f"reset-in-handler:{nm}#{seen_n[nm]}", [(t, "reset", None)], {f"{full}#{seen_n[nm]}": 0.3}, t + 60))
    # the manager context is left in the middle of discovery / of the handshake (the pump is cancelled inside the
    # bracket: its closing event is still delivered)
    for nm_ in ("LOCATING_STARTED", "CONNECTION_STARTED", "GOT_FIRMWARE", "GOT_CONFIG"):
        tt_ = [te for (n2_, te) in _PILOT["named"] if n2_ == nm_]
        if tt_:
            t = round(tt_[-1] + 0.04, 3)
            out.append((f"exit-after-{nm_}", [(t, "exit", None)], {}, t + 5))
    # blackouts of various lengths at various moments
    for (a, d) in [(0.5, 3.0), (0.5, 200.0), (4.5, 30.0), (4.5, 100.0), (12.0, 50.0), (12.0, 400.0), (30.0, 130.0)]:
        out.append((f"blackout@{a}+{d}", [(a, "net", "blackout"), (a + d, "net", "ok")], {}, a + d + 250))
    out.append(("lossy", [(10.0, "net", "lossy"), (200.0, "net", "ok")], {}, 450))
    # the spa's ADDRESS is configured as well (the property's wording): undisturbed, after a blackout, and after a
    # blackout followed by a phase in which the first datagram of every newly opened endpoint is lost
    out.append(("addr:happy", [], {}, 30.0))
    out.append(("addr:blackout", [(12.0, "net", "blackout"), (200.0, "net", "ok")], {}, 450))
    out.append(("addr:blackout-then-first-datagram-lost", [(12.0, "net", "blackout"), (200.0, "net", "firstlost"), (420.0, "net", "ok")], {}, 700))
    # the spa changes a live value and its report is lost: the facade mirrors the spa again after the periodic refresh
    out.append(("unreported-change", [(20.0, "change", 7), (25.0, "change", 40)], {}, 320))
    # a connection that never had a ping answered (pings are lost from the start, everything else gets through),
    # then the spa becomes unreachable: it is reported all the same, and the manager heals afterwards
    out.append(("noping-then-blackout", [(0.0, "net", "noping"), (30.0, "net", "blackout"), (500.0, "net", "ok")], {}, 800))
    out.append(("noping-then-blackout-late", [(0.0, "net", "noping"), (100.0, "net", "blackout"), (500.0, "net", "ok")], {}, 800))
    # RF-error phases (the in.touch2 module answers everything with RFERR), also on top of a blackout
    out.append(("rferr-steady", [(15.0, "net", "rferr"), (60.0, "net", "ok")], {}, 330))
    out.append(("rferr-long", [(15.0, "net", "rferr"), (400.0, "net", "ok")], {}, 700))
    out.append(("blackout-then-rferr", [(12.0, "net", "blackout"), (330.0, "net", "rferr"), (380.0, "net", "ok")], {}, 660))
    out.append(("rferr-in-handshake", [(4.5, "net", "rferr"), (40.0, "net", "ok")], {}, 300))
    # the same in the active configuration (a pump is running in this snapshot: pings every 2 s,
    # not-responding after 10 s), where ping loss is noticed before any other request fails
    out.append(("active:blackout-then-rferr", [(20.0, "net", "blackout"), (45.0, "net", "rferr"), (60.0, "net", "ok")], {}, 200))
    out.append(("active:blackout", [(20.0, "net", "blackout"), (50.0, "net", "ok")], {}, 150))
    out.append(("active:blackout+reset", [(20.0, "net", "blackout"), (40.0, "reset", None), (50.0, "net", "ok")], {}, 150))
    # a phase that raises: the loop refuses to create the endpoint of a discovery / of a connection
    out.append(("sockfail:first-locate", [(0.0, "sockfail", 1)], {}, 40))
    out.append(("sockfail:both-locates", [(0.0, "sockfail", 2)], {}, 40))
    out.append(("sockfail:second-locate", [(2.0, "sockfail", 1)], {}, 40))
    out.append(("sockfail:connect", [(4.05, "sockfail", 1), (30.0, "reset", None)], {}, 80))
    out.append(("sockfail:after-reset", [(15.0, "reset", None), (15.0, "sockfail", 1)], {}, 60))
    out.append(("sockfail:after-reset-twice", [(15.0, "reset", None), (15.0, "sockfail", 3)], {}, 60))
    # RF errors are counted per connection: past the limit every further one is followed by TOO_MANY
    out.append(("rfburst:to-the-limit", [(15.0, "rfburst", max_rf())], {}, 100))
    out.append(("rfburst:past-the-limit", [(15.0, "rfburst", max_rf() - 1), (25.0, "rfburst", 3)], {}, 200))
    out.append(("rfburst:while-complete-handler-suspended", [(8.0, "rfburst", max_rf() + 1)], {"CONNECTION_SPA_COMPLETE": 20.0}, 150))
    out.append(("rfburst:in-handshake", [(4.6, "rfburst", max_rf() + 2)], {}, 150))
    # ... placed by the events of the pilot run, so that the burst falls inside the handshake whatever the timing is
    event_times()
    for nm_ in ("CONNECTION_STARTED", "GOT_FIRMWARE", "GOT_CHANNEL"):
        tt_ = [te for (n2_, te) in _PILOT["named"] if n2_ == nm_]
        if tt_:
            out.append((f"rfburst:after-{nm_}", [(round(tt_[0] + 0.03, 3), "rfburst", max_rf() + 2)], {}, 150))
    # async_set_spa_info: with the same spa at any time (= a reset), and as the step that gives a manager
    # started without an identifier ("Choose spa") its spa
    for t in ([4.3, 9.0] if quick else [0.05, 2.0, 4.05, 4.3, 4.8, 6.0, 7.75, 9.0, 20.0]):
        out.append((f"setinfo@{t}", [(t, "setinfo", None)], {}, t + 45))
    out.append(("setinfo-in-error", [(12.0, "net", "blackout"), (150.0, "setinfo", None), (300.0, "net", "ok")], {}, 520))
    out.append(("noid:idle", [], {}, 30))
    for t in ([2.0, 12.0] if quick else [0.05, 2.0, 3.95, 4.05, 6.0, 12.0]):
        out.append((f"noid:setinfo@{t}", [(t, "setinfo", None)], {}, t + 45))
    out.append(("noid:setinfo-then-reset", [(6.0, "setinfo", None), (20.0, "reset", None)], {}, 70))
    out.append(("noid:reset-then-setinfo", [(6.0, "reset", None), (12.0, "setinfo", None)], {}, 70))
    # error state then reset
    out.append(("blackout-then-reset", [(12.0, "net", "blackout"), (150.0, "reset", None), (300.0, "net", "ok")], {}, 520))
    # suspended handlers around a reset from CONNECTED (and elsewhere)
    for ev in SUSP_EVENTS[: (3 if quick else len(SUSP_EVENTS))]:
        for d in ([0.3, 5.0] if not quick else [rng.choice([0.3, 5.0])]):
            out.append((f"susp:{ev}:{d}+reset", [(15.0, "reset", None)], {ev: d}, 90))
    out.append(("susp-complete+reset", [(7.8, "reset", None)], {"CONNECTION_SPA_COMPLETE": 1.0, "RUNNING_SPA_DISCONNECTED": 2.0}, 90))
    # seeded mixtures
    for i in range(4 if quick else 150):
        script = []
        t = 0.0
        for _ in range(rng.randrange(1, 5)):
            t += rng.choice([0.3, 2.0, 4.4, 5.5, 9.0, 40.0, 130.0])
            a = rng.choice(["reset", "net-bad", "net-ok", "reset"])
            if a == "reset":
                script.append((t, "reset", None))
            elif a == "net-bad":
                script.append((t, "net", rng.choice(["blackout", "lossy"])))
            else:
                script.append((t, "net", "ok"))
        script.append((t + 5, "net", "ok"))
        susp = {rng.choice(SUSP_EVENTS): rng.choice([0.3, 2.0])} if rng.random() < 0.3 else {}
        out.append((f"mix{i}", script, susp, t + 300))
    return out


def run_scenarios(rng, quick, which=None):
    runs = []
    for name, script, susp, horizon in scenarios(rng, quick):
        if which and not which(name):
            continue
        # consecutive identical net modes are dropped (the model's NetChange toggles)
        sc, mode, prev_arg = [], "ok", "ok"
        for (t, a, arg) in sorted(script, key=lambda x: x[0]):
            if a == "net":
                m = "bad" if arg in ("blackout", "lossy", "rferr", "noping", "firstlost") else "ok"
                if m == mode and not (arg == "rferr") and not (prev_arg in ("noping", "firstlost", "blackout") and arg != prev_arg):
                    continue
                mode, prev_arg = m, arg
            sc.append((t, a, arg))
        snap = env.REPO + "/tests/snapshots/inXM-Pump 1 running-2020-12-08 19_54_01.snapshot" if name.startswith("active:") else None
        from ..simnet import SIM_ADDR
        r = LifecycleRun(rng, sc, susp=susp, rank=rng.choice(["stable", "perm", "reverse"]), horizon=horizon, snapshot=snap,
                         has_id=not name.startswith("noid:"), spa_address=(SIM_ADDR[0] if name.startswith("addr:") else None))
        r.name = name
        if name.startswith("mix") or name.startswith("setinfo") or name.startswith("reset@"):
            # wake-up jitter: every loop wake-up up to 30 ms late (the lifecycle model is untimed)
            lr = env.rng(f"c08-late-{name}")
            r.s.loop.lateness = lambda lr=lr: lr.choice([0.0, 0.0, 0.01, 0.03])
        r.run()
        runs.append(r)
    return runs


def validate_runs(ctx, runs, tag):
    """-> list of (run, verdict)"""
    maxep = max(2, max(sum(1 for e in r.log if e.get("ev") == "CONNECTION_STARTED") for r in runs) + 2)
    out = []
    # the initial configuration (identifier given or not) is a constant of the trace specification
    for has_id in (True, False):
        group = [r for r in runs if r.has_id == has_id]
        if not group:
            continue
        logs = [{"ev": r.log, "name": r.name} for r in group]
        verdicts, states = tlc.validate("Lifecycle_Trace", logs, f"{tag}-{'id' if has_id else 'noid'}",
                                        CFG.format(maxep=maxep, maxrf=max_rf(), hasid="TRUE" if has_id else "FALSE",
                                                   pumpdies=flag("KF_PumpDies"), overtake=flag("KF_Overtake"), late=flag("KF_LateComplete")),
                                        chunk=4, heap="3g", jobs=12, why_rejects=False, timeout=3000)
        ctx.ev.cov["trace_validation_states"] = ctx.ev.cov.get("trace_validation_states", 0) + states
        out += list(zip(group, verdicts))
    return out


def report(ctx, pairs, pid_filter=None):
    """turn rejected logs into violations; KF-accepted logs into known findings"""
    for r, v in pairs:
        whys = v["why"] or []
        if v["accepted"]:
            ctx.ev.cov["traces_validated_against_impl"] += 1
            if "clean" not in whys:
                for w in whys:
                    if w.startswith("KF:"):
                        ctx.violation({"clause": "accepted-only-through-known-finding", "flag": w[3:]},
                                      {"scenario": r.name})
            continue
        k = v["matched"]
        e = r.log[k] if k < len(r.log) else {"k": "end"}
        inv = [w for w in whys if not w.startswith("KF:") and w != "clean"]
        ctx.violation({"clause": inv[0] if inv else "delivery-not-allowed-by-the-lifecycle-table",
                       "event": e.get("ev", e.get("k")), "state": e.get("st")},
                      {"scenario": r.name, "matched": k, "of": len(r.log), "event": e, "before": r.log[max(0, k - 8):k],
                       "frontier_invariants": inv})


def run(ctx):
    ev = ctx.ev
    rng = env.rng("c08")
    # the two design runs are external processes: they run while the scenarios execute in this one
    from concurrent.futures import ThreadPoolExecutor
    with ThreadPoolExecutor(2) as pool:
        fq = pool.submit(tlc.model_check, "Lifecycle", design_cfg("Lifecycle_q.cfg"), timeout=900, tag="LC-q", workers=8)
        fs = pool.submit(tlc.model_check, "Lifecycle",
                         design_cfg("Lifecycle_s1.cfg", **({"MaxSockFail": 0, "MaxNet": 1} if ctx.quick else {"MaxSusp": 2, "MaxSockFail": 0})),
                         timeout=3000, tag="LC-s1", heap="24g", workers=8)
        runs = run_scenarios(rng, ctx.quick)
        ctx.tlc_design("Lifecycle: 2 connections, 1 reset, 2 network changes, 1 runtime error, 1 refused endpoint, exit; no suspension", fq.result())
        ctx.tlc_design("Lifecycle with client-handler suspension (known-finding transitions flagged)", fs.result())
    pairs = validate_runs(ctx, runs, "c08")
    report(ctx, pairs)
    for r_ in runs:
        if r_.unknown:
            raise env.MachineryError(f"events not known to the specification were delivered: {set(r_.unknown)}")
    ev.cov["evaluations"] = sum(len(r_.log) for r_ in runs)
    ev.cov["distinct_nontrivial"] = len({tuple((e.get("ev"), e.get("st")) for e in r_.log if e["k"] == "deliver") for r_ in runs
                                         if any(e.get("ev") in ("SPA_DISCONNECTED", "PING_NO_RESPONSE", "CONN_RETRY_EXCEEDED",
                                                                "RETRY_EXCEEDED", "SPA_NOT_FOUND") for e in r_.log)})
    ev.cov["rule"] = "scenarios whose delivered-event sequence contains a non-happy-path event, distinct by (event, state) sequence"
    ev.sample({"scenario": runs[1].name, "deliveries": [(e["ev"], e["st"], e["by"]) for e in runs[1].log if e["k"] == "deliver"][:16]})
    ev.assumptions += [
        "'only while a facade exists' is read through the bracket monitor (ready announced and not yet torn down)",
        "network phases map to the model's ok / bad (bad = individual requests may fail)",
        "wake-order policies are stable ones (fixed, reversed, seeded permutation); per-tick flips belong to C07",
    ]
