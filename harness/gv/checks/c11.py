"""C11 — every shipped pack table yields a facade whose read-only API is total.

Design: spec/Facade.tla value semantics (water-care text for any mode byte, reminder text
for any day count, enum out of range -> 'Unknown'); the specification has no Raise
transition, so a recorded evaluation that ends in an exception is not a step.
Binding: for every platform x config x log combination on disk and a set of blocks
(all-zero, all-ones, seeded random, bit-pattern, shipped snapshots of the platform,
mutated snapshots) the real async facade is built on a mock spa and every public
read-only member of the facade and of every device is evaluated by reflection; all 256
water-care bytes, boundary reminder records and out-of-range enum values are evaluated;
TLC judges every record (C11_Judge)."""
import glob
import os

from .. import env, tlc, packs
from ..facaderig import Rig, MockSpa, make_struct, mods_of
from .c14 import _set_field


def _members(obj):
    names = []
    for klass in type(obj).__mro__:
        for n, v in vars(klass).items():
            if isinstance(v, property) and not n.startswith("_") and n not in names:
                names.append(n)
    return names


def evaluate(facade):
    """evaluate every public read-only member; -> (count, failures)"""
    fails = []
    count = 0

    def ev(label, fn):
        nonlocal count
        count += 1
        try:
            fn()
        except Exception as e:  # noqa
            fails.append({"member": label, "exc": type(e).__name__})

    for n in _members(facade):
        ev(f"facade.{n}", lambda n=n: getattr(facade, n))
    devs = []
    try:
        devs = [d for d in facade.all_automation_devices]
    except Exception:
        pass
    extra = []
    for attr in ("error_sensor", "eco_mode", "water_heater", "water_care", "reminders_manager", "keypad"):
        try:
            extra.append(getattr(facade, attr))
        except Exception:
            pass
    seen = set()
    for d in devs + extra:
        if d is None or id(d) in seen:
            continue
        seen.add(id(d))
        cname = type(d).__name__
        for n in _members(d):
            ev(f"{cname}[{getattr(d, '_key', '?')}].{n}", lambda d=d, n=n: getattr(d, n))
        ev(f"{cname}[{getattr(d, '_key', '?')}].__str__", lambda d=d: str(d))
        ev(f"{cname}[{getattr(d, '_key', '?')}].__repr__", lambda d=d: repr(d))
        sub = getattr(d, "_state_sensor", None)
        if sub is not None:
            for n in _members(sub):
                ev(f"{cname}[{d._key}].state_sensor.{n}", lambda s=sub, n=n: getattr(s, n))
    try:
        keys = list(facade.devices)
        for k in keys:
            ev(f"facade.get_device({k})", lambda k=k: facade.get_device(k))
    except Exception:
        pass
    ev("facade.get_device(nokey)", lambda: facade.get_device("no-such-key"))
    return count, fails


def snapshots_by_platform():
    from geckolib.utils.snapshot import GeckoSnapshot
    out = {}
    for f in sorted(glob.glob(os.path.join(env.REPO, "tests", "snapshots", "*.snapshot"))):
        try:
            for s in GeckoSnapshot.parse_log_file(f):
                if len(s.bytes) == 1024 and s.packtype:
                    out.setdefault(s.packtype.lower(), []).append(s.bytes)
        except Exception:
            continue
    return out


def run(ctx):
    ev = ctx.ev
    rng = env.rng("c11")
    r = tlc.model_check("Facade_MC", "Facade_MC.cfg", workers=1, timeout=600, coverage=False)
    ctx.tlc_design("Facade operators (shared module) well-formed; inventory law", r)
    snaps = snapshots_by_platform()
    combos = packs.combos()
    rig = Rig()
    recs, meta = [], []
    n_eval = 0
    try:
        for (plat, c, l) in combos:
            cfg, log = mods_of(plat, c, l)
            blocks = [("zeros", bytes(1024)), ("ones", b"\xff" * 1024)]
            if not ctx.quick or rng.random() < 0.25:
                blocks.append(("random", bytes(rng.randrange(256) for _ in range(1024))))
                blocks.append(("0x55", b"\x55" * 1024))
            for i, sb in enumerate(snaps.get(plat, [])[: (2 if ctx.quick else 50)]):
                blocks.append((f"snapshot{i}", sb))
                m = bytearray(sb)
                for _ in range(40):
                    m[rng.randrange(1024)] = rng.randrange(256)
                blocks.append((f"mutated{i}", bytes(m)))
            for bname, block in blocks:
                rec = {"kind": "facade", "combo": f"{plat}-cfg-{c}-log-{l}", "block": bname, "built": False,
                       "error": "", "evaluated": 0, "failures": []}
                try:
                    st = make_struct(cfg, log, block)
                    spa = MockSpa(st)
                    f = rig.facade(spa)
                    rec["built"] = True
                except Exception as e:  # noqa
                    rec["error"] = type(e).__name__
                    f = None
                if f is not None:
                    cnt, fails = evaluate(f)
                    n_eval += cnt
                    rec["evaluated"] = cnt
                    rec["failures"] = fails[:8]
                recs.append(rec)
                meta.append({"platform": plat, "cfg": c, "log": l})
                if f is not None and (bname in ("zeros", "ones", "snapshot0") or not ctx.quick):
                    # the block of a LIVE facade changes (a refresh or a partial update arrives): the owner switches the
                    # display unit, and - from the all-zero block - every byte changes at once
                    rec2 = {"kind": "facade", "combo": rec["combo"], "block": bname + "+update", "built": True,
                            "error": "", "evaluated": 0, "failures": []}
                    try:
                        if bname == "zeros":
                            st.replace_status_block_segment(0, b"\xff" * 1024)
                        elif bname == "ones":
                            # everything that was raised / running / non-zero when the facade was built clears
                            st.replace_status_block_segment(0, bytes(1024))
                        else:
                            tu = st.accessors.get("TempUnits")
                            if tu is not None and tu.pos < 1024:
                                cur = st.status_block[tu.pos + tu.length - 1]
                                st.replace_status_block_segment(tu.pos + tu.length - 1, bytes([cur ^ (1 << (tu.bitpos or 0))]))
                            k_ = rng.randrange(1000)
                            st.replace_status_block_segment(k_, bytes(rng.randrange(256) for _ in range(20)))
                    except Exception as e:  # noqa
                        rec2["failures"] = [{"member": "status block update of a live facade", "exc": type(e).__name__}]
                    cnt, fails = evaluate(f)
                    n_eval += cnt
                    rec2["evaluated"] = cnt
                    rec2["failures"] = (rec2["failures"] + fails)[:8]
                    recs.append(rec2)
                    meta.append({"platform": plat, "cfg": c, "log": l})
        # value semantics on one facade per platform
        done_plat = set()
        for (plat, c, l) in combos:
            if plat in done_plat:
                continue
            cfg, log = mods_of(plat, c, l)
            try:
                st = make_struct(cfg, log, bytes(1024))
                f = rig.facade(MockSpa(st))
            except Exception:
                continue
            done_plat.add(plat)
            wc = f.water_care
            for mode in [-1] + list(range(256)):
                rec = {"kind": "wc", "mode": mode, "text": "", "change": "ok"}
                try:
                    wc.active_mode = None
                    if mode >= 0:
                        wc.change_watercare_mode(mode)
                except Exception as e:  # noqa
                    rec["change"] = f"raised:{type(e).__name__}"
                    wc.active_mode = mode
                try:
                    s = str(wc)
                    _ = wc.monitor, wc.mode, wc.modes
                    rec["text"] = "waiting" if s.endswith("Waiting...") else "unknown" if s.startswith("Unknown") else "name"
                except Exception as e:  # noqa
                    rec["text"] = f"raised:{type(e).__name__}"
                recs.append(rec)
                meta.append({"platform": plat})
            from geckolib.driver import GeckoReminderType
            from geckolib.automation.reminders import GeckoReminders
            # reminder reports without a single valid record (an empty answer, only INVALID entries) - after a good one
            for lst in ([(GeckoReminderType.INVALID, 3)], [], [(GeckoReminderType.INVALID, 0), (GeckoReminderType.INVALID, -1)]):
                rec = {"kind": "remlist", "n": len(lst), "text": "ok"}
                try:
                    f.reminders_manager.change_reminders([(list(GeckoReminderType)[1], 5)])
                    f.reminders_manager.change_reminders(list(lst))
                    _ = (str(f.reminders_manager), f.reminders_manager.reminders, f.reminders_manager.last_update,
                         f.reminders_manager.monitor, repr(f.reminders_manager))
                    _ = [d.monitor for d in f.all_automation_devices if d is not None]
                except Exception as e:  # noqa
                    rec["text"] = f"raised:{type(e).__name__}"
                recs.append(rec)
                meta.append({"platform": plat})
            for days in (-32768, -1, 0, 1, 32767, rng.randrange(-32768, 32768)):
                for t in GeckoReminderType:
                    rec = {"kind": "rem", "days": days, "text": ""}
                    try:
                        f.reminders_manager.change_reminders([(t, days), (GeckoReminderType.INVALID, 3)])
                        _ = str(f.reminders_manager), f.reminders_manager.reminders, f.reminders_manager.get_reminder(t), f.reminders_manager.last_update
                        s = str(GeckoReminders.Reminder((t, days)))
                        rec["text"] = "due-in" if " due in " in s else "due-today" if s.endswith("due today") else "overdue" if " overdue by " in s else "other"
                    except Exception as e:  # noqa
                        rec["text"] = f"raised:{type(e).__name__}"
                    recs.append(rec)
                    meta.append({"platform": plat})
            # enums out of range
            n_enum = 0
            for tag, a in st.accessors.items():
                if a.type != "Enum" or a.pos + a.length > 1024:
                    continue
                cap = a.bitmask if a.bitpos is not None else (255 if a.length == 1 else 65535)
                for raw in sorted({len(a.items), cap}):
                    if raw > cap:
                        continue
                    w_ = raw if a.bitpos is None else ((raw & a.bitmask) << a.bitpos)
                    w_ &= (1 << (8 * a.length)) - 1        # (a mask the library derived too wide must not break the harness)
                    _set_field(st, a, w_)
                    try:
                        v = a.value
                        got = "Unknown" if v == "Unknown" else "label"
                        if raw < len(a.items) and v != a.items[raw]:
                            got = "wrong-label"
                    except Exception as e:  # noqa
                        got = f"raised:{type(e).__name__}"
                    recs.append({"kind": "enum", "item": f"{plat}.{tag}", "raw": raw, "nitems": len(a.items), "got": got})
                    meta.append({"platform": plat, "item": tag})
                    n_enum += 1
    finally:
        rig.close()
    bad, n = tlc.judge("C11_Judge", recs, "c11", chunk=4000, jobs=8)
    for idx, why in bad:
        r_ = recs[idx]
        m = meta[idx]
        if r_["kind"] == "facade":
            if not r_["built"]:
                sig = {"clause": why, "platform": m["platform"], "exc": r_["error"]}
                if m["platform"] == "inxm":
                    sig["log"] = m["log"]
            else:
                sig = {"clause": why, "member": r_["failures"][0]["member"].split("[")[0], "exc": r_["failures"][0]["exc"]}
        elif r_["kind"] == "wc":
            sig = {"clause": why, "mode": r_["mode"]}
        else:
            sig = {"clause": why, "kind": r_["kind"]}
        ctx.violation(sig, {"record": r_, **m})
    ev.cov["evaluations"] = n_eval + len(recs)
    ev.cov["traces_validated_against_impl"] = n - len(bad)
    ev.cov["combinations"] = len(combos)
    ev.cov["facades_built"] = sum(1 for r_ in recs if r_["kind"] == "facade" and r_["built"])
    ev.cov["member_evaluations"] = n_eval
    ev.cov["distinct_nontrivial"] = len({(r_.get("combo"), r_.get("block"), r_["kind"], r_.get("mode"), r_.get("days"), r_.get("item"), r_.get("raw")) for r_ in recs})
    ev.cov["rule"] = "one record per (combination, block) facade with all members evaluated, plus water-care / reminder / enum value records"
    ev.cov["exhaustive"] = False
    for smp in (next((r_ for r_ in recs if r_["kind"] == "facade" and r_["built"]), None),
                next((r_ for r_ in recs if r_["kind"] == "wc" and r_["mode"] == 7), None)):
        if smp is not None:
            ev.sample(smp)
    ev.assumptions += ["read-only members are discovered by reflection (public properties, str, repr, monitor, lookups)",
                       "the spa is mocked as in tests/test_snapshots.py (real structure and accessors, no connection)"]
