"""C10 — reset or exit at any point leaks no endpoint/task and has no late effects.

Design: spec/Lifecycle.tla resources (endpoints per connection / discovery, task families by
key) with Reset and Exit enabled at every frame boundary: NoTaskLeakAfterReset,
NoTaskAfterExit, BracketsClosedAtExit (model-checked, shared with C08/C09).
Binding: exact resource accounting on the virtual loop (every transport handed out and its
close(), every task through the task factory).  Crash-point enumeration: resets and context
exits are injected on a grid of virtual times covering discovery, every handshake step,
steady state and error states; after each reset the endpoints and tasks of the abandoned
connection are examined, late datagrams are delivered to the abandoned protocol objects and
time is advanced past every pending timer while all client observers are instrumented;
consecutive reconnect cycles measure boundedness.  Event logs are validated against
Lifecycle_Trace; resource records are judged by TLC (C10_Judge)."""
import asyncio

from .. import env, tlc
from ..sessions import AsyncSession, DEFAULT_SNAPSHOT
from .. import vloop as _vl
from ..simnet import SIM_ADDR
from .c08 import design_cfg
from .c07 import frame

FAMILY = ("LOC:", "SPA:", "FACADE:")


def snapshot(s, before_tasks, before_transports):
    loop = s.loop
    return {
        "endpoints_open": [[tr.id, "LOC" if tr.kw.get("allow_broadcast") else "SPA"] for tr in before_transports if not tr.closed],
        "tasks_alive": sorted(t.get_name() for t in before_tasks if not t.done() and t.get_name().startswith(FAMILY)),
    }


def pending_press(s):
    """the spa stops acknowledging pack commands (it still answers everything else) and a key press is started through
    the device API that does not await it: the press is waiting for its acknowledgement when the reset / exit comes"""
    from ..sessions import inner as _inner
    s.net.s2c = lambda data, now, n: ([] if (_inner(data) or b"").startswith(b"PACKS") else None)
    f = s.facade
    if f is None:
        raise env.MachineryError("pending_press: no facade")

    async def press():
        dev = (list(f.lights) + list(f.blowers))[0]
        dev.turn_on()                     # (synchronous API of the awaitable facade: starts a task)
        # ... and a second command of the same kind right behind it (two tasks of one name: the first holds the
        # protocol lock, the second queues behind it)
        s.spa.press(2)
    s.run(press())
    s.advance(0.4)


def lost_endpoint(s):
    """the operating system takes the connection's endpoint away (fatal socket error: connection_lost runs) shortly
    before the reset comes; the spa object and its helper tasks are still there and are the reset's to clean up"""
    tr = s.conn_transport()
    if tr is None:
        raise env.MachineryError("lost_endpoint: no connection endpoint")
    tr.close()
    s.advance(0.2)


def client_observers_on_devices(s, calls):
    """the client watches individual devices of the facade (water care, reminders, sensors, pumps), not only the facade"""
    f = s.facade
    if f is None:
        raise env.MachineryError("client_observers_on_devices: no facade")
    for d in [f.water_care, f.reminders_manager] + list(f.sensors)[:3] + list(f.pumps):
        if d is not None:
            d.watch(lambda *a, **k: calls.append(1))


def reset_at(rng, point, net_script=(), settle=0.3, prepare=None):
    """run to `point`, reset, examine what belonged to the abandoned connection"""
    recs = []
    observer_calls = [0]
    events_after = [0]
    armed = [False]

    async def on_event(sess, man, event, rec, kw):
        if armed[0] and rec["task"].startswith(FAMILY):
            # delivered by a task that belongs to a connection abandoned before `armed`
            t = asyncio.current_task()
            if getattr(t, "_gv_created", 1e18) < armed[1]:
                events_after[0] += 1

    with AsyncSession(on_event=on_event, rank=rng.choice(["stable", "perm", "reverse"]), rank_seed=rng.random()) as s:
        loop = s.loop
        for (t, mode) in net_script:
            if t < point:
                s.advance(max(0, t - loop.time()))
                s.net.blackhole = mode == "blackout"
        s.advance(max(0, point - loop.time()))
        if prepare is not None:
            prepare(s)
        tasks0 = list(loop.tasks)
        transports0 = list(loop.transports)
        old_spa = s.spa
        old_facade = s.facade
        old_protocols = [tr.protocol for tr in transports0]
        # instrument every client-visible observer of the connection that is about to be abandoned
        watched = []
        if old_spa is not None:
            for a in list(old_spa.struct.accessors.values()):
                a.watch(lambda *x: observer_calls.__setitem__(0, observer_calls[0] + (1 if armed[0] else 0)))
            old_spa.watch(lambda *x: observer_calls.__setitem__(0, observer_calls[0] + (1 if armed[0] else 0)))
        if old_facade is not None:
            for d in old_facade.all_automation_devices:
                if d is not None:
                    d.watch(lambda *x: observer_calls.__setitem__(0, observer_calls[0] + (1 if armed[0] else 0)))
        s.run(s.man.async_reset())
        t_ret = loop.time()
        s.advance(settle)
        snap = snapshot(s, tasks0, transports0)
        # a discovery that is under way is not abandoned by a reset: it runs to its end (at most the
        # discovery timeout) and closes its endpoint then; its resources are examined after that time
        if any(e[1] == "LOC" for e in snap["endpoints_open"]) or any(t.startswith("LOC:") for t in snap["tasks_alive"]):
            from geckolib.config import GeckoConfig
            s.advance(GeckoConfig.DISCOVERY_TIMEOUT_IN_SECONDS + 0.5)
            later = snapshot(s, tasks0, transports0)
            snap = {"endpoints_open": [e for e in snap["endpoints_open"] if e[1] != "LOC"] + [e for e in later["endpoints_open"] if e[1] == "LOC"],
                    "tasks_alive": [t for t in snap["tasks_alive"] if not t.startswith("LOC:")] + [t for t in later["tasks_alive"] if t.startswith("LOC:")]}
        recs.append({"kind": "reset", "point": int(point * 1000), "within": int(settle * 1000), **snap})
        # late effects: datagrams for the abandoned connection, and every pending timer
        armed[0] = True
        armed.append(t_ret)
        if old_spa is not None:
            sid, cid = old_spa.descriptor.identifier, old_spa.client_id
            late = [frame(sid, cid, b"STATP\x01\x01\x2c\x12\x34"), frame(sid, cid, b"RFERR"), frame(sid, cid, b"APING\x00"),
                    frame(sid, cid, b"WCERR"), frame(sid, cid, b"STATV\x00\x00\x02ab")]
            for tr in transports0:
                for d in late:
                    try:
                        tr.protocol.datagram_received(d, SIM_ADDR)
                    except Exception:
                        pass
        s.advance(200.0)
        recs.append({"kind": "late", "point": int(point * 1000), "observer_calls": observer_calls[0], "events_delivered": events_after[0]})
        recs.append(steady(s, "after-reset", point))
    return recs


def steady(s, scenario, point=0):
    """what is alive once everything has settled: a connection owns one task of each name and one endpoint, so any
    name alive twice, or a second endpoint of a kind, belongs to a connection that was abandoned"""
    loop = s.loop
    names = [t.get_name() for t in loop.tasks if not t.done() and t.get_name().startswith(FAMILY)]
    extra = {n for n in names if names.count(n) > 1}
    kinds = ["LOC" if tr.kw.get("allow_broadcast") else "SPA" for tr in loop.transports if not tr.closed]
    has_conn = s.man._spa is not None
    if not has_conn:
        # the manager holds no connection at all: whatever connection task or endpoint is alive was abandoned
        extra |= {n for n in names if n.startswith(("SPA:", "FACADE:"))}
    return {"kind": "steady", "scenario": scenario, "point": int(point * 1000), "extra_tasks": sorted(extra),
            "extra_endpoints": max(0, kinds.count("SPA") - (1 if has_conn else 0)) + max(0, kinds.count("LOC") - 1),
            "state": s.man.spa_state.name, "manager_has_connection": has_conn}


def event_points():
    """virtual times just after every event of a fault-free connection (frame boundaries of discovery and handshake)"""
    with AsyncSession(rank="stable") as s:
        if not s.wait_connected(60):
            raise env.MachineryError("event_points: no connection")
        s.advance(1.0)
        ts = sorted({round(e["t"], 3) for e in s.events})
    return ts


def reset_in_first_pause(rng, which):
    """a reset that lands in the (zero-length) pause right after the connection's endpoint was opened, i.e. before
    the connection's helper tasks exist: whatever the resumed handshake starts afterwards belongs to an abandoned
    connection and must not stay"""
    fired = []
    with AsyncSession(rank="stable", autostart=False) as s:
        loop = s.loop

        def on_endpoint(tr, proto):
            if not tr.kw.get("allow_broadcast"):
                fired.append(loop.time())
                if len(fired) <= which:
                    loop.create_task(s.man.async_reset(), name="GV:reset:first-pause")
        loop.on_endpoint = on_endpoint
        s.enter()
        s.advance(60.0 + 60.0 * which)
        if not fired:
            raise env.MachineryError("reset_in_first_pause: the connection endpoint was never opened")
        # (fewer endpoints than resets planned: the manager did not come back after an earlier one - that is C09's
        # subject; what is alive is examined all the same)
        rec = steady(s, f"reset-in-first-handshake-pause-{which}", fired[min(which, len(fired)) - 1])
        rec["endpoints_opened"] = len(fired)
        return [rec]


def garbled_handshake(rng, n_bad, then_reset):
    """the first `n_bad` firmware-version answers are truncated (the handshake step raises): whatever the manager
    does next, the half-open connection does not stay behind a newer one"""
    import re
    from ..simnet import SimPeer
    left = [n_bad]

    class Peer(SimPeer):
        def on_datagram(self, data, sender):
            out = []
            for item in super().on_datagram(data, sender):
                reply = item[0]
                if left[0] > 0 and b"<DATAS>SVERS" in reply:
                    left[0] -= 1
                    reply = re.sub(rb"<DATAS>.*</DATAS>", b"<DATAS>SVERS\x00\x01</DATAS>", reply, flags=re.DOTALL)
                out.append((reply,) + tuple(item[1:]))
            return out

    with AsyncSession(peer=Peer(DEFAULT_SNAPSHOT), rank=rng.choice(["stable", "perm", "reverse"]), rank_seed=rng.random()) as s:
        s.advance(40.0)
        if left[0] == n_bad:
            raise env.MachineryError("garbled_handshake: no version answer was sent")
        if then_reset:
            s.run(s.man.async_reset())
        s.advance(150.0)
        return [steady(s, f"garbled-version-answer-x{n_bad}{'-then-reset' if then_reset else ''}")]


def own_resets(rng, kind):
    """resets issued from INSIDE a task of the connection that is being abandoned: the library's own
    recovery reset (ping loop, on the first ping answered in an error state) and a client that presses
    'reconnect' from its handler of an RF-error event (delivered by the RF-error consumer task).  The
    calling task is itself a background task of the abandoned connection and has to end too."""
    recs, calls = [], []
    pressed = [0]

    async def on_event(sess, man, event, rec, kw):
        if kind == "client-in-rferr" and event.name == "ERROR_RF_ERROR" and pressed[0] == 0:
            pressed[0] = 1
            await man.async_reset()
        if kind == "client-in-facade-retry" and event.name == "ERROR_PROTOCOL_RETRY_COUNT_EXCEEDED" \
                and rec["task"].startswith("FACADE:") and pressed[0] == 0:
            # the facade's update cycle ran out of retries and the client reacts with a reset - from inside that task
            pressed[0] = 1
            await man.async_reset()
        if kind.endswith("-yielding") and event.name in ("RUNNING_SPA_DISCONNECTED", "CLIENT_FACADE_TEARDOWN"):
            # a client handler that really suspends (one trip through the loop) while the reset is carried out by
            # a task of the very connection that is being torn down
            await asyncio.sleep(0)

    with AsyncSession(on_event=on_event, rank=rng.choice(["stable", "perm", "reverse"]), rank_seed=rng.random()) as s:
        loop, man = s.loop, s.man
        orig = man.async_reset

        async def observed_reset():
            info = {"tasks0": list(loop.tasks), "transports0": list(loop.transports),
                    "by": asyncio.current_task().get_name()}
            try:
                await orig()
            finally:
                info["t_ret"] = loop.time()
                info["n_ret"] = next(_vl.SEQ)
                loop.call_at(loop.time() + 0.3, lambda: info.__setitem__("snap", snapshot(s, info["tasks0"], info["transports0"])))
                calls.append(info)

        man.async_reset = observed_reset
        if not s.wait_connected(60):
            raise env.MachineryError("own_resets: no connection")
        s.advance(3.0)
        obs_calls = []
        if kind == "client-in-facade-retry":
            from ..sessions import inner as _inner
            f_ = s.facade
            for d_ in (f_.water_care, f_.reminders_manager):
                d_.watch(lambda *a, **k: obs_calls.append(next(_vl.SEQ)))       # (order, not time: all of it is one instant)
            # the spa keeps answering pings but no longer answers the water-care query
            s.net.s2c = lambda data, now, n: ([] if (_inner(data) or b"").startswith(b"WCGET") else None)
            t0_ = loop.time()
            while not calls and loop.time() - t0_ < 600:
                s.advance(1.0)
            s.advance(30.0)
        elif kind.startswith("recovery"):
            s.net.blackhole = True
            s.advance(200.0)
            s.net.blackhole = False
            s.advance(200.0)
        else:
            sid, cid = s.spa.descriptor.identifier, s.spa.client_id
            s.inject(frame(sid, cid, b"RFERR"))
            s.advance(30.0)
        for i, c in enumerate(calls):
            if "snap" not in c:
                continue
            recs.append({"kind": "reset", "point": 900000 + i, "within": 300, "by": c["by"], **c["snap"]})
        if kind == "client-in-facade-retry":
            for i, c in enumerate(calls):
                late = [n_ for n_ in obs_calls if n_ > c.get("n_ret", 1 << 62)]
                recs.append({"kind": "late", "point": 910000 + i, "observer_calls": len(late), "events_delivered": 0,
                             "by": c["by"]})
        if not any(c["by"].startswith(("FACADE:" if kind == "client-in-facade-retry" else "SPA:")) for c in calls):
            raise env.MachineryError(f"own_resets({kind}): no reset was issued from a connection task: {[c['by'] for c in calls]}")
    return recs


def interrupted_reset(rng, how):
    """a reset that does not run to its end - its caller gives up on it while the client's handler of the disconnect
    event is suspended ("cancel"), or that handler raises ("raise") - followed by a second reset: the second one
    finishes what the first left behind"""
    mode = {"first": True}

    async def on_event(sess, man, event, rec, kw):
        if event.name == "RUNNING_SPA_DISCONNECTED" and mode["first"]:
            mode["first"] = False
            if how == "cancel":
                await asyncio.sleep(5.0)
            else:
                raise RuntimeError("client handler failed")

    recs = []
    with AsyncSession(on_event=on_event, rank=rng.choice(["stable", "perm", "reverse"]), rank_seed=rng.random()) as s:
        loop = s.loop
        if not s.wait_connected(60):
            raise env.MachineryError("interrupted_reset: no connection")
        s.advance(3.0)
        tasks0 = list(loop.tasks)
        transports0 = list(loop.transports)
        t1 = loop.create_task(s.man.async_reset(), name="GV:reset-1")
        s.advance(0.5)
        if how == "cancel":
            if t1.done() or mode["first"]:
                raise env.MachineryError("interrupted_reset: the first reset was not suspended in the client's handler")
            t1.cancel()
        s.advance(0.2)
        if not t1.done():
            raise env.MachineryError("interrupted_reset: the first reset is still running")
        if how == "raise" and (t1.cancelled() or t1.exception() is None):
            # the library absorbed the handler's failure: the first reset ran to its end, an ordinary reset
            pass
        s.run(s.man.async_reset())
        s.advance(0.3)
        snap = snapshot(s, tasks0, transports0)
        if any(e[1] == "LOC" for e in snap["endpoints_open"]) or any(t.startswith("LOC:") for t in snap["tasks_alive"]):
            from geckolib.config import GeckoConfig
            s.advance(GeckoConfig.DISCOVERY_TIMEOUT_IN_SECONDS + 0.5)
            later = snapshot(s, tasks0, transports0)
            snap = {"endpoints_open": [e for e in snap["endpoints_open"] if e[1] != "LOC"] + [e for e in later["endpoints_open"] if e[1] == "LOC"],
                    "tasks_alive": [t for t in snap["tasks_alive"] if not t.startswith("LOC:")] + [t for t in later["tasks_alive"] if t.startswith("LOC:")]}
        recs.append({"kind": "reset", "point": 920000 + (0 if how == "cancel" else 1), "within": 300, **snap})
        s.advance(100.0)
        recs.append(steady(s, "after-interrupted-reset-" + how, 920000))
    return recs


class tidy_period:
    """run a scenario with another task-tidy period (a configuration constant of both tables)"""

    def __init__(self, seconds):
        self.seconds = seconds

    def __enter__(self):
        import geckolib.config as cfg
        self.saved = (cfg._GeckoIdleConfig.TASK_TIDY_FREQUENCY_IN_SECONDS, cfg._GeckoActiveConfig.TASK_TIDY_FREQUENCY_IN_SECONDS)
        if self.seconds is not None:
            cfg._GeckoIdleConfig.TASK_TIDY_FREQUENCY_IN_SECONDS = self.seconds
            cfg._GeckoActiveConfig.TASK_TIDY_FREQUENCY_IN_SECONDS = self.seconds

    def __exit__(self, *a):
        import geckolib.config as cfg
        cfg._GeckoIdleConfig.TASK_TIDY_FREQUENCY_IN_SECONDS, cfg._GeckoActiveConfig.TASK_TIDY_FREQUENCY_IN_SECONDS = self.saved


def exit_at(rng, point, blackout=False, yielding=False, prepare=None):
    """yielding: the client's handle_event really awaits (one loop iteration) in every delivery, so the
    cancellations of __aexit__ and of gather() reach a task at two different awaits"""
    async def on_event(sess, man, event, rec, kw):
        if yielding:
            await asyncio.sleep(0)

    s = AsyncSession(on_event=on_event, rank=rng.choice(["stable", "perm", "reverse"]), rank_seed=rng.random())
    try:
        loop = s.loop
        if blackout:
            s.net.blackhole = True
        s.advance(point)
        if prepare is not None:
            prepare(s)
        returned = s.exit_context()
        s.advance(1.0)
        return [{"kind": "exit", "point": int(point * 1000), "returned": returned,
                 "endpoints_open": [[tr.id, "LOC" if tr.kw.get("allow_broadcast") else "SPA"] for tr in loop.transports if not tr.closed],
                 "tasks_alive": sorted(t.get_name() for t in loop.tasks if not t.done() and t.get_name().startswith(FAMILY + ("SPAMAN:", "ASYNC:")))}]
    finally:
        s.close()


def bookkeeping_probe(rng):
    """TaskBook.tla binding: the model's negative control orphans a task that is added while the tidy
    pass is suspended between reading and replacing the list.  On the real manager a probe task is
    added at EVERY loop iteration across several tidy passes (some probes finish at once, so the pass
    always has something to tidy); every live probe must be on the list and cancelling the family
    must end them all."""
    with tidy_period(0.3):
        with AsyncSession(rank="stable") as s:
            if not s.wait_connected(60):
                raise env.MachineryError("bookkeeping probe: no connection")
            man, loop = s.man, s.loop
            added, n, armed, per_ms = [], [0], [True], {}
            orig = loop._run_once

            async def nop():
                return None

            def hooked():
                # a probe that ends at once keeps the loop ready, so the count per virtual millisecond is
                # capped (time must advance); 6 covers the iterations a suspended pass takes to resume
                ms = int(loop.time() * 1000)
                if armed[0] and per_ms.get(ms, 0) < 6 and n[0] < 6000:
                    per_ms[ms] = per_ms.get(ms, 0) + 1
                    n[0] += 1
                    man.add_task(nop() if n[0] % 3 == 0 else asyncio.sleep(60.0), f"probe{n[0]}", "GVPROBE")
                    added.append(man._tasks[-1])
                orig()

            loop._run_once = hooked
            try:
                s.advance(2.0)
            finally:
                armed[0] = False
                loop._run_once = orig
            orphans = [t.get_name() for t in added if not t.done() and t not in man._tasks]
            async def cancel_family():          # library code runs inside the loop
                man.cancel_key_tasks("GVPROBE")
            s.run(cancel_family())
            s.advance(0.3)
            still = [t for t in added if not t.done()]
            for t in still:
                t.cancel()
            s.advance(0.1)
    return [{"kind": "book", "probes": len(added), "n_orphans": len(orphans), "orphans": orphans[:5], "alive_after_cancel": len(still)}]


def cycles(rng, n):
    mx_e = mx_t = 0
    with AsyncSession(rank="stable") as s:
        loop = s.loop
        for i in range(n):
            if not s.wait_connected(60):
                break
            s.advance(rng.choice([0.5, 3.0, 15.0]))
            s.run(s.man.async_reset())
            s.advance(0.3)
            mx_e = max(mx_e, len(loop.open_transports()))
            mx_t = max(mx_t, len([t for t in loop.tasks if not t.done() and t.get_name().startswith(FAMILY)]))
        s.wait_connected(60)
        mx_e = max(mx_e, len(loop.open_transports()))
        mx_t = max(mx_t, len([t for t in loop.tasks if not t.done() and t.get_name().startswith(FAMILY)]))
    return [{"kind": "cycles", "n": n, "max_endpoints": mx_e, "max_tasks": mx_t, "bound_endpoints": 2, "bound_tasks": 12}]


def run(ctx):
    ev = ctx.ev
    rng = env.rng("c10")
    r = tlc.model_check("Lifecycle", design_cfg("Lifecycle_q.cfg"), timeout=900, tag="LC-q10")
    ctx.tlc_design("Lifecycle resources: reset / exit at every frame boundary (NoTaskLeakAfterReset, NoTaskAfterExit, BracketsClosedAtExit)", r)
    pts = [0.05, 2.0, 4.05, 4.25, 4.45, 4.65, 4.85, 6.0, 7.75, 12.0, 70.0] if ctx.quick else \
        [round(0.05 + 0.1 * k, 2) for k in range(0, 95)] + [20.0, 70.0, 131.0]
    recs = []
    # ... and just after every event of a fault-free connection (the boundaries between the steps)
    eps = event_points()
    extra_pts = sorted({round(t + d, 3) for t in eps for d in ((0.001,) if ctx.quick else (0.001, 0.02, 0.09))})
    if ctx.quick:
        extra_pts = [p for i, p in enumerate(extra_pts) if i % 2 == 0][:14]
    pts = sorted(set(pts) | set(extra_pts))
    for p in pts:
        recs += reset_at(rng, p)
    recs += reset_at(rng, 12.0, prepare=lost_endpoint)
    recs += reset_at(rng, 5.0, prepare=lost_endpoint)
    recs += reset_at(rng, 12.0, prepare=pending_press)
    recs += exit_at(rng, 12.0, prepare=pending_press)
    recs += reset_in_first_pause(rng, 1)
    recs += reset_in_first_pause(rng, 2)
    recs += garbled_handshake(rng, 1, True)
    recs += garbled_handshake(rng, 1, False)
    recs += garbled_handshake(rng, 3, True)
    # resets in error states
    for p in ([150.0] if ctx.quick else [80.0, 150.0, 200.0, 330.0]):
        recs += reset_at(rng, p, net_script=[(12.0, "blackout")])
    xp = [0.05, 2.0, 4.1, 4.5, 5.5, 8.0, 20.0] if ctx.quick else [round(0.05 + 0.15 * k, 2) for k in range(0, 70)] + [20.0, 130.0]
    for p in xp:
        recs += exit_at(rng, p)
        recs += exit_at(rng, p, yielding=True)
    recs += exit_at(rng, 14.0, blackout=True)
    recs += interrupted_reset(rng, "cancel")
    recs += interrupted_reset(rng, "raise")
    recs += own_resets(rng, "recovery")
    recs += own_resets(rng, "recovery-yielding")
    recs += own_resets(rng, "client-in-facade-retry")
    recs += own_resets(rng, "client-in-rferr")
    # the task-tidy period is a configuration constant: other values move the tidy pass relative
    # to task creation (reset and exit after a connection, for a sweep of periods)
    for tp in ([0.1, 0.2, 0.6, 1.4, 2.1, 4.2] if ctx.quick else [round(0.1 * k, 1) for k in range(1, 61)]):
        with tidy_period(tp):
            recs += exit_at(rng, 9.0)
            recs += [r_ for r_ in reset_at(rng, 9.0) if r_["kind"] == "reset"]
    recs += cycles(rng, 5 if ctx.quick else 20)
    rb = tlc.model_check("TaskBook", "TaskBook_TRUE.cfg", workers=2, timeout=120, tag="TaskBook")
    ctx.tlc_design("TaskBook: task list bookkeeping with an atomic tidy pass (NoOrphan, CancelIsComplete)", rb)
    rb2 = tlc.model_check("TaskBook", "TaskBook_FALSE.cfg", workers=2, timeout=120, tag="TaskBook-ctl", coverage=False)
    ev.add_tlc("negative control: tidy pass that awaits between reading and replacing the list (must be refuted)", rb2)
    if "NoOrphan" not in rb2.violated:
        raise env.MachineryError("negative control not refuted")
    recs += bookkeeping_probe(rng)
    bad, n = tlc.judge("C10_Judge", recs, "c10", chunk=500)
    for idx, why in bad:
        r_ = recs[idx]
        sig = {"clause": why}
        if r_["kind"] in ("reset", "exit"):
            kinds = sorted({e[1] for e in r_["endpoints_open"]})
            sig["endpoint"] = kinds[0] if kinds else None
            sig["at"] = r_["kind"]
        ctx.violation(sig, {"record": r_})
    ev.cov["evaluations"] = n
    ev.cov["traces_validated_against_impl"] = n - len(bad)
    ev.cov["reset_points"] = len(pts)
    ev.cov["exit_points"] = len(xp) + 1
    ev.cov["distinct_nontrivial"] = len({(r_["kind"], r_.get("point")) for r_ in recs})
    ev.cov["rule"] = "one record per (kind, injection point): resets and exits on a grid of virtual times + error states, late-effect probes, reconnect cycles"
    ev.sample(recs[0])
    ev.sample(next(r_ for r_ in recs if r_["kind"] == "exit"))
    ev.assumptions += ["'promptly' = within 0.3 virtual seconds after the reset returned / 1 s after exit",
                       "the crash-point grid (0.1 s during discovery and handshake) stands for 'every await point'",
                       "boundedness: <= 2 open endpoints and <= 12 LOC/SPA/FACADE tasks at any time over the cycles"]
