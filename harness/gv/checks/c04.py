"""C04 — wire format: every message round-trips and is claimed by exactly its verb.

Design: spec/Wire.tla (byte layout of every message kind, framing, claim matrix, reply
addressing); Wire_MC checks frame/hello round trips for payloads made of the delimiter
tags themselves, the claim matrix and prefix-freeness of the verbs.  Binding: every real
constructor is called with boundary and seeded field values; the bytes, the can_handle
matrix of all 15 standard handler classes on the datagram and on its un-framed content,
the fields decoded by a fresh peer handler and a reply built from the received parms are
recorded and judged by TLC (C04_Judge)."""
import asyncio

from .. import env, tlc, packs

SENDER = ("10.9.8.7", 40123)


def L(b):
    return list(b)


def _classes():
    import geckolib.driver as d
    return {
        "Hello": lambda: d.GeckoHelloProtocolHandler(b""),
        "Packet": lambda: d.GeckoPacketProtocolHandler(),
        "Ping": lambda: d.GeckoPingProtocolHandler(),
        "Version": lambda: d.GeckoVersionProtocolHandler(),
        "GetChannel": lambda: d.GeckoGetChannelProtocolHandler(),
        "ConfigFile": lambda: d.GeckoConfigFileProtocolHandler(),
        "StatusBlock": lambda: d.GeckoStatusBlockProtocolHandler(),
        "PartialStatusBlock": lambda: d.GeckoPartialStatusBlockProtocolHandler(_Sock()),
        "AsyncPartialStatusBlock": lambda: d.GeckoAsyncPartialStatusBlockProtocolHandler(_Sock()),
        "Watercare": lambda: d.GeckoWatercareProtocolHandler(),
        "WatercareError": lambda: d.GeckoWatercareErrorHandler(),
        "UpdateFirmware": lambda: d.GeckoUpdateFirmwareProtocolHandler(),
        "Reminders": lambda: d.GeckoRemindersProtocolHandler(),
        "PackCommand": lambda: d.GeckoPackCommandProtocolHandler(),
        "RFErr": lambda: d.GeckoRFErrProtocolHandler(),
    }


class _Sock:
    def __init__(self):
        self.sent = []
        self.n = 0

    def queue_send(self, h, dest=None):
        self.sent.append(h)

    def get_and_increment_sequence_counter(self, command):
        # cyclic like the real counters (a long-lived twin acknowledges thousands of messages in the thorough tier)
        self.n = self.n % 191 + 1
        return self.n


SIM_KINDS = {"hello_bcast", "hello_client", "ping_req", "vers_req", "chan_req", "file_req", "wc_req", "rem_req", "fw_req",
             "keypress", "setvalue", "statq", "wc_set", "ping_resp", "packs", "rferr", "wc_resp"}

OWNER = {
    "ping_req": "Ping", "ping_resp": "Ping", "vers_req": "Version", "vers_resp": "Version",
    "chan_req": "GetChannel", "chan_resp": "GetChannel", "file_req": "ConfigFile", "file_resp": "ConfigFile",
    "statu": "StatusBlock", "statv": "StatusBlock", "statp": "PartialStatusBlock", "statq": "PartialStatusBlock",
    "keypress": "PackCommand", "setvalue": "PackCommand", "packs": "PackCommand",
    "wc_req": "Watercare", "wc_resp": "Watercare", "wc_set": "Watercare", "wc_sched": "Watercare",
    "rem_req": "Reminders", "rem_resp": "Reminders", "fw_req": "UpdateFirmware", "fw_resp": "UpdateFirmware",
    "rferr": "RFErr",
}


def build(kind, f, parms):
    import geckolib.driver as d
    from geckolib.driver import GeckoReminderType
    k = kind
    if k == "hello_bcast":
        return d.GeckoHelloProtocolHandler.broadcast()
    if k == "hello_client":
        return d.GeckoHelloProtocolHandler.client(bytes(f["id"]))
    if k == "hello_resp":
        return d.GeckoHelloProtocolHandler.response(bytes(f["id"]), bytes(f["name"]).decode("latin1"))
    kw = {"parms": parms}
    if k == "ping_req":
        return d.GeckoPingProtocolHandler.request(**kw)
    if k == "ping_resp":
        return d.GeckoPingProtocolHandler.response(**kw)
    if k == "vers_req":
        return d.GeckoVersionProtocolHandler.request(f["seq"], **kw)
    if k == "vers_resp":
        return d.GeckoVersionProtocolHandler.response(tuple(f["en"]), tuple(f["co"]), **kw)
    if k == "chan_req":
        return d.GeckoGetChannelProtocolHandler.request(f["seq"], **kw)
    if k == "chan_resp":
        return d.GeckoGetChannelProtocolHandler.response(f["channel"], f["signal"], **kw)
    if k == "file_req":
        return d.GeckoConfigFileProtocolHandler.request(f["seq"], **kw)
    if k == "file_resp":
        return d.GeckoConfigFileProtocolHandler.response(bytes(f["key"]).decode("latin1"), f["cfg"], f["log"], **kw)
    if k == "statu":
        return d.GeckoStatusBlockProtocolHandler.request(f["seq"], f["start"], f["len"], **kw)
    if k == "statv":
        return d.GeckoStatusBlockProtocolHandler.response(f["idx"], f["next"], bytes(f["data"]), **kw)
    if k == "statp":
        return d.GeckoPartialStatusBlockProtocolHandler.report_changes(
            _Sock(), [(c["pos"], bytes(c["data"])) for c in f["changes"]], **kw)
    if k == "statq":
        # the acknowledgement is built inside the partial handlers: build it the same way
        import struct
        return d.GeckoPacketProtocolHandler(content=b"STATQ" + struct.pack(">B", f["seq"]), **kw)
    if k == "keypress":
        return d.GeckoPackCommandProtocolHandler.keypress(f["seq"], f["pack"], f["key"], **kw)
    if k == "setvalue":
        return d.GeckoPackCommandProtocolHandler.set_value(f["seq"], f["pack"], f["cfg"], f["log"], f["pos"], f["len"], f["val"], **kw)
    if k == "packs":
        return d.GeckoPackCommandProtocolHandler.response(**kw)
    if k == "wc_req":
        return d.GeckoWatercareProtocolHandler.request(f["seq"], **kw)
    if k == "wc_resp":
        return d.GeckoWatercareProtocolHandler.response(f["mode"], **kw)
    if k == "wc_set":
        return d.GeckoWatercareProtocolHandler.set(f["seq"], f["mode"], **kw)
    if k == "wc_sched":
        return d.GeckoWatercareProtocolHandler.giveschedule(**kw)
    if k == "rem_req":
        return d.GeckoRemindersProtocolHandler.request(f["seq"], **kw)
    if k == "rem_resp":
        return d.GeckoRemindersProtocolHandler.response([(GeckoReminderType(r["t"]), r["days"]) for r in f["rem"]], **kw)
    if k == "fw_req":
        return d.GeckoUpdateFirmwareProtocolHandler.request(f["seq"], **kw)
    if k == "fw_resp":
        return d.GeckoUpdateFirmwareProtocolHandler.response(**kw)
    if k == "rferr":
        return d.GeckoRFErrProtocolHandler.response(**kw)
    raise env.MachineryError(f"unknown kind {k}")


_TWINS = {}


def decode(kind, h, content, parms, loop, persistent=False):
    """run the owning handler class on the content; -> dict of decoded attributes"""
    k = kind
    if k in ("statp", "statq"):
        # both twins must agree
        outs = []
        for async_ in (False, True):
            import geckolib.driver as d
            if persistent and async_ in _TWINS:
                hh = _TWINS[async_]
                sock = hh._protocol if async_ else hh._socket
                sock.sent.clear()
            else:
                sock = _Sock()
                hh = (d.GeckoAsyncPartialStatusBlockProtocolHandler(sock) if async_
                      else d.GeckoPartialStatusBlockProtocolHandler(sock))
                if persistent:
                    _TWINS[async_] = hh
            if async_:
                loop.run_until_complete(hh.async_handle(content, parms))
            else:
                if persistent:
                    hh.changes.clear()      # the threaded client clears the list after applying it
                hh.handle(content, parms)
            if k == "statq":
                outs.append({"seq": hh.sequence})
            else:
                outs.append({"changes": [{"pos": p, "data": L(dt)} for p, dt in hh.changes], "acks": len(sock.sent)})
        if outs[0] != outs[1]:
            return {"twins_disagree": True, "seq": -1, "changes": [], "acks": -1}
        return outs[0]
    h.handle(content, parms)
    if k == "wc_req":
        return {"seq": h._sequence, "schedule": bool(h.schedule)}
    if k in ("vers_req", "chan_req", "file_req", "rem_req", "fw_req"):
        return {"seq": h._sequence}
    if k == "vers_resp":
        return {"en": [h.en_build, h.en_major, h.en_minor], "co": [h.co_build, h.co_major, h.co_minor]}
    if k == "chan_resp":
        return {"channel": h.channel, "signal": h.signal_strength}
    if k == "file_resp":
        return {"key": L(h.plateform_key.encode("latin1")), "cfg": h.config_version, "log": h.log_version}
    if k == "statu":
        return {"seq": h.sequence, "start": h.start, "len": h.length}
    if k == "statv":
        return {"idx": h.sequence, "next": h.next, "len": h.length, "data": L(h.data)}
    if k == "keypress":
        return {"seq": h._sequence, "pack": h.pack_type, "is_key": bool(h.is_key_press), "is_set": bool(h.is_set_value),
                "key": h.keycode if h.keycode is not None else -1}
    if k == "setvalue":
        return {"seq": h._sequence, "pack": h.pack_type, "is_key": bool(h.is_key_press), "is_set": bool(h.is_set_value),
                "pos": h.position if h.position is not None else -1, "data": L(h.new_data or b"")}
    if k == "wc_resp":
        return {"mode": h.mode}
    if k == "rem_resp":
        return {"rem": [{"t": int(t), "days": dd} for (t, dd) in h.reminders]}
    return {}


def fields(rng, quick):
    """yield (kind, field record) with boundary and seeded values"""
    seqs = [0, 1, 191, 192, 255, rng.randrange(256)]
    ids = [(b"SPA01:02:03:04:05:06", b"IOSabcdef-1234"), (b"S", b"I"), (b"SPA|x", b"AND<1>"),
           (bytes(rng.randrange(33, 60) for _ in range(8)), bytes(rng.randrange(63, 127) for _ in range(12)))]
    evil = [b"", b"\n", b"\r\n\x00\xff", b"</DATAS>", b"</SRCCN><DESCN>x</DESCN><DATAS>", b"</PACKT>", b"<PACKT><SRCCN>a</SRCCN><DESCN>b</DESCN><DATAS>STATV</DATAS></PACKT>",
            b"</DESCN><DATAS>", b"|", bytes(range(256))[:255], bytes([rng.randrange(256) for _ in range(39)])]
    n_rand = 3 if quick else 40
    for _ in range(n_rand):
        evil.append(bytes(rng.randrange(256) for _ in range(rng.randrange(0, 256))))

    def ident():
        a, b = rng.choice(ids)
        return {"p2": L(a), "p3": L(b)}

    yield "hello_bcast", {}
    for cid in (b"IOSx", b"ANDROID-1|2", b"IOS" + bytes(range(1, 60))):
        yield "hello_client", {"id": L(cid)}
    names = ["My Spa", "", "a|b", "|", "caf\xe9 \xfc\xdf", "x||y|", "".join(chr(c) for c in range(32, 256) if c != 124)]
    for sid in (b"SPA01:02:03:04:05:06", b"SPAxx"):
        for n in names:
            yield "hello_resp", {"id": L(sid), "name": L(n.encode("latin1"))}
    for s in seqs:
        for k in ("vers_req", "chan_req", "file_req", "wc_req", "rem_req", "fw_req", "statq"):
            yield k, {"seq": s, **ident()}
    for k in ("ping_req", "ping_resp", "packs", "wc_sched", "fw_resp", "rferr"):
        for _ in range(2):
            yield k, ident()
    for en in ([0, 0, 0], [65535, 255, 255], [88, 15, 0], [rng.randrange(65536), rng.randrange(256), rng.randrange(256)]):
        yield "vers_resp", {"en": en, "co": list(reversed(en))[::-1][:3] if False else [en[0] ^ 1, en[1], en[2]], **ident()}
    for ch, sg in ((0, 0), (255, 255), (10, 33), (rng.randrange(256), rng.randrange(256))):
        yield "chan_resp", {"channel": ch, "signal": sg, **ident()}
    # every shipped platform name x cfg/log versions
    combos = packs.combos()
    mods = packs.modules()
    names_by_plat = {}
    from geckolib.driver import GeckoStructure
    st = GeckoStructure(None)
    for m in mods:
        if m["kind"] == "pack":
            names_by_plat[m["platform"]] = packs.table(m, st).name
    sel = combos if not quick else [c for i, c in enumerate(combos) if i % 9 == 0]
    for plat, c, l in sel:
        yield "file_resp", {"key": L(names_by_plat[plat].encode("latin1")), "cfg": c, "log": l, **ident()}
    for s in seqs[:4]:
        for st_, ln in ((0, 0), (0, 1024), (65535, 65535), (256, 479), (rng.randrange(65536), rng.randrange(65536))):
            yield "statu", {"seq": s, "start": st_, "len": ln, **ident()}
    for data in evil:
        yield "statv", {"idx": rng.choice([0, 1, 26, 255]), "next": rng.choice([0, 1, 27, 255]), "data": L(data[:255]), **ident()}
    for n in (0, 1, 2, 7, 60):
        ch = [{"pos": rng.choice([0, 1, 255, 256, 65535, rng.randrange(65536)]),
               "data": L(rng.choice([b"\x00\x00", b"\xff\xff", b"</", b"\n\r", bytes([rng.randrange(256), rng.randrange(256)])]))}
              for _ in range(n)]
        yield "statp", {"changes": ch, **ident()}
    yield "statp", {"changes": [{"pos": 300, "data": [7]}], **ident()}        # the simulator's 1-byte form
    for s in seqs:
        for key in (0, 1, 16, 23, 255):
            yield "keypress", {"seq": s, "pack": rng.choice([1, 6, 10, 13, 255]), "key": key, **ident()}
        for ln, val in ((1, 0), (1, 255), (2, 0), (2, 65535), (2, 0x3C2F), (1, 60)):
            yield "setvalue", {"seq": s, "pack": rng.choice([1, 6, 10]), "cfg": rng.choice([0, 9, 86, 255]),
                               "log": rng.choice([0, 9, 83, 255]), "pos": rng.choice([0, 1, 255, 256, 65535]),
                               "len": ln, "val": val, **ident()}
    for s in seqs[:3]:
        for mode in (0, 1, 4, 5, 255):
            yield "wc_set", {"seq": s, "mode": mode, **ident()}
    for mode in (0, 1, 4, 5, 255):
        yield "wc_resp", {"mode": mode, **ident()}
    for days in ([], [-32768], [32767, 0, -1], [-13, 0, 47, 687, -13, -13, 0, 0, 0, 0], [rng.randrange(-32768, 32768) for _ in range(6)]):
        yield "rem_resp", {"rem": [{"t": rng.randrange(0, 7), "days": d_} for d_ in days], **ident()}


def random_fields(rng, n):
    """seeded random field tuples for every kind"""
    def rb(k):
        return [rng.randrange(256) for _ in range(k)]

    def ident():
        # identifiers: arbitrary bytes but no '<' (no tag text) and non-empty
        a = [c for c in rb(rng.randrange(1, 24)) if c != 60] or [83]
        b = [c for c in rb(rng.randrange(1, 24)) if c != 60] or [73]
        return {"p2": a, "p3": b}
    u8 = lambda: rng.randrange(256)
    u16 = lambda: rng.randrange(65536)
    for _ in range(n):
        yield "hello_resp", {"id": [c for c in rb(rng.randrange(1, 20)) if c != 124] or [83], "name": rb(rng.randrange(0, 40))}
        yield rng.choice(["vers_req", "chan_req", "file_req", "wc_req", "rem_req", "fw_req", "statq"]), {"seq": u8(), **ident()}
        yield "vers_resp", {"en": [u16(), u8(), u8()], "co": [u16(), u8(), u8()], **ident()}
        yield "chan_resp", {"channel": u8(), "signal": u8(), **ident()}
        yield "statu", {"seq": u8(), "start": u16(), "len": u16(), **ident()}
        yield "statv", {"idx": u8(), "next": u8(), "data": rb(rng.randrange(0, 256)), **ident()}
        yield "statp", {"changes": [{"pos": u16(), "data": rb(2)} for _ in range(rng.randrange(0, 9))], **ident()}
        yield "keypress", {"seq": u8(), "pack": u8(), "key": u8(), **ident()}
        ln = rng.choice([1, 2])
        yield "setvalue", {"seq": u8(), "pack": u8(), "cfg": u8(), "log": u8(), "pos": u16(), "len": ln,
                           "val": u8() if ln == 1 else u16(), **ident()}
        yield "wc_resp", {"mode": u8(), **ident()}
        yield "rem_resp", {"rem": [{"t": rng.randrange(0, 7), "days": rng.randrange(-32768, 32768)}
                                   for _ in range(rng.randrange(0, 11))], **ident()}


def run(ctx):
    ev = ctx.ev
    rng = env.rng("c04")
    from ..kf import flags
    wc_all = "KF_WatercareVerbsUnclaimed" not in flags()
    import os
    cfg = os.path.join(env.outdir("cfg"), "Wire_MC.cfg")
    with open(cfg, "w") as f:
        f.write(open(os.path.join(env.SPEC, "Wire_MC.cfg")).read().replace(
            "WatercareClaimsAll = FALSE", f"WatercareClaimsAll = {'TRUE' if wc_all else 'FALSE'}"))
    r = tlc.model_check("Wire_MC", cfg, workers=1, timeout=600, coverage=False)
    ctx.tlc_design("Wire laws: frame/hello round trip for tag-made payloads, claim matrix, prefix-free verbs, reply swap", r)
    jcfg = os.path.join(env.outdir("cfg"), "C04_Judge.cfg")
    with open(jcfg, "w") as f:
        # the records are judged against the property as stated (every built message has an
        # owner); the listed finding is matched by signature and printed as KNOWN-FINDING
        f.write("CONSTANT WatercareClaimsAll = TRUE\n")

    import geckolib.driver as d
    from ..simnet import SimPeer
    sim_peer = SimPeer(env.REPO + "/tests/snapshots/default.snapshot")
    classes = _classes()
    loop = asyncio.new_event_loop()
    recs = []
    persistent = {}
    _TWINS.clear()
    import itertools
    for kind, f in itertools.chain(fields(rng, ctx.quick), random_fields(rng, 150 if ctx.quick else 6000)):
        framed = not kind.startswith("hello")
        parms = None
        if framed:
            parms = (SENDER[0], SENDER[1], bytes(f["p2"]), bytes(f["p3"]))
        try:
            h = build(kind, f, parms)
            b = h.send_bytes
        except Exception as e:  # noqa
            recs.append({"kind": kind, "f": f, "bytes": [], "frame_claims": [], "inner_claims": [],
                         "frame": {"ok": False, "src": [], "dst": [], "content": []}, "dec": {}, "dec2": {}, "decoded": False, "dec_err": f"build:{type(e).__name__}",
                         "reply": [], "reply_to_sender": False, "has_sim": False, "sim": [], "sim_rf": []})
            continue
        rec = {"kind": kind, "f": f, "bytes": L(b)}
        rec["frame_claims"] = [n for n, mk in classes.items() if mk().can_handle(b, SENDER)]
        rec["inner_claims"] = []
        rec["frame"] = {"ok": False, "src": [], "dst": [], "content": []}
        rec["dec"] = {}
        rec["dec_err"] = ""
        rec["decoded"] = False
        rec["dec2"] = {}
        rec["reply"] = []
        rec["reply_to_sender"] = False
        try:
            if framed:
                ph = d.GeckoPacketProtocolHandler()
                ph.handle(b, SENDER)
                src, dst, content = ph.parms[2], ph.parms[3], ph.packet_content
                rec["frame"] = {"ok": content is not None, "src": L(src or b""), "dst": L(dst or b""), "content": L(content or b"")}
                if content is not None:
                    rec["inner_claims"] = [n for n, mk in classes.items() if mk().can_handle(content, ph.parms)]
                    reply = d.GeckoPackCommandProtocolHandler.response(parms=ph.parms)
                    rec["reply"] = L(reply.send_bytes)
                    rec["reply_to_sender"] = (ph.parms[0], ph.parms[1]) == SENDER
                    owner = OWNER[kind]
                    if owner in rec["inner_claims"] or kind in ("statp", "statq"):
                        rec["dec"] = decode(kind, classes[owner](), content, ph.parms, loop)
                        rec["decoded"] = True
                        if owner not in persistent:
                            persistent[owner] = classes[owner]()
                        hp = persistent[owner]
                        if kind == "rem_resp":
                            hp.reminders = []       # a reminders handler is single-use by design
                        if kind == "wc_req" and (len(recs) % 2 == 0):
                            # history of the long-lived instance: the other request verb it accepts (a schedule
                            # request, for which the library has no builder) came in before this mode request
                            hp.handle(b"REQWC" + bytes([len(recs) % 256]), ph.parms)
                        rec["dec2"] = decode(kind, hp, content, ph.parms, loop, persistent=True)
            else:
                hh = persistent.setdefault("Hello", d.GeckoHelloProtocolHandler(b""))
                hh.handle(b, SENDER)
                if kind == "hello_resp":
                    rec["dec"] = {"id": L(hh.spa_identifier), "name": L(hh.spa_name.encode("latin1"))}
                elif kind == "hello_client":
                    rec["dec"] = {"id": L(hh.client_identifier)}
                else:
                    rec["dec"] = {"bcast": bool(hh.was_broadcast_discovery)}
                rec["decoded"] = True
        except Exception as e:  # noqa
            rec["dec_err"] = type(e).__name__
        # the bundled simulator as a responder: what it queues for this datagram, normally and in RF-error mode
        rec["has_sim"] = kind in SIM_KINDS
        rec["sim"], rec["sim_rf"] = [], []
        if rec["has_sim"]:
            for mode, key in ((False, "sim"), (True, "sim_rf")):
                sim_peer.rferr = mode
                try:
                    outs = sim_peer.on_datagram(b, SENDER)
                except Exception as e:  # noqa
                    rec[key] = [{"verb": f"raised:{type(e).__name__}", "swapped": False, "to_sender": False}]
                    continue
                for (rb_, dest) in outs:
                    if rb_.startswith(b"<HELLO>"):
                        rec[key].append({"verb": "HELLO", "swapped": True, "to_sender": tuple(dest) == SENDER})
                        continue
                    ph2 = d.GeckoPacketProtocolHandler()
                    try:
                        ph2.handle(rb_, SENDER)
                        c2 = ph2.packet_content or b""
                        rec[key].append({"verb": c2[:5].decode("latin1"),
                                         "swapped": ph2.parms[2] == bytes(f["p2"]) and ph2.parms[3] == bytes(f["p3"]),
                                         "to_sender": tuple(dest) == SENDER})
                    except Exception as e:  # noqa
                        rec[key].append({"verb": f"unparsed:{type(e).__name__}", "swapped": False, "to_sender": False})
            sim_peer.rferr = False
        recs.append(rec)
    loop.close()
    bad, n = tlc.judge("C04_Judge", recs, "c04", chunk=400, jobs=12, heap="1500m", cfg=jcfg)
    for idx, why in bad:
        r_ = recs[idx]
        sig = {"kind": r_["kind"], "clause": why}
        if r_["kind"] in ("wc_set", "wc_sched") and why == "claimed-by-exactly-its-verb":
            sig["verb"] = "SETWC" if r_["kind"] == "wc_set" else "WCREQ"
        ctx.violation(sig, {"fields": r_["f"], "bytes": bytes(r_["bytes"]).decode("latin1"),
                            "frame": r_["frame"], "inner_claims": r_["inner_claims"], "dec": r_["dec"],
                            "dec_err": r_["dec_err"], "sim": r_.get("sim"), "sim_rf": r_.get("sim_rf")})
    ev.cov["evaluations"] = n
    ev.cov["traces_validated_against_impl"] = n - len(bad)
    ev.cov["distinct_nontrivial"] = len({(r_["kind"], str(r_["f"])) for r_ in recs})
    ev.cov["rule"] = "distinct (message kind, field values) tuples; boundary values of every field plus seeded random ones, payloads incl. tag text"
    ev.cov["kinds"] = len({r_["kind"] for r_ in recs})
    for i in (3, len(recs) // 2, len(recs) - 1):
        ev.sample({"kind": recs[i]["kind"], "f": recs[i]["f"], "bytes": bytes(recs[i]["bytes"]).decode("latin1")[:120]})
    ev.assumptions += [
        "identifiers (source/destination) contain no tag text; payloads are arbitrary",
        "reminder types are generated within the enum (0..6); other values are ignored by the handler by design",
    ]
