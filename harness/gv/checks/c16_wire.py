"""C16 wire half: the sequenced datagrams a real client puts on the wire, in wire order,
form a single-thread history of the counter pair (SPACK draws from the command counter,
every other sequenced verb from the protocol counter)."""
import asyncio
import contextlib
import io

from .. import env, tlc
from ..vloop import World
from ..simnet import Network, SimPeer
from ..sessions import inner
from ..w2 import W2, MockSock, Descriptor

SEQUENCED = {b"AVERS", b"CURCH", b"SFILE", b"STATU", b"STATQ", b"SPACK", b"GETWC", b"SETWC",
             b"REQRM", b"REQWC", b"UPDTS"}

CFG = """SPECIFICATION TSpec
CONSTANTS NT = 1
          Atomic = TRUE
          MaxCalls = 0
CONSTRAINT Track
POSTCONDITION Report
CHECK_DEADLOCK FALSE
"""


def wire_history(datagrams):
    """datagrams: iterable of bytes as sent by a client.  -> [{"kind","ret","verb"}]"""
    hist = []
    for d in datagrams:
        i = d.find(b"<DATAS>")
        if not d.startswith(b"<PACKT>") or i < 0:
            continue
        content = d[i + 7: d.rfind(b"</DATAS>")]
        verb = content[:5]
        if verb in SEQUENCED and len(content) > 5:
            hist.append({"kind": "C" if verb == b"SPACK" else "P", "ret": content[5],
                         "verb": verb.decode()})
    return hist


class WcPeer(SimPeer):
    """the bundled simulator + an answer to SETWC (which it leaves unanswered, see C04/D13), so that a
    water-care change completes instead of exhausting its retries"""

    def on_datagram(self, data, sender):
        from geckolib.driver import GeckoPacketProtocolHandler
        out = super().on_datagram(data, sender)
        content = inner(data)
        if content is not None and content.startswith(b"SETWC"):
            ph = GeckoPacketProtocolHandler()
            ph.handle(data, sender)
            out.append((GeckoPacketProtocolHandler(content=b"WCSET", parms=ph.parms).send_bytes, (sender[0], sender[1])))
        return out


def async_session(n_cmds, rng, snapshot="/repo/tests/snapshots/default.snapshot"):
    from geckolib import GeckoAsyncSpaMan

    class Man(GeckoAsyncSpaMan):
        def __init__(self):
            super().__init__("uuid", spa_identifier="SPA01:02:03:04:05:06", spa_name="x")

        async def handle_event(self, event, **kw):
            pass

    peer = WcPeer(snapshot)
    net = Network([peer])
    with World(net) as w:
        async def main():
            async with Man() as m:
                for _ in range(400):
                    await asyncio.sleep(0.1)
                    if m.facade is not None:
                        break
                if m.facade is None:
                    raise env.MachineryError("async session: facade did not come up against the simulator")
                f = m.facade
                spa = f.spa
                for i in range(n_cmds):
                    k = rng.randrange(7)
                    if k == 6:
                        # a water-care change is a protocol request (answered by the peer with WCSET)
                        await f.water_care.async_set_mode(rng.randrange(5))
                    elif k == 0:
                        await spa.async_press(rng.choice([1, 2, 16, 21]))
                    elif k == 1 and f.pumps:
                        p = rng.choice(f.pumps)
                        await p.async_set_mode(rng.choice(p.modes))
                    elif k == 2:
                        await f.water_heater.async_set_target_temperature(rng.choice([30, 35.5, 38]))
                    elif k == 3:
                        await spa.async_get_watercare()
                    elif k == 4:
                        await spa.async_get_reminders()
                    else:
                        await spa.struct.get(spa._protocol, spa._get_status_block_handler_func)
            return None
        w.run(main())
        conn = [t for t in w.loop.transports if t.kw.get("allow_broadcast") is None]
        return [wire_history(d for (_, d, _) in t.sent) for t in conn]


def threaded_session(n_cmds, rng, snapshot="/repo/tests/snapshots/default.snapshot"):
    from geckolib.spa import GeckoSpa
    from geckolib.automation.facade import GeckoFacade

    peer = WcPeer(snapshot)
    with W2() as w2:
        spa = GeckoSpa(Descriptor())
        sock = MockSock(w2.clock)
        spa._socket = sock
        with contextlib.redirect_stdout(io.StringIO()):
            facade = GeckoFacade(spa)
            spa.start_connect()
            seen = 0

            def pump(iters):
                nonlocal seen
                for _ in range(iters):
                    w2.advance(0.03)
                    W2.step(spa)
                    while seen < len(sock.wire):
                        _, data, dest = sock.wire[seen]
                        seen += 1
                        for reply, _d in peer.on_datagram(data, ("10.0.0.2", 40001)):
                            sock.inbox.append((reply, peer.addr))

            pump(400)
            if not facade.is_connected:
                raise env.MachineryError("threaded session: handshake did not complete against the simulator")
            for i in range(n_cmds):
                k = rng.randrange(7)
                if k == 6:
                    facade.water_care.set_mode(rng.randrange(5))
                elif k == 0:
                    spa.press(rng.choice([1, 2, 16, 21]))
                elif k == 1 and facade.pumps:
                    p = rng.choice(facade.pumps)
                    p.set_mode(rng.choice(p.modes))
                elif k == 2:
                    facade.water_heater.set_target_temperature(rng.choice([30, 35.5, 38]))
                elif k == 3:
                    facade.water_care.update()
                elif k == 4:
                    facade._reminders.update()
                else:
                    spa.refresh()
                pump(40)
        return [wire_history(d for (_, d, _) in sock.wire)]


def run(ctx):
    ev = ctx.ev
    rng = env.rng("c16wire")
    n = 150 if ctx.quick else 600
    logs = []
    for h in async_session(n, rng):
        logs.append({"client": "async", "thr": [h], "n": len(h)})
    for h in threaded_session(n, rng):
        logs.append({"client": "threaded", "thr": [h], "n": len(h)})
    logs = [l for l in logs if l["n"]]
    verdicts, _ = tlc.validate("SeqCounter_Trace", logs, "c16-wire", CFG, chunk=4, heap="2g")
    distinct = set()
    for lg, v in zip(logs, verdicts):
        for e in lg["thr"][0]:
            distinct.add((lg["client"], e["verb"], e["ret"]))
        if v["accepted"]:
            ev.cov["traces_validated_against_impl"] += 1
        else:
            bad = lg["thr"][0][v["matched"]] if v["matched"] < lg["n"] else None
            ctx.violation(
                {"clause": "wire-sequence", "client": lg["client"], "verb": bad and bad["verb"],
                 "kind": bad and bad["kind"]},
                {"first_unmatched_datagram": bad, "index": v["matched"],
                 "context": lg["thr"][0][max(0, v["matched"] - 5): v["matched"] + 2],
                 "note": "wire history is not a run of the counter pair (SPACK must draw from 192..255, others from 1..191)"})
    ev.cov["evaluations"] += sum(l["n"] for l in logs)
    ev.cov["wire_distinct"] = len(distinct)
    ncmd = sum(1 for l in logs for e in l["thr"][0] if e["kind"] == "C")
    ev.cov["wire_spack_datagrams"] = ncmd
    if ncmd < 70:
        raise env.MachineryError("wire sessions produced too few pack commands to pass the command-counter wrap")
    ev.sample({"wire_history_async_head": logs[0]["thr"][0][:6]})
