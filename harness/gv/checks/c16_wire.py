"""C16 wire half: the sequenced datagrams a real client puts on the wire, in wire order,
form a single-thread history of the counter pair (SPACK draws from the command counter,
every other sequenced verb from the protocol counter)."""
import asyncio
import contextlib
import io

from .. import env, tlc
from ..vloop import World
from ..simnet import Network, SimPeer
from ..sessions import inner
from ..w2 import W2, MockSock, Descriptor

SEQUENCED = {b"AVERS", b"CURCH", b"SFILE", b"STATU", b"STATQ", b"SPACK", b"GETWC", b"SETWC",
             b"REQRM", b"REQWC", b"UPDTS"}

CFG = """SPECIFICATION TSpec
CONSTANTS NT = 1
          Atomic = TRUE
          MaxCalls = 0
CONSTRAINT Track
POSTCONDITION Report
CHECK_DEADLOCK FALSE
"""


def wire_history(datagrams, retransmits=False):
    """datagrams: iterable of bytes as sent by a client.  -> [{"kind","ret","verb"}]
    retransmits: the blocking stack re-sends the SAME request object after a timeout or an out-of-sequence
    final segment: a datagram byte-identical to one of the last 40 is a retransmission, not a new number"""
    hist = []
    recent = []
    for d in datagrams:
        if retransmits:
            if d in recent:
                continue
            recent.append(d)
            del recent[:-40]
        i = d.find(b"<DATAS>")
        if not d.startswith(b"<PACKT>") or i < 0:
            continue
        content = d[i + 7: d.rfind(b"</DATAS>")]
        verb = content[:5]
        if verb in SEQUENCED and len(content) > 5:
            hist.append({"kind": "C" if verb == b"SPACK" else "P", "ret": content[5],
                         "verb": verb.decode()})
    return hist


class WcPeer(SimPeer):
    """the bundled simulator + an answer to SETWC (which it leaves unanswered, see C04/D13), so that a
    water-care change completes instead of exhausting its retries"""

    def on_datagram(self, data, sender):
        from geckolib.driver import GeckoPacketProtocolHandler
        out = super().on_datagram(data, sender)
        content = inner(data)
        if content is not None and content.startswith(b"SETWC"):
            ph = GeckoPacketProtocolHandler()
            ph.handle(data, sender)
            out.append((GeckoPacketProtocolHandler(content=b"WCSET", parms=ph.parms).send_bytes, (sender[0], sender[1])))
        return out


def async_session(n_cmds, rng, snapshot="/repo/tests/snapshots/default.snapshot", lossy=False, early_push=None):
    """early_push: delay after the creation of the connection's endpoint at which the spa reports a change (it still has
    the client on its list from an earlier connection): the acknowledgement is then the first numbered datagram"""
    from geckolib import GeckoAsyncSpaMan

    class Man(GeckoAsyncSpaMan):
        def __init__(self):
            super().__init__("uuid", spa_identifier="SPA01:02:03:04:05:06", spa_name="x")

        async def handle_event(self, event, **kw):
            pass

    peer = WcPeer(snapshot)
    net = Network([peer])
    if lossy:
        # some answers to commands and queries are lost once the connection is up: every retry of the engine
        # draws a new number, and the other cycle must not be disturbed by it
        lrng = env.rng(f"c16-loss-{rng.random()}")
        state = {"on": False}

        def s2c(data, now, n):
            c = inner(data) or b""
            if state["on"] and c[:5] in (b"PACKS", b"WCGET", b"RMREQ", b"WCSET") and lrng.random() < 0.4:
                return []
            return None
        net.s2c = s2c
    with World(net) as w:
        holder = {}

        def on_endpoint(tr, proto):
            m = holder.get("m")
            if early_push is None or tr.kw.get("allow_broadcast") or m is None or m._spa is None or holder.get("done"):
                return
            holder["done"] = True
            spa_ = m._spa
            parms = (tr.local[0], tr.local[1], spa_.client_id, spa_.descriptor.identifier)
            for i in range(3):
                ch = [(300 + 2 * i, bytes([rng.randrange(256), rng.randrange(256)]))]
                peer.sim.structure.replace_status_block_segment(*ch[0])
                net.inject(tr, peer.push_changes(parms, ch), peer.addr, delay=early_push + 0.3 * i)
        w.loop.on_endpoint = on_endpoint

        async def main():
            async with Man() as m:
                holder["m"] = m
                for _ in range(400):
                    await asyncio.sleep(0.1)
                    if m.facade is not None:
                        break
                if m.facade is None:
                    raise env.MachineryError("async session: facade did not come up against the simulator")
                f = m.facade
                spa = f.spa
                if lossy:
                    state["on"] = True
                for i in range(n_cmds):
                    k = rng.randrange(7)
                    if i % 17 == 5:
                        # the operating system reports an error for the endpoint (e.g. an ICMP port-unreachable bounce):
                        # the connection stays, and so does its numbering
                        spa._protocol.error_received(OSError(111, "gv: connection refused (ICMP)"))
                    if k == 6:
                        # a water-care change is a protocol request (answered by the peer with WCSET)
                        await f.water_care.async_set_mode(rng.randrange(5))
                    elif k == 0:
                        await spa.async_press(rng.choice([1, 2, 16, 21]))
                    elif k == 1 and f.pumps:
                        p = rng.choice(f.pumps)
                        await p.async_set_mode(rng.choice(p.modes))
                    elif k == 2:
                        await f.water_heater.async_set_target_temperature(rng.choice([30, 35.5, 38]))
                    elif k == 3:
                        await spa.async_get_watercare()
                    elif k == 4:
                        await spa.async_get_reminders()
                    else:
                        await spa.struct.get(spa._protocol, spa._get_status_block_handler_func)
            return None
        w.run(main())
        conn = [t for t in w.loop.transports if t.kw.get("allow_broadcast") is None]
        return [wire_history(d for (_, d, _) in t.sent) for t in conn]


def reconnecting_spa(n_conn, rng, snapshot="/repo/tests/snapshots/default.snapshot"):
    """ONE GeckoAsyncSpa object that is connected, used, disconnected and connected again (public API; the manager
    happens to build a new object per connection): every connection's datagrams form a run of a FRESH counter pair"""
    from geckolib.async_spa import GeckoAsyncSpa
    from geckolib.async_spa_descriptor import GeckoAsyncSpaDescriptor
    from geckolib.async_tasks import AsyncTasks
    from ..simnet import SIM_ADDR
    peer = WcPeer(snapshot)
    net = Network([peer])
    with World(net) as w:
        async def main():
            async def handler(event, **kw):
                pass
            tm = AsyncTasks()
            await tm.__aenter__()
            try:
                spa = GeckoAsyncSpa(b"IOSgv-reconnecting", GeckoAsyncSpaDescriptor(b"SPA01:02:03:04:05:06", "x", SIM_ADDR), tm, handler)
                for k in range(n_conn):
                    await spa.connect()
                    if not spa.is_connected:
                        raise env.MachineryError("reconnecting spa: handshake did not complete")
                    for _ in range(rng.randrange(1, 5)):
                        await rng.choice([spa.async_get_watercare, spa.async_get_reminders,
                                          lambda: spa.async_press(rng.choice([1, 2, 16]))])()
                    await asyncio.sleep(rng.choice([0.5, 3.0]))
                    await spa.disconnect()
                    await asyncio.sleep(0.5)
            finally:
                await tm.__aexit__(None)
        w.run(main())
        conn = [t for t in w.loop.transports if t.kw.get("allow_broadcast") is None]
        return [wire_history(d for (_, d, _) in t.sent) for t in conn]


def threaded_session(n_cmds, rng, snapshot="/repo/tests/snapshots/default.snapshot"):
    """the blocking client with its ping thread running (cooperatively, virtual time): commands, a period in
    which the spa answers no ping for longer than the not-responding timeout, commands again"""
    from ..sessions import ThreadedSession
    from geckolib.config import GeckoConfig
    with ThreadedSession(peer=WcPeer(snapshot)) as s:
        with contextlib.redirect_stdout(io.StringIO()):
            if not s.wait_connected(600):
                raise env.MachineryError("threaded session: handshake did not complete against the simulator")
            spa, facade = s.spa, s.facade

            def commands(n):
                for i in range(n):
                    k = rng.randrange(7)
                    if k == 6:
                        facade.water_care.set_mode(rng.randrange(5))
                    elif k == 0:
                        spa.press(rng.choice([1, 2, 16, 21]))
                    elif k == 1 and facade.pumps:
                        p = rng.choice(facade.pumps)
                        p.set_mode(rng.choice(p.modes))
                    elif k == 2:
                        facade.water_heater.set_target_temperature(rng.choice([30, 35.5, 38]))
                    elif k == 3:
                        facade.water_care.update()
                    elif k == 4:
                        facade._reminders.update()
                    else:
                        spa.refresh()
                    if rng.random() < 0.4:
                        # the spa reports a change of its own: the acknowledgement draws from the protocol cycle
                        pos = rng.randrange(300, 1000)
                        s.inject(s.peer.push_changes(s.client_parms(), [(pos, bytes([rng.randrange(256), rng.randrange(256)]))]))
                    s.pump(40)

            commands(n_cmds // 2)
            # the spa stops answering pings (everything else still works) for longer than the timeout
            silent = GeckoConfig.PING_DEVICE_NOT_RESPONDING_TIMEOUT_IN_SECONDS + 2 * GeckoConfig.PING_FREQUENCY_IN_SECONDS + 5
            s.drop = lambda data, direction: direction == "c2s" and (inner(data) or b"").startswith(b"APING")
            s.pump(int(silent / 0.05), dt=0.05)          # (the engine thread's own cadence)
            s.drop = None
            s.pump(int((GeckoConfig.PING_FREQUENCY_IN_SECONDS + 5) / 0.05), dt=0.05)
            commands(n_cmds - n_cmds // 2)
            # answers to status requests get lost for a while: the blocking stack re-sends the SAME request (same
            # number) until one gets through, and the requests that follow carry on from that number
            n_statu0 = sum(1 for d in s.wire() if (inner(d) or b"").startswith(b"STATU"))
            for _ in range(3):
                s.drop = lambda data, direction: direction == "s2c" and (inner(data) or b"").startswith(b"STATV")
                spa.refresh()
                s.pump(int(7 / 0.05), dt=0.05)
                s.drop = None
                s.pump(int(6 / 0.05), dt=0.05)
                commands(3)
            n_statu1 = sum(1 for d in s.wire() if (inner(d) or b"").startswith(b"STATU"))
            if n_statu1 - n_statu0 < 6:
                raise env.MachineryError("threaded session: no status request was re-sent while its answers were lost")
        return [wire_history(s.wire(), retransmits=True)]


def run(ctx):
    ev = ctx.ev
    rng = env.rng("c16wire")
    n = 150 if ctx.quick else 600
    logs = []
    for h in async_session(n, rng):
        logs.append({"client": "async", "thr": [h], "n": len(h)})
    for h in async_session(n // 3, rng, lossy=True):
        logs.append({"client": "async", "thr": [h], "n": len(h)})
    for d in (0.001, 0.04, 0.12):
        hs = async_session(6, rng, early_push=d)
        if d == 0.001 and not any(h and h[0]["verb"] == "STATQ" for h in hs):
            raise env.MachineryError("early push: the acknowledgement was not the connection's first numbered datagram")
        for h in hs:
            logs.append({"client": "async", "thr": [h], "n": len(h), "early_push": d})
    hs = reconnecting_spa(3, rng)
    if len(hs) < 3:
        raise env.MachineryError("reconnecting spa: fewer connections than planned")
    for h in hs:
        logs.append({"client": "async", "thr": [h], "n": len(h), "same_spa_object": True})
    for h in threaded_session(n, rng):
        logs.append({"client": "threaded", "thr": [h], "n": len(h)})
    logs = [l for l in logs if l["n"]]
    verdicts, _ = tlc.validate("SeqCounter_Trace", logs, "c16-wire", CFG, chunk=4, heap="2g")
    distinct = set()
    for lg, v in zip(logs, verdicts):
        for e in lg["thr"][0]:
            distinct.add((lg["client"], e["verb"], e["ret"]))
        if v["accepted"]:
            ev.cov["traces_validated_against_impl"] += 1
        else:
            bad = lg["thr"][0][v["matched"]] if v["matched"] < lg["n"] else None
            ctx.violation(
                {"clause": "wire-sequence", "client": lg["client"], "verb": bad and bad["verb"],
                 "kind": bad and bad["kind"]},
                {"first_unmatched_datagram": bad, "index": v["matched"],
                 "context": lg["thr"][0][max(0, v["matched"] - 5): v["matched"] + 2],
                 "note": "wire history is not a run of the counter pair (SPACK must draw from 192..255, others from 1..191)"})
    ev.cov["evaluations"] += sum(l["n"] for l in logs)
    ev.cov["wire_distinct"] = len(distinct)
    ncmd = sum(1 for l in logs for e in l["thr"][0] if e["kind"] == "C")
    ev.cov["wire_spack_datagrams"] = ncmd
    if ncmd < 70:
        raise env.MachineryError("wire sessions produced too few pack commands to pass the command-counter wrap")
    ev.sample({"wire_history_async_head": logs[0]["thr"][0][:6]})
