"""C19 — snapshot capture/replay round-trip and loadability of shipped snapshots.

Design: spec/SnapshotLog.tla (the parser's line automaton and the writer's line sequence;
SnapshotLog_MC checks that a writer block parses back to exactly its fields under any
surrounding junk, two blocks give two snapshots, segments join in order).
Binding: the abstract behaviours are concretised with real text: the real
GeckoShell.do_snapshot / version_strings logging statements through the shell's log-file
formatter; a real threaded client's DEBUG traffic log of a full connection (various
segment sizes, blocks containing quotes, backslashes, every byte value); every snapshot in
every shipped file loaded into the real simulator and fetched by the real async and
threaded clients.  TLC judges every record (C19_Judge)."""
import contextlib
import glob
import io
import logging
import os

from .. import env, tlc
from ..sessions import AsyncSession, ThreadedSession
from ..simnet import SimPeer

FMT = "%(asctime)s %(name)s %(levelname)s %(message)s"


@contextlib.contextmanager
def capture_log(level=logging.DEBUG):
    """capture what `logfile <name>` of the shell would write"""
    buf = io.StringIO()
    h = logging.StreamHandler(buf)
    h.setLevel(level)
    h.setFormatter(logging.Formatter(FMT))
    root = logging.getLogger()
    old_level, old_disable = root.level, logging.root.manager.disable
    logging.disable(logging.NOTSET)
    root.addHandler(h)
    root.setLevel(level)
    try:
        yield buf
    finally:
        root.removeHandler(h)
        root.setLevel(old_level)
        logging.disable(old_disable)


class _StubSpa:
    pass


_SHELL = {}


def write_snapshot(name, block, pack, confid, rev, rel, en, co, cfgv, logv, pack_type=10):
    from geckolib.utils.shell import GeckoShell
    # ONE shell object lives across all snapshots of a run, as in a shell session that manages one spa
    # after another (constructed without its interactive start-up)
    if "shell" not in _SHELL:
        _SHELL["shell"] = GeckoShell.__new__(GeckoShell)
    spa = _StubSpa()
    spa.struct = _StubSpa()
    spa.struct.status_block = block
    spa.revision = "39.0"
    spa.intouch_version_en = "{0} v{1}.{2}".format(*en)
    spa.intouch_version_co = "{0} v{1}.{2}".format(*co)
    spa.pack = pack
    spa.version = "{0} v{1}.{2}".format(confid, rev, rel)
    spa.config_number = 4
    spa.config_version = cfgv
    spa.log_version = logv
    spa.pack_type = pack_type
    stub = _SHELL["shell"]
    stub.facade = _StubSpa()
    stub.facade.spa = spa
    stub.do_snapshot(name)


def long_session(rng, n_snaps):
    """one shell session that logs through the shell's own `logfile` command and takes `n_snaps` snapshots (more than a
    megabyte of log): every one of them parses back from the file the command was given"""
    from geckolib.utils.shell import GeckoShell
    from geckolib.utils.snapshot import GeckoSnapshot
    path = os.path.join(env.outdir("c19"), "long-session.log")
    for f in glob.glob(path + "*"):
        os.remove(f)
    sh = GeckoShell.__new__(GeckoShell)
    sh.file_logger = None
    root = logging.getLogger()
    old_level, old_disable = root.level, logging.root.manager.disable
    logging.disable(logging.NOTSET)
    expect = []
    try:
        with contextlib.redirect_stdout(io.StringIO()):
            sh.do_logfile(path)
        _SHELL["shell_saved"] = _SHELL.get("shell")
        _SHELL["shell"] = sh
        for i in range(n_snaps):
            block = bytes(rng.randrange(256) for _ in range(1024))
            name = f"session snapshot {i}"
            write_snapshot(name, block, "inYT", 1, 2, 3, (i + 1, 2, 3), (4, 5, 6), 7, 8)
            expect.append((name, block))
    finally:
        if sh.file_logger is not None:
            root.removeHandler(sh.file_logger)
            sh.file_logger.close()
        root.setLevel(old_level)
        logging.disable(old_disable)
        if _SHELL.get("shell_saved") is not None:
            _SHELL["shell"] = _SHELL.pop("shell_saved")
        else:
            _SHELL.pop("shell", None)
            _SHELL.pop("shell_saved", None)
    try:
        snaps = GeckoSnapshot.parse_log_file(path)
        got = {s.name: bytes(s.bytes or b"") for s in snaps}
    except Exception:  # noqa
        got = {}
    ok = sum(1 for (n_, b_) in expect if got.get(n_) == b_)
    size = sum(os.path.getsize(f) for f in glob.glob(path + "*"))
    for f in glob.glob(path + "*"):
        os.remove(f)
    return {"kind": "session", "expected": n_snaps, "parsed_back": ok, "bytes_logged": size}


def snap_rec(s):
    try:
        return {"name": s.name or "", "en": list(s.intouch_EN), "co": list(s.intouch_CO), "pack": s.packtype or "",
                "cfg": s.config_version, "log": s.log_version, "bytes": list(s.bytes)}
    except Exception as e:  # noqa
        return {"name": f"raised:{type(e).__name__}", "en": [], "co": [], "pack": "", "cfg": -1, "log": -1, "bytes": []}


def parse_text(text, tag):
    from geckolib.utils.snapshot import GeckoSnapshot
    d = env.outdir("c19")
    p = os.path.join(d, f"{tag}.log")
    with open(p, "w") as f:
        f.write(text)
    try:
        return [snap_rec(s) for s in GeckoSnapshot.parse_log_file(p)]
    except Exception as e:  # noqa
        return [{"name": f"raised:{type(e).__name__}", "en": [], "co": [], "pack": "", "cfg": -1, "log": -1, "bytes": []}]


def blocks(rng, n):
    out = [bytes(1024), b"\xff" * 1024, bytes(i % 256 for i in range(1024)),
           bytes((i * 7 + 34) % 256 for i in range(1024)), b"\"'\\" * 341 + b"x",
           bytes([34]) * 1024, bytes([39]) * 1024, bytes([92]) * 1024, b"\n\r\t\x00" * 256]
    for r in range(256):
        pass
    for _ in range(n):
        out.append(bytes(rng.randrange(256) for _ in range(1024)))
    # every byte value at every residue of position mod 39 is covered by the shifted ramps
    for sh in range(0, 39, 5):
        out.append(bytes((i + sh) % 256 for i in range(1024)))
    return out


def run(ctx):
    ev = ctx.ev
    rng = env.rng("c19")
    r = tlc.model_check("SnapshotLog_MC", "SnapshotLog_MC.cfg", workers=1, timeout=600, coverage=False)
    ctx.tlc_design("SnapshotLog: writer block parses back under any junk; two blocks; segment join", r)
    recs, meta = [], []
    # ---- 1. writer -> parser ------------------------------------------------------
    junk_info = "2020-12-08 19:53:28,310 geckolib.utils.shell INFO something unrelated\n"
    junk_non = "2020-12-08 19:53:28,311 geckolib.driver DEBUG polling\n"
    names = ["Heating", "Pump 1 and 2 running", "a)b(c", "x", "HeatingTo[100]", "Setpoint [104] reached", "lights [fade]",
             "[abc]", "x [0x41] y", "[1, 2]", "a [] b"]
    bl = blocks(rng, 6 if ctx.quick else 60)
    for i, block in enumerate(bl):
        for pre, term, post, cls in (("", "", "", "-"), (junk_info, junk_non, junk_info, "X|N|X"), (junk_non + junk_info, junk_non, "", "NX|N|")):
            name = names[(3 * i + len(recs)) % len(names)]
            en = (rng.randrange(1, 65536), rng.randrange(256), rng.randrange(256))
            co = (rng.randrange(1, 65536), rng.randrange(256), rng.randrange(256))
            pack = rng.choice(["inXM", "inYT", "inYJ", "MrSteam", "inXE"])
            cfgv, logv = rng.randrange(1, 200), rng.randrange(1, 200)
            with capture_log(logging.INFO) as buf:
                write_snapshot(name, block, pack, rng.randrange(1, 999), rng.randrange(99), rng.randrange(99), en, co, cfgv, logv)
            text = pre + buf.getvalue() + term + post
            written = {"name": name, "en": list(en), "co": list(co), "pack": pack, "cfg": cfgv, "log": logv, "bytes": list(block)}
            recs.append({"kind": "snap", "expect": [written], "parsed": parse_text(text, f"snap{i}"), "lines": cls})
            meta.append(f"writer block {i} {cls}")
    # two snapshots in one file
    with capture_log(logging.INFO) as buf:
        write_snapshot("one", bl[2], "inYT", 1, 2, 3, (1, 2, 3), (4, 5, 6), 7, 8)
        buf.write(junk_non)
        write_snapshot("two", bl[3], "inXM", 1, 2, 3, (9, 2, 3), (4, 5, 9), 9, 10)
    exp = [{"name": "one", "en": [1, 2, 3], "co": [4, 5, 6], "pack": "inYT", "cfg": 7, "log": 8, "bytes": list(bl[2])},
           {"name": "two", "en": [9, 2, 3], "co": [4, 5, 9], "pack": "inXM", "cfg": 9, "log": 10, "bytes": list(bl[3])}]
    recs.append({"kind": "snap", "expect": exp, "parsed": parse_text(buf.getvalue(), "two"), "lines": "B|N|B"})
    meta.append("two blocks")
    recs.append(long_session(rng, 140 if ctx.quick else 400))
    meta.append("long session through the shell's logfile command")
    # ---- 2. traffic log of a connection ------------------------------------------------
    from geckolib.utils.snapshot import GeckoSnapshot
    default = GeckoSnapshot.parse_log_file(os.path.join(env.REPO, "tests", "snapshots", "default.snapshot"))[0]
    segs = [39, 39, 20, 64, 5 + rng.randrange(200)] if ctx.quick else [39, 5, 8, 13, 20, 38, 40, 64, 100, 255] + [5 + rng.randrange(251) for _ in range(10)]   # (>= 5: a chain's segment index is one byte, 1024 / size must stay below 256)
    for si, seg in enumerate(segs):
        base = bytearray(default.bytes)
        # keep the bytes the pack tables need to identify themselves; perturb the rest
        for _ in range(200):
            p = rng.randrange(0, 1024)
            if 290 <= p < 305 or p < 40:
                continue
            base[p] = rng.choice([34, 39, 92, 10, 13, 0, 255, rng.randrange(256)])
        # bracketed text inside one segment (the parser also looks for "[...]" byte lists on every line)
        # ... and the protocol's own tag text (block bytes are arbitrary; the wire decoder takes the LAST closing tag)
        for payload in rng.sample([b"[]", b"[12, 34]", b"['0x41', '0x42']", b"[zz]", b"[ ]", b"[0x]"], 3) + \
                [b"</DATAS>", b"<DATAS>", b"</PACKT>", b"</DATAS></PACKT>"]:
            if len(payload) <= seg:
                k = rng.randrange(2, max(3, 1024 // seg - 1))
                p0 = k * seg + rng.randrange(0, seg - len(payload) + 1)
                if p0 >= 310 and p0 + len(payload) <= 1024:
                    base[p0:p0 + len(payload)] = payload
        peer = SimPeer(snapshot=default, seg=seg)
        peer.sim.structure.set_status_block(bytes(base))
        with capture_log(logging.DEBUG) as buf:
            with ThreadedSession(peer=peer) as s:
                ok = s.wait_connected(3000)
        recs.append({"kind": "conn", "block": list(bytes(base)), "seg": seg, "parsed": parse_text(buf.getvalue(), f"conn{si}"),
                     "cfg": default.config_version, "log": default.log_version, "connected": bool(ok)})
        meta.append(f"traffic log seg={seg}")
    # a log with an abandoned first handshake (some segments of ANOTHER block transferred, then the client starts
    # over) followed by a complete one: the reassembled block is the completed transfer's
    for si in range(1 if ctx.quick else 6):
        first = bytearray(default.bytes)
        second = bytearray(default.bytes)
        for b_ in (first, second):
            for _ in range(200):
                p = rng.randrange(310, 1024)
                b_[p] = rng.randrange(256)
        with capture_log(logging.DEBUG) as buf:
            peer1 = SimPeer(snapshot=default, seg=39)
            peer1.sim.structure.set_status_block(bytes(first))
            with ThreadedSession(peer=peer1) as s1:
                for _ in range(3000):
                    s1.pump(1)
                    if len(getattr(s1.spa.struct, "_status_block_segments", None) or []) >= rng.choice([3, 8, 15]) or s1.facade.is_connected:
                        break
            peer2 = SimPeer(snapshot=default, seg=39)
            peer2.sim.structure.set_status_block(bytes(second))
            with ThreadedSession(peer=peer2) as s2:
                ok = s2.wait_connected(3000)
        recs.append({"kind": "conn", "block": list(bytes(second)), "seg": 39, "parsed": parse_text(buf.getvalue(), f"conn-restart{si}"),
                     "cfg": default.config_version, "log": default.log_version, "connected": bool(ok)})
        meta.append("traffic log with an abandoned first handshake")
    # ---- 3. shipped snapshots -----------------------------------------------------------
    files = sorted(glob.glob(os.path.join(env.REPO, "tests", "snapshots", "*.snapshot")))
    nsnap = 0
    for f in files:
        try:
            snaps = GeckoSnapshot.parse_log_file(f)
        except Exception as e:  # noqa
            recs.append({"kind": "load", "file": os.path.basename(f), "index": 0, "bytes": [], "served": [], "stack": "parse", "connected": False, "lossy": False})
            meta.append(os.path.basename(f))
            continue
        for i, sn in enumerate(snaps):
            nsnap += 1
            for stack, rel in (("async", 1.0), ("sync", 1.0), ("async", 0.93), ("sync", 0.93)):
                served, connected = [], False
                try:
                    with contextlib.redirect_stdout(io.StringIO()):
                        peer = SimPeer(snapshot=sn)
                    peer.sim._reliability = rel
                    import random as _random
                    _random.seed(f"{env.seed()}:{f}:{i}:{stack}")
                    if stack == "async":
                        with AsyncSession(peer=peer) as s:
                            connected = s.wait_connected(120)
                            if s.spa is not None:
                                served = list(s.spa.struct.status_block)
                    else:
                        with ThreadedSession(peer=peer) as s:
                            connected = s.wait_connected(3000)
                            served = list(s.spa.struct.status_block)
                except Exception as e:  # noqa
                    served = []
                recs.append({"kind": "load", "file": os.path.basename(f), "index": i, "bytes": list(sn.bytes),
                             "served": served, "stack": stack, "connected": bool(connected), "lossy": rel < 1.0})
                meta.append(f"{os.path.basename(f)}#{i}/{stack}/reliability={rel}")
    # ... and brought up the scripted way: GeckoSimulator(["load <file>"]) (single-snapshot files)
    for f in files:
        try:
            snaps = GeckoSnapshot.parse_log_file(f)
        except Exception:  # noqa
            continue
        if len(snaps) != 1:
            continue
        for how in ("scripted-load", "scripted-reload"):
            served, connected = [], False
            try:
                with contextlib.redirect_stdout(io.StringIO()):
                    peer = SimPeer(first_commands=[f"load {f}"])
                    if how == "scripted-reload":
                        # a simulator that has been played with (what `set <item>=<value>` or a client's command does
                        # to its block) and is then brought back to the capture by loading the same file again
                        for _ in range(3):
                            p_ = rng.randrange(0, len(snaps[0].bytes))
                            peer.sim.structure.replace_status_block_segment(p_, bytes([snaps[0].bytes[p_] ^ (1 + rng.randrange(255))]))
                        peer.sim.onecmd(f"load {f}")
                with ThreadedSession(peer=peer) as s:
                    connected = s.wait_connected(3000)
                    served = list(s.spa.struct.status_block)
            except Exception:  # noqa
                served = []
            recs.append({"kind": "load", "file": os.path.basename(f), "index": 0, "bytes": list(snaps[0].bytes),
                         "served": served, "stack": "sync", "connected": bool(connected), "lossy": False})
            meta.append(f"{os.path.basename(f)}#0/sync/{how}")
    bad, n = tlc.judge("C19_Judge", recs, "c19", chunk=40, jobs=12, heap="2g")
    for idx, why in bad:
        r_ = recs[idx]
        sig = {"clause": why}
        det = {"where": meta[idx]}
        if r_["kind"] == "conn":
            last = r_["parsed"][-1] if r_["parsed"] else {}
            det.update({"seg": r_["seg"], "parsed_len": len(last.get("bytes", [])), "parsed_name": last.get("name")})
            both = any(b == 34 for b in r_["block"])
            sig["block_has_double_quote"] = both
        elif r_["kind"] == "load":
            sig["file"] = r_["file"]
            sig["stack"] = r_["stack"]
            sig["lossy"] = r_["lossy"]
            det.update({"connected": r_["connected"], "bytes_len": len(r_["bytes"]), "served_len": len(r_["served"])})
        elif r_["kind"] == "session":
            sig["session"] = "long"
            det.update(r_)
        else:
            det.update({"lines": r_["lines"], "parsed": [{k: v for k, v in p.items() if k != "bytes"} for p in r_["parsed"]],
                        "parsed_bytes_len": [len(p["bytes"]) for p in r_["parsed"]]})
        ctx.violation(sig, det)
    ev.cov["evaluations"] = n
    ev.cov["traces_validated_against_impl"] = n - len(bad)
    ev.cov["shipped_files"] = len(files)
    ev.cov["shipped_snapshots"] = nsnap
    ev.cov["distinct_nontrivial"] = len(recs)
    ev.cov["rule"] = "one record per (block, surrounding lines) writer round trip, per traffic log (segment size, perturbed block), per shipped snapshot x client stack"
    ev.sample({"kind": "snap", "where": meta[0], "parsed_fields": {k: v for k, v in recs[0]["parsed"][0].items() if k != "bytes"}})
    ev.sample({"kind": "load", "where": meta[-1], "connected": recs[-1]["connected"]})
    ev.assumptions += ["the shell's log-file format '%(asctime)s %(name)s %(levelname)s %(message)s' is used for all generated text",
                       "traffic logs come from the threaded client's own DEBUG logging of a full handshake against the simulator"]
