"""C18 — pack tables are well-formed, consistent, and published layouts never change.

Design: spec/PackTables.tla (publish-only layout history; editing variant refuted as
negative control; item well-formedness in BitField's vocabulary).  Binding: the complete
extraction of every shipped module through real table/accessor objects is judged by TLC
(C18_Judge): item well-formedness, advertised keys, module naming, the FILES naming round
trip through the real config-file handler, and the immutability step from the layout
pinned at the audited commit (pins/pack_layout.json.gz) to the current one.
"""
import gzip
import json
import os

from .. import env, tlc, packs
from ..layout import extract


class _FilesPeer:
    """a spa that answers the handshake from the bundled simulator but reports the given file naming"""

    def __new__(cls, pname, c, l):
        from ..simnet import SimPeer
        from ..sessions import inner
        from geckolib.driver import GeckoConfigFileProtocolHandler, GeckoPacketProtocolHandler

        class Peer(SimPeer):
            def on_datagram(self, data, sender):
                out = super().on_datagram(data, sender)
                content = inner(data)
                if content is not None and content.startswith(b"SFILE"):
                    ph = GeckoPacketProtocolHandler()
                    ph.handle(data, sender)
                    out = [(d, a) for (d, a) in out if not (inner(d) or b"").startswith(b"FILES")]
                    out.append((GeckoConfigFileProtocolHandler.response(pname, c, l, parms=ph.parms).send_bytes, (sender[0], sender[1])))
                return out
        return Peer(env.REPO + "/tests/snapshots/default.snapshot")


def _decode_statu(h):
    """start / length of a built STATU request, as a peer decodes them from its bytes"""
    from geckolib.driver import GeckoStatusBlockProtocolHandler
    d = GeckoStatusBlockProtocolHandler()
    d.handle(h._content, None)
    return int(d.start), int(d.length)


def refresh_request(m, stack):
    """-> (start, length) of the status-block request the real client builds for its periodic refresh of this
    log table (the client methods are run on a stand-in object that carries the real table)"""
    from geckolib.driver import GeckoStructure
    st = GeckoStructure(None)
    tb = packs.table(m, st)

    class Proto:
        def get_and_increment_sequence_counter(self, command):
            return 7

    class Stub:
        pass
    stub = Stub()
    stub.sendparms = ("10.0.0.1", 10022, b"SPA", b"IOS")
    if stack == "async":
        from geckolib.async_spa import GeckoAsyncSpa
        stub._protocol = Proto()
        stub.log_class = tb
        return _decode_statu(GeckoAsyncSpa._get_status_block_handler_func(stub))
    from geckolib.spa import GeckoSpa
    got = {}

    class Struct:
        def retry_request(self, sock, request, parms):
            got["h"] = request
    stub.new_log_class = tb
    stub.is_connected = True
    stub.struct = Struct()
    stub.get_and_increment_sequence_counter = lambda command: 7
    GeckoSpa.refresh(stub)
    return _decode_statu(got["h"])


def _mod(obj):
    return type(obj).__module__.rsplit(".", 1)[-1] if obj is not None else ""


def loaded_modules(pname, c, l, stack):
    """-> (pack module, config module, log module) the real client loaded after the spa's FILES reply"""
    import contextlib
    import io
    from ..sessions import AsyncSession, ThreadedSession
    peer = _FilesPeer(pname, c, l)
    with contextlib.redirect_stdout(io.StringIO()):
        if stack == "async":
            with AsyncSession(peer=peer) as s:
                for _ in range(60):
                    s.advance(0.25)
                    spa = s.man._spa
                    if spa is not None and (getattr(spa, "log_class", None) is not None or s.man.spa_state.name.startswith("ERROR")):
                        break
                spa = s.man._spa
                if spa is None:
                    return ("", "", "")
                return (_mod(getattr(spa, "pack_class", None)), _mod(getattr(spa, "config_class", None)), _mod(getattr(spa, "log_class", None)))
        with ThreadedSession(peer=peer) as s:
            for _ in range(300):
                try:
                    s.pump(1)
                except Exception:      # the tables of another platform may not fit the simulator's block
                    break
                if s.spa.new_log_class is not None:
                    break
            return (_mod(s.spa.new_pack_class), _mod(s.spa.new_config_class), _mod(s.spa.new_log_class))


def run(ctx):
    ev = ctx.ev
    r = tlc.model_check("PackTables", "PackTables_mc.cfg", workers=2, timeout=120)
    ctx.tlc_design("PackTables: publish-only layout history satisfies Immutable", r)
    r2 = tlc.model_check("PackTables", "PackTables_ctl.cfg", workers=2, timeout=120, tag="PackTables-ctl")
    ev.add_tlc("negative control: edits allowed (must be refuted)", r2)
    if "Immutable" not in r2.violated:
        raise env.MachineryError("negative control not refuted")

    cur = extract()
    with gzip.open(os.path.join(env.VERIF, "pins", "pack_layout.json.gz")) as f:
        pinned = json.load(f)["layout"]
    recs, meta = [], []
    # items
    for key, rec in cur.items():
        if key.endswith(".@table"):
            continue
        recs.append({"kind": "item", "key": key, "pos": rec["pos"], "shape": rec["shape"]})
        meta.append(key)
    # advertised keys
    for key, t in cur.items():
        if not key.endswith(".@table") or t["kind"] == "pack":
            continue
        mod = key[:-7]
        lists = {"output_keys": t.get("output_keys")} if t["kind"] == "cfg" else {
            "user_demand_keys": t.get("user_demand_keys"), "error_keys": t.get("error_keys")}
        for what, keys in lists.items():
            recs.append({"kind": "keys", "table": mod, "what": what, "keys": keys, "tags": t["tags"]})
            meta.append(f"{mod}.@{what}")
    # names
    mods = packs.modules()
    for m in mods:
        t = cur[f"{m['name']}.@table"]
        if m["kind"] == "pack":
            recs.append({"kind": "name", "module": m["name"], "what": "pack",
                         "declared": t["name"].lower(), "expected": m["name"]})
        else:
            recs.append({"kind": "name", "module": m["name"], "what": m["kind"],
                         "declared": t["version"], "expected": m["version"]})
        meta.append(f"{m['name']}.@name")
    # FILES naming round trip through the real handler.  A platform may be REPORTED under another spelling than its
    # tables declare (pinned from the audited tree: a MrSteam generator reports its files as MrSt_C..xml / MrSt_S..xml)
    REPORTED = {"MrSteam": ["MrSt"]}
    from geckolib.driver import GeckoConfigFileProtocolHandler
    combos_named = []
    for plat, c, l in packs.combos():
        declared = cur[f"{plat}.@table"]["name"]
        for pname in [declared] + REPORTED.get(declared, []):
            combos_named.append((plat, c, l, pname))
    for plat, c, l, pname in combos_named:
        h = GeckoConfigFileProtocolHandler.response(pname, c, l, parms=("1.1.1.1", 1, b"a", b"b"))
        content = h._content
        p = GeckoConfigFileProtocolHandler()
        try:
            p.handle(content, None)
            rec = {"kind": "files", "pack": pname, "cfg": c, "log": l, "key": p.plateform_key.lower(),
                   "dcfg": p.config_version, "dlog": p.log_version, "module": plat}
        except Exception as e:  # noqa
            rec = {"kind": "files", "pack": pname, "cfg": c, "log": l, "key": f"raised:{type(e).__name__}",
                   "dcfg": -1, "dlog": -1, "module": plat}
        recs.append(rec)
        meta.append(f"{plat}.@files")
    # the same naming through the real connection code of both clients: a spa that reports
    # <Pack>_C<cfg>.xml / <Pack>_S<log>.xml makes the client load exactly these three modules
    todo = packs.combos()
    if ctx.quick:
        by = {}
        for plat, c, l in todo:
            by.setdefault(plat, []).append((plat, c, l))
        todo = [x for plat in sorted(by) for x in (by[plat][0], by[plat][-1])]
    todo = [(plat, c, l, pname) for (plat, c, l) in todo
            for pname in [cur[f"{plat}.@table"]["name"]] + REPORTED.get(cur[f"{plat}.@table"]["name"], [])]
    for plat, c, l, pname in todo:
        for stack in ("async", "sync"):
            got = loaded_modules(pname, c, l, stack)
            recs.append({"kind": "connect", "stack": stack, "pack": pname, "cfg": c, "log": l, "module": plat,
                         "gpack": got[0], "gcfg": got[1], "glog": got[2]})
            meta.append(f"{plat}.@connect")
    # ... and a spa that reports versions for which no table is shipped (newer firmware, a gap in the series, only one
    # of the two files unknown): no other table is loaded in their place
    by_plat = {}
    for plat, c, l in packs.combos():
        e = by_plat.setdefault(plat, {"c": set(), "l": set()})
        e["c"].add(c)
        e["l"].add(l)
    unknown = []
    for plat in sorted(by_plat):
        cs, ls = by_plat[plat]["c"], by_plat[plat]["l"]
        unknown.append((plat, max(cs) + 1, max(ls) + 1))
        unknown.append((plat, max(cs), max(ls) + 1))
        gaps = [v for v in range(min(cs), max(cs)) if v not in cs]
        if gaps:
            unknown.append((plat, gaps[-1], max(ls)))
    if ctx.quick:
        unknown = unknown[::2] + unknown[1::6]
    for plat, c, l in unknown:
        pname = cur[f"{plat}.@table"]["name"]
        for stack in ("async", "sync"):
            got = loaded_modules(pname, c, l, stack)
            recs.append({"kind": "connect-unknown", "stack": stack, "pack": pname, "cfg": c, "log": l, "module": plat,
                         "cfgshipped": c in by_plat[plat]["c"], "logshipped": l in by_plat[plat]["l"],
                         "gpack": got[0], "gcfg": got[1], "glog": got[2]})
            meta.append(f"{plat}.@connect-unknown")
    # the refresh window of every log table as the real clients request it: the periodic refresh of both clients
    # must cover [begin, end] (end inclusive: items sit on it in three shipped tables)
    for m in [m for m in mods if m["kind"] == "log"]:
        t = cur[f"{m['name']}.@table"]
        for stack in ("async", "sync"):
            try:
                start, length = refresh_request(m, stack)
            except Exception as e:  # noqa
                start, length = -1, -1
            recs.append({"kind": "refresh", "module": m["name"], "stack": stack, "begin": t["begin"], "end": t["end"],
                         "start": start, "len": length})
            meta.append(f"{m['name']}.@refresh")
    # the generator (tests/packgen.py): every shipped table, turned back into the declaration shape the
    # generator reads, is regenerated by the real generator functions and must come out identical
    from ..packgen_rt import RoundTrip
    rt = RoundTrip()
    try:
        for pm in [m for m in mods if m["kind"] == "pack"]:
            cf = [m for m in mods if m["kind"] == "cfg" and m["platform"] == pm["platform"]]
            lg = [m for m in mods if m["kind"] == "log" and m["platform"] == pm["platform"]]
            try:
                out = rt.regenerate(pm, cf, lg)
            except Exception as e:  # noqa
                out = {m["name"]: {"error": f"{type(e).__name__}: {e}"} for m in [pm] + cf + lg}
            for m in [pm] + cf + lg:
                name = m["name"]
                got = out.get(name, {"error": "not generated"})
                diffs = []
                if "error" in got:
                    diffs.append(got["error"][:200])
                else:
                    exp_t = dict(cur[f"{name}.@table"])
                    if "error_keys" in exp_t:
                        exp_t["error_keys"] = sorted(exp_t["error_keys"])
                    for k in exp_t:
                        if got["@table"].get(k) != exp_t[k]:
                            diffs.append(f"@table.{k}")
                    for tag in exp_t.get("tags", []):
                        if got.get(tag) != cur[f"{name}.{tag}"]:
                            diffs.append(tag)
                recs.append({"kind": "gen", "module": name, "ndiff": len(diffs), "diffs": diffs[:8]})
                meta.append(f"{name}.@generator")
    finally:
        rt.close()
    # immutability
    for key, prec in pinned.items():
        recs.append({"kind": "pin", "key": key, "pinned": prec, "current": cur.get(key, "missing")})
        meta.append(key)

    bad, n = tlc.judge("C18_Judge", recs, "c18", chunk=12000, jobs=8, heap="2g", cfg="C18_Judge.cfg")
    for idx, why in bad:
        key = meta[idx]
        r_ = recs[idx]
        det = {"record": {k: v for k, v in r_.items() if k not in ("tags",)}}
        if r_["kind"] == "pin" and isinstance(r_["current"], dict):
            det["changed_fields"] = [k for k in r_["pinned"] if r_["pinned"].get(k) != r_["current"].get(k)]
        if r_["kind"] == "keys":
            det["unresolved"] = [k for k in r_["keys"] if k not in r_["tags"]]
        ctx.violation({"item": key, "clause": why}, det)
    ev.cov["evaluations"] = n
    ev.cov["traces_validated_against_impl"] = n - len(bad)
    ev.cov["modules"] = len(mods)
    ev.cov["items"] = sum(1 for k in cur if not k.endswith(".@table"))
    ev.cov["pinned_keys"] = len(pinned)
    ev.cov["exhaustive"] = True
    ev.cov["distinct_nontrivial"] = n
    ev.cov["rule"] = "one record per item / key list / module name / platform x cfg x log naming / pinned key; all distinct by key"
    for i in (0, len(recs) // 3, len(recs) - 1):
        s = dict(recs[i])
        s.pop("tags", None)
        ev.sample(s)
    ev.assumptions += ["the pinned layout was generated from the audited commit 236b7b1 by tools/gen_pins.py",
                       "platform names are lower-cased by the harness before comparison with module names"]
