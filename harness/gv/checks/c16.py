"""C16 — sequence numbers: requests cycle 1..191, commands 192..255, never 0.

Design model: spec/SeqCounter.tla (complete finite graph).  Binding:
 * spec -> code: a walk over EVERY edge of TLC's state graph on both implementations
   (GeckoAsyncUdpProtocol, GeckoUdpSocket), returned value compared per edge;
 * code -> spec: concurrent call histories of the threaded socket (a) with a second
   thread's call injected at every line of the first thread's call (preemption-point
   enumeration via sys.settrace), (b) free-running threads with a 1 us switch interval;
   TLC searches for a linearisation (SeqCounter_Trace);
 * wire half: every datagram emitted by the real async and threaded clients in scripted
   sessions is decoded and judged by TLC (SeqWire judge): SPACK in 192..255, every other
   sequenced request in 1..191.
"""
import collections
import sys
import threading
import time

from .. import env, tlc

CFG_TRACE = """SPECIFICATION TSpec
CONSTANTS NT = {nt}
          Atomic = TRUE
          MaxCalls = 0
CONSTRAINT Track
POSTCONDITION Report
CHECK_DEADLOCK FALSE
"""


def _walk_edges(nodes, edges, init):
    """Yield walks (lists of (kind, expected_ret)) that together cover every edge."""
    out = collections.defaultdict(list)
    for s, d, lab in edges:
        kind = "P" if lab.startswith("CallP") else "C"
        out[s].append((kind, d))
    untaken = {(s, k) for s in out for k, _ in out[s]}
    start = next(iter(init))
    walks = []
    while untaken:
        cur = start
        walk = []
        progressed = False
        while True:
            cand = [(k, d) for k, d in out[cur] if (cur, k) in untaken]
            if cand:
                k, d = cand[0]
                untaken.discard((cur, k))
                progressed = True
            else:
                # BFS to nearest state with an untaken edge
                prev = {cur: None}
                q = collections.deque([cur])
                goal = None
                while q:
                    x = q.popleft()
                    if any((x, k) in untaken for k, _ in out[x]):
                        goal = x
                        break
                    for k, d in out[x]:
                        if d not in prev:
                            prev[d] = (x, k)
                            q.append(d)
                if goal is None:
                    break
                path = []
                x = goal
                while prev[x] is not None:
                    px, k = prev[x]
                    path.append((k, x))
                    x = px
                for k, d in reversed(path):
                    walk.append((k, _ret(nodes, d, k)))
                cur = goal
                continue
            walk.append((k, _ret(nodes, d, k)))
            cur = d
        walks.append(walk)
        if not progressed:
            raise env.MachineryError("edge walk cannot make progress")
    return walks


def _ret(nodes, d, kind):
    return int(nodes[d]["p"] if kind == "P" else nodes[d]["c"])


def _impls():
    from geckolib.driver import GeckoAsyncUdpProtocol, GeckoUdpSocket

    return {
        "async": lambda: GeckoAsyncUdpProtocol(None, None),
        "threaded": lambda: GeckoUdpSocket(),
    }


def _preempt_histories(n_rounds, rng):
    """Victim thread makes calls; at every line event inside the victim's call an intruder
    thread is released to make one complete call (it may block on the lock; then it
    finishes after the victim).  Returns list of per-thread histories."""
    from geckolib.driver import GeckoUdpSocket
    import geckolib.driver.udp_socket as mod
    import geckolib.spa as spamod
    from ..w2 import Descriptor

    # the socket class itself, and the class the blocking client actually instantiates (a subclass: whatever it
    # overrides is part of the call)
    code_files = {mod.__file__, spamod.__file__}
    logs = []
    # how many line events does one call have?  measure once.
    for kindpair, mk in [(kp, m) for kp in (("P", "P"), ("C", "C"), ("P", "C"), ("C", "P"))
                         for m in (GeckoUdpSocket, lambda: spamod.GeckoSpa(Descriptor()))]:
        for warm in (0, 189, 62, 254):
            sock = mk()
            hist = [[], []]
            for _ in range(warm):
                hist[0].append({"kind": kindpair[0], "ret": sock.get_and_increment_sequence_counter(kindpair[0] == "C")})
                if kindpair[1] != kindpair[0]:
                    hist[0].append({"kind": kindpair[1], "ret": sock.get_and_increment_sequence_counter(kindpair[1] == "C")})
            for point in range(0, 22):
                go = threading.Event()
                done = threading.Event()

                def intruder():
                    go.wait(5)
                    r = sock.get_and_increment_sequence_counter(kindpair[1] == "C")
                    hist[1].append({"kind": kindpair[1], "ret": r})
                    done.set()

                th = threading.Thread(target=intruder, daemon=True)
                th.start()
                count = [0]

                def tracer(frame, event, arg):
                    if frame.f_code.co_filename not in code_files:
                        return None
                    if event == "line":
                        if count[0] == point:
                            go.set()
                            done.wait(0.02)
                        count[0] += 1
                    return tracer

                sys.settrace(tracer)
                try:
                    r = sock.get_and_increment_sequence_counter(kindpair[0] == "C")
                finally:
                    sys.settrace(None)
                hist[0].append({"kind": kindpair[0], "ret": r})
                go.set()
                th.join(5)
                if th.is_alive():
                    raise env.MachineryError("intruder thread stuck")
            logs.append({"thr": hist, "n": len(hist[0]) + len(hist[1]),
                         "scenario": f"preempt {type(sock).__name__} {kindpair} warm={warm}"})
    return logs


class _IdleSock:
    """a socket object on which nothing ever arrives (the engine thread started by open() just idles)"""

    def settimeout(self, t):
        pass

    def recvfrom(self, n):
        import socket as _s
        time.sleep(0.002)
        raise _s.timeout()

    def sendto(self, *a):
        pass

    def close(self):
        pass


def _preempt_open_histories():
    """as _preempt_histories, but the intruder first OPENS the socket (a lifecycle call made from another thread while
    a caller is inside the counter method) and then asks for a number itself"""
    from geckolib.driver import GeckoUdpSocket
    import geckolib.driver.udp_socket as mod
    code_files = {mod.__file__}
    logs = []
    for kindpair in (("P", "P"), ("C", "P")):
        sock = GeckoUdpSocket(socket=_IdleSock())
        hist = [[], []]
        try:
            for point in range(0, 14):
                go = threading.Event()
                done = threading.Event()

                def intruder():
                    go.wait(5)
                    sock.open()
                    r = sock.get_and_increment_sequence_counter(kindpair[1] == "C")
                    hist[1].append({"kind": kindpair[1], "ret": r})
                    done.set()

                th = threading.Thread(target=intruder, daemon=True)
                th.start()
                count = [0]

                def tracer(frame, event, arg):
                    if frame.f_code.co_filename not in code_files or frame.f_code.co_name != "get_and_increment_sequence_counter":
                        return None
                    if event == "line":
                        if count[0] == point:
                            go.set()
                            done.wait(0.05)
                        count[0] += 1
                    return tracer

                sys.settrace(tracer)
                try:
                    r = sock.get_and_increment_sequence_counter(kindpair[0] == "C")
                finally:
                    sys.settrace(None)
                hist[0].append({"kind": kindpair[0], "ret": r})
                go.set()
                th.join(5)
                if th.is_alive():
                    raise env.MachineryError("intruder thread stuck (open during call)")
        finally:
            if sock._exit_event is not None:
                sock._exit_event.set()
            sock._socket = None
        logs.append({"thr": hist, "n": len(hist[0]) + len(hist[1]), "scenario": f"preempt+open {kindpair}"})
    return logs


def _reopen_history(rng):
    """one socket object that is opened, used, closed and opened again: the numbers it hands out in the second
    conversation are still a run of the counter pair (pack commands from the command cycle)"""
    from geckolib.driver import GeckoUdpSocket
    sock = GeckoUdpSocket(socket=_IdleSock())
    hist = []
    try:
        for conv in range(3):
            sock._socket = _IdleSock()          # (close() forgets the OS socket; a real one is not wanted here)
            sock.open()
            for _ in range(rng.randrange(3, 40)):
                k = "C" if rng.random() < 0.4 else "P"
                hist.append({"kind": k, "ret": sock.get_and_increment_sequence_counter(k == "C")})
            sock.close()
    finally:
        if sock._exit_event is not None:
            sock._exit_event.set()
    return {"thr": [hist], "n": len(hist), "scenario": "close and reopen"}


def _stress_histories(nthreads, ncalls, rng, spa=False):
    from geckolib.driver import GeckoUdpSocket
    import geckolib.spa as spamod
    from ..w2 import Descriptor

    old = sys.getswitchinterval()
    sys.setswitchinterval(1e-6)
    try:
        sock = spamod.GeckoSpa(Descriptor()) if spa else GeckoUdpSocket()
        hist = [[] for _ in range(nthreads)]
        plan = [[("C" if rng.random() < 0.3 else "P") for _ in range(ncalls)] for _ in range(nthreads)]
        start = threading.Barrier(nthreads)

        def work(i):
            start.wait()
            h = hist[i]
            for k in plan[i]:
                h.append({"kind": k, "ret": sock.get_and_increment_sequence_counter(k == "C")})

        ths = [threading.Thread(target=work, args=(i,)) for i in range(nthreads)]
        for t in ths:
            t.start()
        for t in ths:
            t.join()
    finally:
        sys.setswitchinterval(old)
    return {"thr": hist, "n": nthreads * ncalls, "scenario": f"stress {nthreads}x{ncalls}"}


def run(ctx):
    ev = ctx.ev
    rng = env.rng("c16")
    # ---- 1. design model ------------------------------------------------------
    r = tlc.model_check("SeqCounter", "SeqCounter_mc.cfg", workers=8, timeout=300)
    ctx.tlc_design("SeqCounter (2 callers, lock atomic), complete graph", r)
    r2 = tlc.model_check("SeqCounter", "SeqCounter_ctl.cfg", workers=2, timeout=120, tag="SeqCounter-ctl")
    ev.add_tlc("negative control: unlocked read/write split (must be refuted)", r2)
    if "NoDuplicate" not in r2.violated:
        raise env.MachineryError("negative control not refuted: the model cannot see lost updates")

    # ---- 2. spec -> code: every edge of the graph ------------------------------
    nodes, edges, init, rg = tlc.dump_graph("SeqCounter", "SeqCounter_graph.cfg", "SeqCounter-graph")
    ev.add_tlc("SeqCounter graph dump (1 caller, VIEW <<p,c>>)", rg)
    walks = _walk_edges(nodes, edges, init)
    n_calls = 0
    for name, mk in _impls().items():
        for wi, walk in enumerate(walks):
            obj = mk()
            for i, (kind, want) in enumerate(walk):
                got = obj.get_and_increment_sequence_counter(kind == "C")
                n_calls += 1
                if got != want:
                    ctx.violation(
                        {"clause": "edge-replay", "impl": name, "kind": kind, "expected": want, "got": got},
                        {"walk_prefix": [k for k, _ in walk[: i + 1]][-300:], "step": i,
                         "note": "replay: fresh object, make these calls (C=command) in order"})
                    break
    ev.cov["edges_replayed"] = len(edges)
    ev.cov["exhaustive"] = True
    ev.cov["evaluations"] += n_calls
    ev.sample({"edge_walk": [list(x) for x in walks[0][:8]], "walks": len(walks), "edges": len(edges)})

    # ---- 3. code -> spec: concurrent histories -------------------------------
    logs = _preempt_histories(0, rng) + _preempt_open_histories() + [_reopen_history(rng)]
    if ctx.quick:
        logs.append(_stress_histories(4, 1500, rng))
        logs.append(_stress_histories(4, 1500, rng, spa=True))
    else:
        logs.append(_stress_histories(8, 5000, rng, spa=True))
        for _ in range(6):
            logs.append(_stress_histories(8, 5000, rng))
    by_nt = collections.defaultdict(list)
    for lg in logs:
        by_nt[len(lg["thr"])].append(lg)
    nacc = 0
    for nt, group in by_nt.items():
        verdicts, st = tlc.validate("SeqCounter_Trace", group, f"c16-nt{nt}", CFG_TRACE.format(nt=nt),
                                    chunk=8, heap="2g")
        for lg, v in zip(group, verdicts):
            if v["accepted"]:
                nacc += 1
            else:
                ctx.violation(
                    {"clause": "linearisable", "impl": "threaded", "scenario": lg["scenario"].split(" warm")[0]},
                    {"scenario": lg["scenario"], "matched_calls": v["matched"], "of": v["len"],
                     "histories_tail": [h[-6:] for h in lg["thr"]]})
    ev.cov["traces_validated_against_impl"] += nacc
    ev.cov["evaluations"] += sum(l["n"] for l in logs)
    ev.sample({"concurrent_history": logs[0]["scenario"], "thread0_tail": logs[0]["thr"][0][-4:],
               "thread1_tail": logs[0]["thr"][1][-4:]})

    # ---- 4. wire half ---------------------------------------------------------
    from . import c16_wire
    c16_wire.run(ctx)

    ev.cov["distinct_nontrivial"] = len(edges) + len(logs) + ev.cov.get("wire_distinct", 0)
    ev.cov["rule"] = ("edge replay: every edge of the TLC graph (distinct by construction); concurrent "
                      "histories: one per preemption point/kind pair/warm-up + stress runs; wire: distinct "
                      "(client, request kind, sequence byte) triples")
    ev.assumptions += [
        "TLC state graph of SeqCounter is the oracle for returned values",
        "real-thread stress is sampling; preemption-point enumeration covers one intruder call per line of the victim call",
    ]
