"""C13 — facade commands emit exactly the intended device write and are idempotent.

Design: spec/C13_Judge.tla (command semantics over BitField.Write; spa model: apply a
set-value word, advance a user demand on a key press, derived output state, echo with a
partial update; SETWC answered with WCSET) and the shared Facade/BitField modules.
Binding: real facade on the real async spa (virtual loop) and the real blocking facade on
the stepped engine, connected to the real simulator extended by a thin apply-and-echo peer
that implements the spa model.  For every snapshot configuration, every device, every current
state (set through the peer) and every argument, the command datagrams decoded by the real
peer handlers, the written item, its prior word and the client's read-back after the echo are
recorded and judged by TLC."""
import asyncio
import contextlib
import glob
import io
import os
import struct as pystruct

from .. import env, tlc, packs
from ..sessions import AsyncSession, ThreadedSession, inner
from ..simnet import SimPeer

STATE_OF = {"OFF": "OFF", "LO": "LOW", "HI": "HIGH", "ON": "ON", "LOW": "LOW", "HIGH": "HIGH"}


class ApplyEchoPeer(SimPeer):
    """the bundled simulator + the spa model of C13"""

    def __init__(self, *a, **kw):
        super().__init__(*a, **kw)
        self.seen = []          # decoded command datagrams
        self.client = None      # parms of the client as the simulator sees it
        self.wc_mode = 1
        self.n_getwc = 0
        self.wcget_delay = 0.0     # the answer to a water-care poll takes this long (it carries the mode at request time)

    def _acc(self):
        return self.sim.structure.accessors

    def _field_write(self, a, raw):
        blk = self.sim.structure.status_block
        w = int.from_bytes(blk[a.pos:a.pos + a.length], "big")
        if a.bitpos is not None:
            w = (w & ~(a.bitmask << a.bitpos)) | ((raw & a.bitmask) << a.bitpos)
        else:
            w = raw
        data = w.to_bytes(a.length, "big")
        self.sim.structure.replace_status_block_segment(a.pos, data)
        return (a.pos, data)

    def _follow(self, devkey, demand_acc):
        """the output state item follows the user demand"""
        from geckolib.const import GeckoConstants as C
        if devkey not in C.DEVICES:
            return []
        skey = C.DEVICES[devkey][2]
        acc = self._acc()
        if skey not in acc or acc[skey] is demand_acc:
            return []
        sacc = acc[skey]
        lab = demand_acc.value
        if sacc.type == "Bool":
            return [self._field_write(sacc, 0 if lab in ("OFF", False) else 1)]
        want = STATE_OF.get(lab, lab)
        if want in sacc.items:
            return [self._field_write(sacc, sacc.items.index(want))]
        on = [i for i, x in enumerate(sacc.items) if x not in ("OFF", "")]
        return [self._field_write(sacc, on[0] if (lab != "OFF" and on) else sacc.items.index("OFF") if "OFF" in sacc.items else 0)]

    def _demand_of(self, devkey):
        acc = self._acc()
        for ud in self.sim.structure.user_demands:
            if f"Ud{devkey}".upper() == ud.upper():
                return acc[ud]
        return None

    def on_datagram(self, data, sender):
        from geckolib.const import GeckoConstants as C
        from geckolib.driver import GeckoPackCommandProtocolHandler, GeckoPartialStatusBlockProtocolHandler, GeckoPacketProtocolHandler
        content = inner(data)
        out = super().on_datagram(data, sender)
        if content is None:
            return out
        ph = GeckoPacketProtocolHandler()
        ph.handle(data, sender)
        parms = ph.parms
        changes = []
        if content.startswith(b"SPACK"):
            h = GeckoPackCommandProtocolHandler()
            h.handle(content, parms)
            rec = {"verb": "SPACK", "sub": "key" if h.is_key_press else "set" if h.is_set_value else "?", "seq": h._sequence,
                   "pack": h.pack_type, "cfg": -1, "log": -1, "pos": -1, "len": -1, "word": -1, "key": -1, "mode": -1}
            if h.is_key_press:
                rec["key"] = h.keycode
                for devkey, props in C.DEVICES.items():
                    if props[1] == h.keycode:
                        d = self._demand_of(devkey)
                        if d is not None:
                            if d.type == "Bool":
                                changes.append(self._field_write(d, 0 if d.value else 1))
                            else:
                                # toggle: OFF <-> the first label that is not OFF
                                offs = [i for i, x in enumerate(d.items) if x == "OFF"]
                                ons = [i for i, x in enumerate(d.items) if x not in ("OFF", "")]
                                cur_off = d.value == "OFF"
                                changes.append(self._field_write(d, (ons[0] if ons else 1) if cur_off else (offs[0] if offs else 0)))
                            changes += self._follow(devkey, d)
            elif h.is_set_value:
                cfgv, logv = pystruct.unpack(">BB", content[9:11])
                rec.update({"cfg": cfgv, "log": logv, "pos": h.position, "len": len(h.new_data),
                            "word": int.from_bytes(h.new_data, "big")})
                self.sim.structure.replace_status_block_segment(h.position, h.new_data)
                changes.append((h.position, h.new_data))
                for devkey in C.DEVICES:
                    d = self._demand_of(devkey)
                    if d is not None and d.pos <= h.position < d.pos + d.length:
                        changes += self._follow(devkey, d)
            self.seen.append(rec)
        elif content.startswith(b"SETWC"):
            seq, mode = pystruct.unpack(">BB", content[5:7])
            self.seen.append({"verb": "SETWC", "sub": "", "seq": seq, "pack": -1, "cfg": -1, "log": -1, "pos": -1, "len": -1,
                              "word": -1, "key": -1, "mode": mode})
            self.wc_mode = mode
            out.append((GeckoPacketProtocolHandler(content=b"WCSET", parms=parms).send_bytes, (sender[0], sender[1])))
        elif content.startswith(b"GETWC"):
            # the spa model remembers the mode it was set to (the bundled simulator always answers 1)
            from geckolib.driver import GeckoWatercareProtocolHandler
            self.n_getwc += 1
            out = [(d, a) for (d, a) in out if not (inner(d) or b"").startswith(b"WCGET")]
            out.append((GeckoWatercareProtocolHandler.response(self.wc_mode, parms=parms).send_bytes, (sender[0], sender[1]),
                        self.wcget_delay))
        for (pos, dat) in changes:
            h2 = GeckoPartialStatusBlockProtocolHandler.report_changes(self.sim._socket, [(pos, dat)], parms=parms)
            out.append((h2.send_bytes, (sender[0], sender[1])))
        return out


def _raw_of(acc):
    return int(acc.raw_value)


def commands_for(facade, rng, quick):
    """-> list of (device, cmd, arg, item accessor, want raw, keypad)"""
    out = []
    spa = facade.spa
    for p in facade.pumps:
        d = spa.accessors[p._user_demand["demand"]]
        for mode in p.modes:
            out.append((p, "set_mode", mode, d, d.items.index(mode), 0))
    # a second pass: every other pump has been left in its last (running) mode by now, so the demand being commanded
    # shares its byte with fields that are not zero
    for p in facade.pumps:
        d = spa.accessors[p._user_demand["demand"]]
        for mode in rng.sample(list(p.modes), len(p.modes)) + [p.modes[-1]]:
            out.append((p, "set_mode", mode, d, d.items.index(mode), 0))
    for sw in list(facade.blowers) + list(facade.lights) + ([facade.eco_mode] if facade.eco_mode is not None else []):
        acc = sw._accessor
        for cmd in ("turn_on", "turn_off", "turn_on", "turn_off", "turn_off"):
            out.append((sw, cmd, None, acc, 1 if cmd == "turn_on" else 0, sw._keypad_button))
    wh = facade.water_heater
    if wh.is_present and "SetpointG" in spa.accessors:
        u = spa.accessors["TempUnits"]
        # every tenth of a degree Fahrenheit / every half degree Celsius of the setpoint range (quick: a
        # stride that still visits every last digit); this also makes one connection carry more
        # commands than the command sequence counter has values
        f_raws = list(range(270, 721, 7 if quick else 1))
        c_raws = [9 * k for k in range(30, 81, 3 if quick else 1)]
        for unit, raws in (("F", f_raws), ("C", c_raws), ("C", []), ("F", [540])):
            out.append((wh, "set_unit", unit, u, u.items.index(unit), 0))
            for raw in raws:
                out.append((wh, "set_temp", raw, spa.accessors["SetpointG"], raw, 0))
    for mode in (0, 3, 4, 2) if quick else range(5):
        out.append((facade.water_care, "set_wc", mode, None, mode, 0))
    return out


def shown(raw, unit):
    return raw / 18.0 if unit == "C" else (raw + 320) / 10.0


def run_async(snapfile, rng, quick, recs, meta):
    peer = ApplyEchoPeer(snapfile)
    with AsyncSession(peer=peer, rank=rng.choice(["stable", "perm", "reverse"]), rank_seed=rng.random()) as s:
        if not s.wait_connected(90, need_update=True):
            return 0
        f = s.facade
        spa = s.spa
        pack = {"type": spa.pack_type, "cfg": spa.config_version, "log": spa.log_version}
        n = 0
        for (dev, cmd, arg, acc, want, keypad) in commands_for(f, rng, quick):
            s.quiesce()
            peer.seen.clear()
            on_before = bool(getattr(dev, "is_on", False)) if cmd in ("turn_on", "turn_off") else False
            existing = int.from_bytes(spa.struct.status_block[acc.pos:acc.pos + acc.length], "big") if acc is not None else 0
            raised = ""
            try:
                if cmd == "set_mode":
                    s.run(dev.async_set_mode(arg))
                elif cmd == "turn_on":
                    s.run(dev.async_turn_on())
                elif cmd == "turn_off":
                    s.run(dev.async_turn_off())
                elif cmd == "set_temp":
                    unit = "C" if spa.accessors["TempUnits"].value == "C" else "F"
                    s.run(dev.async_set_target_temperature(shown(arg, unit)))
                elif cmd == "set_unit":
                    s.run(dev.async_set_temperature_unit(arg))
                elif cmd == "set_wc":
                    s.run(dev.async_set_mode(arg))
            except Exception as e:  # noqa
                raised = type(e).__name__
            s.advance(0.6)
            s.quiesce()
            if cmd == "set_wc":
                after = dev.mode if dev.mode is not None else -1
            elif cmd in ("turn_on", "turn_off"):
                after = 1 if dev.is_on else 0
            else:
                after = _raw_of(acc)
            recs.append({"cmd": cmd, "stack": "async", "on_before": on_before, "keypad": keypad,
                         "item": {"pos": acc.pos, "shape": packs.shape_of(acc)} if acc is not None else {"pos": -1, "shape": {"len": 0}},
                         "existing": existing, "want": want, "pack": pack, "sent": list(peer.seen), "after": after, "raised": raised})
            meta.append((os.path.basename(snapfile), getattr(dev, "key", "?"), cmd, arg))
            n += 1
        # a scene: two keypad-driven devices are switched on back to back through the BLOCKING twins of the awaitable
        # commands (what an automation does), the second before the first exchange has completed: each gets its own command
        sws = [d for d in list(f.lights) + list(f.blowers) if d._keypad_button and not d.is_on]
        if len(sws) >= 2:
            s.quiesce()
            peer.seen.clear()
            a_, b_ = sws[0], sws[1]
            raised_ = [""]

            def scene():                 # (inside the loop: the blocking twins schedule their exchange as tasks)
                try:
                    a_.turn_on()
                    b_.turn_on()
                except Exception as e:  # noqa
                    raised_[0] = type(e).__name__
            s.loop.call_soon(scene)
            s.advance(2.5)
            raised = raised_[0]
            s.quiesce()
            for d_ in (a_, b_):
                acc_ = d_._accessor
                recs.append({"cmd": "turn_on", "stack": "async", "on_before": False, "keypad": d_._keypad_button,
                             "item": {"pos": acc_.pos, "shape": packs.shape_of(acc_)}, "existing": 0, "want": 1, "pack": pack,
                             "sent": [r_ for r_ in peer.seen if r_.get("key") == d_._keypad_button or r_.get("sub") != "key"],
                             "after": 1 if d_.is_on else 0, "raised": raised})
                meta.append((os.path.basename(snapfile), getattr(d_, "key", "?"), "turn_on (scene, blocking twin)", None))
                n += 1
            for d_ in (a_, b_):
                try:
                    s.run(d_.async_turn_off())
                except Exception:  # noqa
                    pass
                s.advance(0.6)
        # a water-care change issued while the facade's own periodic poll (GETWC) is in flight: the command
        # queues behind the poll, whose late answer still carries the old mode
        from geckolib.config import GeckoConfig, set_config_mode
        wc = f.water_care
        for mode in (3, 0):
            s.quiesce()
            peer.seen.clear()
            peer.wcget_delay = 0.6
            n0 = peer.n_getwc
            # the next periodic update cycle of the facade (its own period, in virtual time)
            period = GeckoConfig.FACADE_UPDATE_FREQUENCY_IN_SECONDS
            for _ in range(int((period + 10) / 0.05)):
                s.advance(0.05)
                if peer.n_getwc > n0:
                    break
            if peer.n_getwc == n0:
                raise env.MachineryError("the facade update loop did not poll the water-care mode within its period")
            raised = ""
            try:
                s.run(wc.async_set_mode(mode))
            except Exception as e:  # noqa
                raised = type(e).__name__
            peer.wcget_delay = 0.0
            s.advance(1.5)
            s.quiesce()
            recs.append({"cmd": "set_wc", "stack": "async", "on_before": False, "keypad": 0,
                         "item": {"pos": -1, "shape": {"len": 0}}, "existing": 0, "want": mode, "pack": pack,
                         "sent": list(peer.seen), "after": wc.mode if wc.mode is not None else -1, "raised": raised})
            meta.append((os.path.basename(snapfile), "WATERCARE", "set_wc(during a poll)", mode))
            n += 1
        return n


def run_sync(snapfile, rng, quick, recs, meta):
    peer = ApplyEchoPeer(snapfile)
    with ThreadedSession(peer=peer) as s:
        if not s.wait_connected(3000):
            return 0
        f = s.facade
        spa = s.spa
        pack = {"type": spa.pack_type, "cfg": spa.config_version, "log": spa.log_version}
        n = 0
        for (dev, cmd, arg, acc, want, keypad) in commands_for(f, rng, quick):
            if cmd == "set_wc":
                continue        # the blocking water-care set is fire-and-forget with a local mode update
            s.pump(20)
            peer.seen.clear()
            on_before = bool(getattr(dev, "is_on", False)) if cmd in ("turn_on", "turn_off") else False
            existing = int.from_bytes(spa.struct.status_block[acc.pos:acc.pos + acc.length], "big")
            raised = ""
            try:
                with contextlib.redirect_stdout(io.StringIO()):
                    if cmd == "set_mode":
                        dev.set_mode(arg)
                    elif cmd == "turn_on":
                        dev.turn_on()
                    elif cmd == "turn_off":
                        dev.turn_off()
                    elif cmd == "set_temp":
                        unit = "C" if spa.accessors["TempUnits"].value == "C" else "F"
                        dev.set_target_temperature(shown(arg, unit))
                    elif cmd == "set_unit":
                        dev.set_temperature_unit(arg)
            except Exception as e:  # noqa
                raised = type(e).__name__
            s.pump(40)
            after = (1 if dev.is_on else 0) if cmd in ("turn_on", "turn_off") else _raw_of(acc)
            recs.append({"cmd": cmd, "stack": "sync", "on_before": on_before, "keypad": keypad,
                         "item": {"pos": acc.pos, "shape": packs.shape_of(acc)}, "existing": existing, "want": want, "pack": pack,
                         "sent": list(peer.seen), "after": after, "raised": raised})
            meta.append((os.path.basename(snapfile), getattr(dev, "key", "?"), cmd, arg))
            n += 1
        return n


def run(ctx):
    ev = ctx.ev
    rng = env.rng("c13")
    r = tlc.model_check("BitField_MC", "BitField_MC.cfg", workers=1, timeout=600, envv={"GV_LO": 0, "GV_HI": 255}, coverage=False,
                        heap="1g", tag="BitField-c13")
    ctx.tlc_design("BitField write laws (the word a set-value command must carry), 1-byte word contents exhaustively", r)
    files = sorted(glob.glob(os.path.join(env.REPO, "tests", "snapshots", "*.snapshot")))
    # one snapshot per (platform, config, log) configuration
    from geckolib.utils.snapshot import GeckoSnapshot
    chosen, seen = [], set()
    for f in files:
        try:
            sn = GeckoSnapshot.parse_log_file(f)[0]
            key = (sn.packtype, sn.config_version, sn.log_version)
        except Exception:
            continue
        if key not in seen and len(sn.bytes) == 1024:
            seen.add(key)
            chosen.append(f)
    if ctx.quick:
        chosen = chosen[:4]
    recs, meta = [], []
    for f in chosen:
        with contextlib.redirect_stdout(io.StringIO()):
            run_async(f, rng, ctx.quick, recs, meta)
            run_sync(f, rng, ctx.quick, recs, meta)
    if not recs:
        raise env.MachineryError("no command could be exercised")
    bad, n = tlc.judge("C13_Judge", recs, "c13", chunk=400, jobs=8)
    for idx, why in bad:
        r_ = recs[idx]
        m = meta[idx]
        sig = {"clause": why, "cmd": r_["cmd"], "stack": r_["stack"]}
        if why == "command-raised":
            sig["exc"] = r_["raised"]
            sig["device"] = m[1]
        ctx.violation(sig, {"where": m[0], "device": m[1], "arg": str(m[3]), "record": r_})
    ev.cov["evaluations"] = n
    ev.cov["traces_validated_against_impl"] = n - len(bad)
    ev.cov["configurations"] = len(chosen)
    ev.cov["distinct_nontrivial"] = len({(m, r_["stack"], r_["on_before"], r_["existing"]) for m, r_ in zip(meta, recs)})
    ev.cov["rule"] = "distinct (snapshot configuration, device, command, argument, stack, prior state)"
    ev.sample({"where": meta[0], "record": recs[0]})
    ev.assumptions += ["the spa is modelled by an apply-and-echo peer (set-value applied verbatim, key press advances the user demand, output state follows the demand, SETWC answered with WCSET)",
                       "the blocking water-care set is not judged (fire-and-forget)"]
