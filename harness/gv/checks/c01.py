"""C01 — status-block transfer installs the spa's bytes or nothing, under any faults.

Design model spec/StatusTransfer.tla (async + sync client variants, simulator chain, bag
network with loss/duplication/re-ordering, timeouts).  Binding:
 * spec -> code: TLC emits every transition of the bounded graph; walks through that
   graph (quick: seeded sample, thorough: every transition) are replayed on the real
   structure classes + real simulator chain (N, S, R as in the model) and the projected
   state (client bytes by class, STATU count, result, datagrams in flight) is compared
   after every action;
 * code -> spec: at real scale (1024-byte block, 39-byte segments, configured retries)
   seeded fault scripts are executed and the event logs validated by TLC against
   StatusTransfer_Trace (silent timeouts inferred, design invariants on every state);
 * fault-free success: every (start, len) of the small model by TLC (liveness), and on
   the code for all lengths x boundary starts (quick) at real scale.
"""
import collections
import json
import random

from .. import env, tlc
from ..transfer import AsyncRig, SyncRig, blocks

RIGS = {"async": AsyncRig, "sync": SyncRig}

CFG_TRACE = """SPECIFICATION TSpec
CONSTANTS N = {N}
          S = {S}
          R = {R}
          MaxFaults = 100000
          Variant = "{variant}"
          ChainFixed = {fixed}
          FaultFree = FALSE
CONSTRAINT Track
POSTCONDITION Report
CHECK_DEADLOCK FALSE
"""


def chain_fixed():
    from ..kf import flags
    return "FALSE" if "KF_ChainNeverTerminates" in flags() else "TRUE"


def _cfg(name, variant, **over):
    """materialise a cfg for the design model with the KF flag applied"""
    import os
    base = open(os.path.join(env.SPEC, f"StatusTransfer_{variant}_{name}.cfg")).read()
    base = base.replace("ChainFixed = TRUE", f"ChainFixed = {chain_fixed()}")
    for k, v in over.items():
        import re
        base = re.sub(rf"\b{k} = \S+", f"{k} = {v}", base)
    d = env.outdir("cfg")
    p = os.path.join(d, f"StatusTransfer_{variant}_{name}.cfg")
    with open(p, "w") as f:
        f.write(base)
    return p


# ------------------------------------------------------------------------------------
def _key(st):
    return json.dumps(st, sort_keys=True)


def _load_graph(out):
    edges = collections.defaultdict(list)
    inits = []
    n = 0
    for v in tlc.gv_prints(out):
        if v[0] != "GVT":
            continue
        tr = json.loads(v[1])
        n += 1
        k = _key(tr["from"])
        edges[k].append((tr["act"], tr["to"]))
        f = tr["from"]
        if f["sent"] == 0 and f["pc"] == "send" and f["faults"] == 0 and f["tries"] and not f["net"] and k not in inits:
            inits.append(k)
    return edges, inits, n


def _spec_proj(st):
    net = {}
    for m, c in st["net"]:
        net[tuple(sorted(m.items()))] = c
    return {"cli": st["cli"], "grown": st["grown"], "sent": st["sent"], "result": st["result"], "net": net}


def _apply(rig, act):
    a, m = act["a"], act["m"]
    if a == "ClientSend":
        rig.collect()
    elif a == "SpaServe":
        rig.serve()
    elif a == "Drop":
        rig.drop(m)
    elif a == "Dup":
        rig.dup(m)
    elif a == "Deliver":
        rig.deliver(m)
    elif a == "LateDeliver":
        rig.deliver(m, kind="late")
    elif a == "Timeout":
        rig.timeout()
    else:
        raise env.MachineryError(f"unknown action {a}")
    rig.collect()


def _replay_walk(ctx, variant, N, S, R, walk, init_state):
    """walk: list of (act, to_state).  Returns number of steps compared."""
    rng = random.Random(len(walk))
    spa, old = blocks(N, rng, coded=True)
    req = init_state["req"]
    rig = RIGS[variant](N, S, R, req["start"], req["len"], spa, old)
    steps = 0
    try:
        for i, (act, to) in enumerate(walk):
            if (variant == "sync" and act["a"] == "Deliver" and i + 1 < len(walk) and walk[i + 1][0]["a"] == "Deliver"
                    and rng.random() < 0.5):
                # two datagrams back to back in the socket's buffer: the engine thread meets the second
                # one in its very next iteration (sequential semantics must still hold)
                rig.enqueue(act["m"])
                steps += 1
                continue
            if act["a"] == "ClientSend":
                pass        # the code sends by itself; compared through `sent`
            else:
                _apply(rig, act)
            want = _spec_proj(to)
            got = rig.projection()
            # a pending ClientSend in the spec (pc = "send") has already happened in the code
            if to["pc"] == "send":
                want = dict(want)
                want["sent"] += 1
                u = (("t", "U"),)
                want["net"] = dict(want["net"])
                want["net"][u] = want["net"].get(u, 0) + 1
            steps += 1
            if got != want:
                diff = {k: (want[k], got[k]) for k in want if want[k] != got[k]}
                ctx.violation(
                    {"clause": "replay-mismatch", "variant": variant, "action": act["a"],
                     "field": sorted(diff)[0]},
                    {"req": req, "N": N, "S": S, "R": R, "step": i,
                     "actions": [a for a, _ in walk[: i + 1]],
                     "expected_vs_got": {k: [str(v[0]), str(v[1])] for k, v in diff.items()}})
                break
    finally:
        rig.close()
    return steps


def _walks(edges, inits, rng, n_walks=None, cover_all=False, maxlen=60):
    """Generate walks through the graph from initial states."""
    if not cover_all:
        for _ in range(n_walks):
            k = rng.choice(inits)
            st0 = json.loads(k)
            walk = []
            while edges.get(k) and len(walk) < maxlen:
                act, to = rng.choice(edges[k])
                walk.append((act, to))
                k = _key(to)
            yield st0, walk
        return
    untaken = {(k, i) for k in edges for i in range(len(edges[k]))}
    # shortest path tree from each init
    while untaken:
        progressed = False
        for k0 in inits:
            st0 = json.loads(k0)
            k = k0
            walk = []
            while len(walk) < maxlen:
                cand = [i for i in range(len(edges.get(k, []))) if (k, i) in untaken]
                if cand:
                    i = cand[0]
                    untaken.discard((k, i))
                    progressed = True
                else:
                    # BFS to nearest state with untaken edge
                    prev = {k: None}
                    q = collections.deque([k])
                    goal = None
                    while q:
                        x = q.popleft()
                        if any((x, j) in untaken for j in range(len(edges.get(x, [])))):
                            goal = x
                            break
                        for j, (a, t) in enumerate(edges.get(x, [])):
                            kt = _key(t)
                            if kt not in prev:
                                prev[kt] = (x, j)
                                q.append(kt)
                    if goal is None:
                        break
                    path = []
                    x = goal
                    while prev[x] is not None:
                        px, j = prev[x]
                        path.append((px, j))
                        x = px
                    for px, j in reversed(path):
                        walk.append(edges[px][j])
                    k = goal
                    continue
                act, to = edges[k][i]
                walk.append((act, to))
                k = _key(to)
            if walk:
                yield st0, walk
        if not progressed:
            break


# ------------------------------------------------------------------------------------
def _scenario(variant, N, S, R, start, length, rng, p_drop, p_dup, p_timeout, shuffle, coded=False, tags=False, sim_rel=None):
    spa, old = blocks(N, rng, coded=coded, tags=tags)
    rig = RIGS[variant](N, S, R, start, length, spa, old)
    if sim_rel is not None:
        # the bundled simulator's own unreliable mode (its `reliability` command): it leaves out segments of its
        # answers by itself - which is a loss like any other
        import random as _random
        _random.seed(rng.random())
        rig.peer.sim._reliability = sim_rel
    nfaults = 0
    try:
        guard = 0
        while not rig.done() and guard < 4000:
            guard += 1
            rig.collect()
            if rig.done() or rig.sent > R + 3:
                break       # runaway retransmission: TLC rejects the log at SentBound
            us = [d for d in rig.bag if d["m"]["t"] == "U"]
            vs = [d for d in rig.bag if d["m"]["t"] != "U"]
            r = rng.random()
            if us and (not vs or r < 0.5):
                if rng.random() < p_drop:
                    rig.drop({"t": "U"})
                    nfaults += 1
                else:
                    rig.serve()
                continue
            if vs:
                if shuffle:
                    d = rng.choice(vs)
                else:
                    d = min(vs, key=lambda x: (x["m"].get("idx", 0)))
                x = rng.random()
                if x < p_drop:
                    rig.drop(d["m"])
                    nfaults += 1
                elif x < p_drop + p_dup:
                    rig.dup(d["m"])
                    nfaults += 1
                elif x < p_drop + p_dup + p_timeout:
                    rig.timeout()
                    nfaults += 1
                elif hasattr(rig, "enqueue") and len(vs) >= 2 and rng.random() < 0.35:
                    # two datagrams reach the socket back to back (a duplicate right behind its original
                    # when there is one): the engine thread finds the second in its very next iteration
                    same = [o for o in vs if o is not d and o["m"] == d["m"]]
                    rest = [o for o in vs if o is not d]
                    d2 = same[0] if same else (rng.choice(rest) if shuffle else min(rest, key=lambda x: (x["m"].get("idx", 0))))
                    rig.enqueue(d["m"])
                    rig.deliver(d2["m"])
                else:
                    rig.deliver(d["m"])
                continue
            rig.timeout()
        rig.collect()
        if not rig.done() and rig.sent <= R + 3:
            for _ in range(4):
                rig.timeout()
            rig.collect()
            if not rig.done():
                # every datagram was delivered or lost, every timeout has passed many times over, the request budget
                # is not exceeded - and the transfer has neither succeeded nor failed
                return {"req": {"start": start, "len": length}, "ev": rig.log, "variant": variant, "faults": nfaults,
                        "ok": False, "sent": rig.sent, "never_ends": True}
        if rig.done():
            # stragglers: what is still in flight (duplicates, segments of abandoned attempts) arrives after
            # the transfer has returned - for the blocking stack back to back in the socket's buffer
            late = [d for d in rig.bag if d["m"]["t"] == "V"]
            rng.shuffle(late)
            for j, d in enumerate(late[:4]):
                if hasattr(rig, "enqueue") and j + 1 < len(late[:4]):
                    rig.enqueue(d["m"], kind="late")
                else:
                    rig.deliver(d["m"], kind="late")
            if late:
                rig.collect()
                rig.log.append({"k": "final", "ok": bool(rig.ok()), "cli": rig.classes(), "blen": len(rig.block()), "sent": rig.sent})
        log = {"req": {"start": start, "len": length}, "ev": rig.log, "variant": variant,
               "faults": nfaults, "ok": bool(rig.ok()), "sent": rig.sent}
        return log
    finally:
        rig.close()


def _second_transfer(N, S, R, start, length, rng):
    """a history of two transfers on the same blocking structure: the first receives its first k segments and
    then loses everything until its retries are spent (the client's copy stays untouched); the second runs
    without faults.  -> the log of the SECOND transfer (validated like any single transfer), or None"""
    from ..transfer import SyncRig
    spa, old = blocks(N, rng, coded=False)
    rig = SyncRig(N, S, R, start, length, spa, old)
    try:
        k = rng.choice([1, 2])
        guard = 0
        delivered = 0
        while not rig.done() and guard < 400:
            guard += 1
            rig.collect()
            us = [d for d in rig.bag if d["m"]["t"] == "U"]
            vs = sorted([d for d in rig.bag if d["m"]["t"] != "U"], key=lambda x: x["m"].get("idx", 0))
            if us and delivered == 0:
                rig.serve()
                continue
            if us:
                rig.drop({"t": "U"})
                continue
            if vs:
                if delivered < k and vs[0]["m"].get("idx") == delivered and vs[0]["m"].get("next") != 0:
                    rig.deliver(vs[0]["m"])
                    delivered += 1
                else:
                    rig.drop(vs[0]["m"])
                continue
            rig.timeout()
        for _ in range(3):
            if not rig.done():
                rig.timeout()
        # (whether or not the library has cleaned the spent request away: its retries are used up, it has not
        # succeeded, the client's copy is untouched - the application asks again)
        if rig.ok() or rig.block() != old or rig.sent < 1 + R:
            return None
        rig.restart(start, length)
        guard = 0
        while not rig.done() and guard < 400:
            guard += 1
            rig.collect()
            us = [d for d in rig.bag if d["m"]["t"] == "U"]
            vs = sorted([d for d in rig.bag if d["m"]["t"] != "U"], key=lambda x: x["m"].get("idx", 0))
            if us:
                rig.serve()
            elif vs:
                rig.deliver(vs[0]["m"])
            else:
                rig.timeout()
        rig.collect()
        return {"req": {"start": start, "len": length}, "ev": rig.log, "variant": "sync", "faults": 0,
                "ok": bool(rig.ok()), "sent": rig.sent, "after_failed_transfer": True}
    finally:
        rig.close()


def _repeat_transfer(variant, N, S, R, start, length, rng):
    """a history of two fault-free transfers of the SAME range on one structure, the spa's bytes unchanged, with the
    client's copy of the range changed in between by something that is not a transfer (a partial update that the spa
    took back without reporting, the application re-initialising the structure).  -> the log of the second transfer
    (re-based on what the client held when it started), or None"""
    # (no zero bytes in the spa's block: a re-initialised client copy then differs from it everywhere)
    spa = bytes(rng.randrange(1, 256) for _ in range(N))
    old = bytes((b + 1 + rng.randrange(254)) % 256 or (b % 255) + 1 for b in spa)
    old = bytes(o if o != b else (b % 255) + 1 for o, b in zip(old, spa))
    rig = RIGS[variant](N, S, R, start, length, spa, old)

    def drive():
        guard = 0
        while not rig.done() and guard < 400:
            guard += 1
            rig.collect()
            us = [d for d in rig.bag if d["m"]["t"] == "U"]
            vs = sorted([d for d in rig.bag if d["m"]["t"] != "U"], key=lambda x: x["m"].get("idx", 0))
            if us:
                rig.serve()
            elif vs:
                rig.deliver(vs[0]["m"])
            else:
                rig.timeout()
        rig.collect()
    try:
        drive()
        if not rig.ok() or rig.block()[start:start + length] != spa[start:start + length]:
            return None           # (a first transfer that fails fault-free is reported by the ordinary scenarios)
        how = rng.choice(["patch", "reinit", "reset"])
        st = rig.struct
        if how == "patch":
            for _ in range(rng.choice([1, 3])):
                p_ = rng.randrange(start, start + length)
                st.replace_status_block_segment(p_, bytes([(spa[p_] + 1 + rng.randrange(255)) % 256]))
        elif how == "reinit" or not hasattr(st, "reset"):
            st.set_status_block(old)
        else:
            st.reset()
        now = bytes(st.status_block)
        if len(now) != N or now[start:start + length] == spa[start:start + length]:
            return None
        rig.old_block = now
        rig.restart(start, length, after_success=True)
        drive()
        return {"req": {"start": start, "len": length}, "ev": rig.log, "variant": variant, "faults": 0,
                "ok": bool(rig.ok()), "sent": rig.sent, "after_successful_transfer": how}
    finally:
        rig.close()


def overlap_witness(rng):
    """OverlapRefresh.tla's counterexample on the real blocking structure and socket: two refresh requests
    (different ranges) in flight at once, the first segment of A's answer, then the final segment of B's.
    Outside C01's quantifier (overlapping transfers); the outcome is evidence, not a verdict."""
    from ..transfer import SyncRig, SIM_ADDR
    from geckolib.driver import GeckoStatusBlockProtocolHandler
    N, S = 1024, 39
    spa, old = blocks(N, rng, coded=False)
    rig = SyncRig(N, S, 2, 100, 60, spa, old)          # request A: (100, 60)
    try:
        rig.collect()
        req_b = GeckoStatusBlockProtocolHandler.request(rig.sock.get_and_increment_sequence_counter(False), 500, 60, parms=rig.parms)
        rig.struct.retry_request(rig.sock, req_b, rig.parms)        # request B: (500, 60), A still in flight
        rig.iterate(3)
        rig.collect()
        us = [d for d in rig.bag if d["m"]["t"] == "U"]
        for _ in us:
            rig.serve()
        segs = [d for d in rig.bag if d["m"]["t"] == "V"]
        a0 = next((d for d in segs if d["m"].get("off") == 100 and d["m"].get("idx") == 0), None)
        b1 = next((d for d in segs if d["m"].get("off") == 539 and d["m"].get("next") == 0), None)
        if a0 is None or b1 is None:
            return {"reproduced": None, "note": f"segments not found: {[d['m'] for d in segs]}"}
        rig.deliver(a0["m"])
        rig.deliver(b1["m"])
        blk = rig.block()
        wrong = [p for p in range(min(len(blk), N)) if blk[p] not in (spa[p], old[p])]
        return {"reproduced": bool(wrong) or len(blk) != N, "block_len": len(blk), "bytes_that_are_neither_old_nor_the_spas": len(wrong),
                "first_wrong_offset": wrong[0] if wrong else -1}
    finally:
        rig.close()


def run(ctx):
    ev = ctx.ev
    rng = env.rng("c01")
    quick = ctx.quick
    fixed = chain_fixed()

    # ---- 0. outside the quantifier: overlapping refresh requests of the blocking client (observation) ----
    ro = tlc.model_check("OverlapRefresh", "OverlapRefresh.cfg", workers=2, timeout=120, tag="Overlap", coverage=False)
    ev.add_tlc("OverlapRefresh: two refresh requests of the blocking client in flight at once (refuted: observation outside C01's quantifier)", ro)
    if "InstallIsOneChain" not in ro.violated:
        raise env.MachineryError("OverlapRefresh: the mixed install was not found")
    try:
        ev.cov["overlapping_refresh_witness_on_real_code"] = overlap_witness(rng)
    except Exception as e:  # noqa
        ev.cov["overlapping_refresh_witness_on_real_code"] = {"reproduced": None, "note": f"{type(e).__name__}: {e}"}
    # ---- 1. design models -----------------------------------------------------
    over = {} if quick else {"N": 9, "R": 3, "MaxFaults": 3}
    for variant in ("async", "sync"):
        r = tlc.model_check("StatusTransfer", _cfg("q", variant, **over), timeout=1500,
                            tag=f"ST-{variant}-safety")
        ctx.tlc_design(f"StatusTransfer {variant} safety (all 28+ ranges, faults, re-ordering, timeouts)", r)
        r = tlc.model_check("StatusTransfer", _cfg("live", variant), workers=4, timeout=600,
                            tag=f"ST-{variant}-live")
        if fixed == "TRUE":
            ctx.tlc_design(f"StatusTransfer {variant} fault-free success for every (start,len)", r)
        else:
            ev.add_tlc(f"StatusTransfer {variant} fault-free success, chain as pinned (known finding)", r)
            if "NeverFails" not in r.violated:
                raise env.MachineryError("KF_ChainNeverTerminates is listed but the model does not refute success")

    # ---- 2. spec -> code: replay of TLC transitions ---------------------------------
    from geckolib.config import GeckoConfig
    total_steps = 0
    for variant in ("async", "sync"):
        r = tlc.model_check("StatusTransfer", _cfg("emit", variant), workers=1, timeout=900,
                            tag=f"ST-{variant}-emit", coverage=False)
        tlc.require_ok(r, "emit")
        edges, inits, ntrans = _load_graph(r.out)
        ev.add_tlc(f"StatusTransfer {variant} transition emitter ({ntrans} transitions)", r)
        if not inits or ntrans < 1000:
            raise env.MachineryError("transition emitter produced no graph")
        nw = 0
        if quick:
            gen = _walks(edges, inits, rng, n_walks=150)
        else:
            gen = _walks(edges, inits, rng, cover_all=True)
        for st0, walk in gen:
            total_steps += _replay_walk(ctx, variant, 7, 3, 2, walk, st0)
            nw += 1
            if nw == 1:
                ev.sample({"replayed_walk": variant, "req": st0["req"], "actions": [a["a"] for a, _ in walk][:25]})
        ev.cov[f"walks_replayed_{variant}"] = nw
    ev.cov["replay_steps_compared"] = total_steps

    # ---- 3. code -> spec at real scale ------------------------------------------------
    N, S = 1024, 39
    R = GeckoConfig.PROTOCOL_RETRY_COUNT
    logs = []
    n_sc = 60 if quick else 600
    for variant in ("async", "sync"):
        for i in range(n_sc):
            r_ = rng.choice([1, 2, 3, R])
            if rng.random() < 0.3:
                start, length = 0, 1024
            else:
                length = rng.choice([1, 38, 39, 40, 77, 78, 79, 117, 224, rng.randrange(1, 400)])
                start = rng.randrange(0, N - length + 1)
            if fixed == "FALSE" and length % S == 0:
                length += 1
                if start + length > N:
                    start -= 1
            lg = _scenario(variant, N, S, r_, start, length, rng,
                           p_drop=rng.choice([0, 0.02, 0.1, 0.3]), p_dup=rng.choice([0, 0.05, 0.3]),
                           p_timeout=rng.choice([0, 0, 0.01]), shuffle=rng.random() < 0.6)
            lg["R"] = r_
            logs.append(lg)
    # the simulator in its own unreliable mode, a perfect wire otherwise
    for variant in ("async", "sync"):
        for k in range(12 if quick else 150):
            length = rng.choice([N, 400, 200, 117])
            start = rng.randrange(0, N - length + 1)
            lg = _scenario(variant, N, S, 3, start, length, rng, 0, 0, 0, False, sim_rel=rng.choice([0.7, 0.85, 0.93]))
            lg["R"] = 3
            lg["sim_unreliable"] = True
            logs.append(lg)
    # fault-free, in order: every length class x boundary starts must succeed
    ff = []
    lens = list(range(1, 121)) if quick else list(range(1, 1025))
    for variant in ("async", "sync"):
        for length in lens:
            for start in sorted({0, 1, N - length, max(0, N - length - 1), (N - length) // 2}):
                if start + length > N or start < 0:
                    continue
                if quick and length > 45 and start not in (0, N - length):
                    continue
                lg = _scenario(variant, N, S, 2, start, length, rng, 0, 0, 0, False)
                lg["R"] = 2
                lg["faultfree"] = True
                ff.append(lg)
                if not lg["ok"]:
                    sig = {"clause": "fault-free-success", "variant": variant,
                           "len_mod_S": length % S == 0}
                    ctx.violation(sig, {"start": start, "len": length, "N": N, "S": S,
                                        "note": "in-order, loss-free transfer against the bundled simulator failed"})
    # ... and blocks that contain the protocol's own tag text (every content is a legal block)
    for variant in ("async", "sync"):
        for k in range(10 if quick else 200):
            length = rng.choice([N, N, 400, 117, 80])
            start = rng.randrange(0, N - length + 1)
            lg = _scenario(variant, N, S, 2, start, length, rng, 0, 0, 0, False, tags=True)
            lg["R"] = 2
            lg["faultfree"] = True
            ff.append(lg)
            if not lg["ok"]:
                ctx.violation({"clause": "fault-free-success", "variant": variant, "block": "contains-protocol-tag-text"},
                              {"start": start, "len": length})
    logs += ff
    # histories: a fault-free transfer that follows a FAILED one on the same blocking structure
    for _ in range(8 if quick else 80):
        length = rng.choice([80, 117, 200, 400])
        lg = _second_transfer(N, S, 2, rng.randrange(0, N - length), length, rng)
        if lg is not None:
            lg["R"] = 2
            lg["faultfree"] = True
            logs.append(lg)
            if not lg["ok"]:
                ctx.violation({"clause": "fault-free-success", "variant": "sync", "after_failed_transfer": True},
                              {"start": lg["req"]["start"], "len": lg["req"]["len"]})
    # ... and a fault-free transfer that follows a SUCCESSFUL one of the same range, the client's copy changed in between
    n_rep = 0
    for i in range(12 if quick else 120):
        length = rng.choice([39, 80, 117, 200])
        variant = ("async", "sync")[i % 2]
        lg = _repeat_transfer(variant, N, S, 2, rng.randrange(0, N - length), length, rng)
        if lg is not None:
            n_rep += 1
            lg["R"] = 2
            lg["faultfree"] = True
            logs.append(lg)
            if not lg["ok"]:
                ctx.violation({"clause": "fault-free-success", "variant": variant, "after_successful_transfer": True},
                              {"start": lg["req"]["start"], "len": lg["req"]["len"], "how": lg["after_successful_transfer"]})
    ev.cov["repeated_transfer_histories"] = n_rep
    for lg in logs:
        if lg.get("never_ends"):
            ctx.violation({"clause": "transfer-neither-succeeds-nor-fails", "variant": lg["variant"]},
                          {"req": lg["req"], "sent": lg["sent"], "R": lg["R"], "tail": lg["ev"][-8:]})
    logs = [lg for lg in logs if not lg.get("never_ends")]
    groups = collections.defaultdict(list)
    for lg in logs:
        groups[(lg["variant"], lg["R"])].append(lg)
    nacc = 0
    nontrivial = set()
    for (variant, r_), group in groups.items():
        verdicts, _ = tlc.validate("StatusTransfer_Trace", group, f"c01-{variant}-{r_}",
                                   CFG_TRACE.format(N=N, S=S, R=r_, variant=variant, fixed=fixed),
                                   chunk=40, heap="2g", jobs=12)
        for lg, v in zip(group, verdicts):
            if lg["faults"]:
                nontrivial.add((variant, r_, tuple(e["k"] + str(e.get("m", {}).get("idx", "")) for e in lg["ev"])))
            if v["accepted"]:
                nacc += 1
            else:
                k = v["matched"]
                evs = lg["ev"]
                ctx.violation(
                    {"clause": "trace-rejected", "variant": variant,
                     "why": (v["why"] or ["no spec step matches event"])[0],
                     "event": evs[k]["k"] if k < len(evs) else "end"},
                    {"req": lg["req"], "R": r_, "matched": k, "of": len(evs),
                     "next_events": evs[max(0, k - 3): k + 3], "ok": lg["ok"], "sent": lg["sent"]})
    if not n_rep and not ctx.new:
        raise env.MachineryError("C01: no repeated-transfer history could be run")
    ev.cov["traces_validated_against_impl"] += nacc
    ev.cov["evaluations"] += len(logs) + total_steps
    ev.cov["distinct_nontrivial"] = len(nontrivial) + sum(ev.cov.get(f"walks_replayed_{v}", 0) for v in ("async", "sync"))
    ev.cov["rule"] = ("real-scale scenarios with >=1 fault, distinct by their full event sequence; plus replayed "
                      "TLC walks (distinct by construction when covering; sampled otherwise)")
    ev.cov["real_scale_outcomes"] = {"ok": sum(1 for l in logs if l["ok"]), "fail": sum(1 for l in logs if not l["ok"])}
    if logs:
        lg = next((l for l in logs if l["faults"] and not l.get("faultfree")), logs[0])
        ev.sample({"real_scale_trace": lg["variant"], "req": lg["req"], "R": lg["R"], "ok": lg["ok"],
                   "events_head": lg["ev"][:12]})
    ev.assumptions += [
        "fault-free success is decided at the level of the transfer (segments enter the receive queue in order); the queue's Unhandled/Packet race is C07's subject",
        "async: <= R STATU datagrams; sync: 1 + R (one transmission plus R retransmissions)",
        "repeated transfers on the blocking structure: its sticky had_at_least_one_block flag is cleared by the harness before the second transfer so that it reports on that transfer",
        "the packet un-framing step is done with the real GeckoPacketProtocolHandler, outside the client's consumer task",
    ]
