"""C17 — active/idle configuration switching is complete and wakes every sleeper.

Design: spec/ConfigMode.tla (shared future as generations; all interleavings of 3
sleepers, 3 switches, delays <= 3 ticks; always-renew variant refuted as control).
Binding: real config_sleep / set_config_mode on the virtual loop with 1..20 concurrent
sleeper tasks, seeded delays / switch times / cancellations / wake orders; logs validated
by TLC (ConfigMode_Trace).  Facade half: real facade on real table pairs, every on/off
combination of pumps and blowers written into the block; judged by TLC (C17_Judge)."""
import asyncio
import itertools

from .. import env, tlc, packs
from ..vloop import World
from .c14 import pairs, build, _StubSpa, _set_field

CFG = """SPECIFICATION TSpec
CONSTANTS Sleepers = {{{sl}}}
          Members = {{"all"}}
          MaxDelay = 1
          MaxTime = 1
          MaxSwitches = 100000
          Renew = "code"
CONSTRAINT Track
POSTCONDITION Report
CHECK_DEADLOCK FALSE
"""


def _ms(t):
    return int(round(t * 1000))


def _tables():
    import geckolib.config as cfg
    members = [a for a in dir(cfg._GeckoConfig) if not callable(getattr(cfg._GeckoConfig, a)) and not a.startswith("__")]
    act, idl = cfg._GeckoActiveConfig(), cfg._GeckoIdleConfig()
    return members, {m: getattr(act, m) for m in members}, {m: getattr(idl, m) for m in members}, \
        all(m in vars(cfg._GeckoActiveConfig) for m in members), all(m in vars(cfg._GeckoIdleConfig) for m in members)


def scenario(rng, n_sleepers, horizon):
    import geckolib.config as cfg
    members, act, idl, own_a, own_i = _tables()
    ev = []
    with World(rank=rng.choice(["stable", "reverse", "perm", "seeded"]), rng=rng.random()) as w:
        loop = w.loop

        async def sleeper(i):
            name = f"s{i}"
            await asyncio.sleep(rng.choice([0, 0, 0.05, 0.3, rng.randrange(0, 50) / 10]))
            while loop.time() < horizon:
                d = rng.choice([0.1, 0.5, 1, 2, 5, 30, 60, 120, rng.randrange(1, 400) / 10, 0, 0.0, 0.001])
                ev.append({"k": "sleep", "s": name, "d": _ms(d), "t": _ms(loop.time())})
                try:
                    await cfg.config_sleep(d)
                except asyncio.CancelledError:
                    ev.append({"k": "cancel", "s": name, "t": _ms(loop.time())})
                    raise
                ev.append({"k": "wake", "s": name, "t": _ms(loop.time())})
                if d < 0.01:
                    await asyncio.sleep(0.2)          # (a zero delay is legal; do not spin on it)
                if rng.random() < 0.3:
                    await asyncio.sleep(rng.choice([0.05, 0.2, 1.0]))

        async def main():
            tasks = [loop.create_task(sleeper(i), name=f"GV:s{i}") for i in range(1, n_sleepers + 1)]
            t = 0.0
            while True:
                t += rng.choice([0.05, 0.4, 1.7, 2.0, 7.3, 20, 61])
                if t >= horizon:
                    break
                await asyncio.sleep(max(0, t - loop.time()))
                if rng.random() < 0.2:
                    victim = rng.choice(tasks)
                    if not victim.done():
                        victim.cancel()
                        await asyncio.sleep(0)
                    continue
                if cfg.ConfigChange is None:
                    continue
                mode = rng.choice(["active", "idle"])
                if rng.random() < 0.25:
                    # whatever the settings held before (an application that tuned one of them, another component):
                    # a switch installs the COMPLETE table
                    for m_ in rng.sample(members, rng.randrange(1, len(members) + 1)):
                        setattr(cfg.GeckoConfig, m_, 12345)      # (not a value that makes a loop spin)
                cfg.set_config_mode(mode == "active")
                ev.append({"k": "switch", "mode": mode, "t": _ms(loop.time()),
                           "table": {m: getattr(cfg.GeckoConfig, m) for m in members},
                           "target": act if mode == "active" else idl,
                           "complete": own_a if mode == "active" else own_i})
            await asyncio.sleep(max(0, horizon - loop.time()))
            ev.append({"k": "end", "t": _ms(loop.time())})
            for tk in tasks:
                tk.cancel()
            await asyncio.gather(*tasks, return_exceptions=True)

        w.run(main())
    # events were appended in execution order; the trailing cancels after "end" are dropped
    cut = next(i for i, e in enumerate(ev) if e["k"] == "end")
    return {"ev": ev[:cut + 1], "n": n_sleepers}


def facade_records(rng, quick):
    """every on/off combination of pumps and blowers -> resulting configuration mode"""
    import geckolib.config as cfg
    from geckolib.automation.async_facade import GeckoAsyncFacade
    from geckolib.async_tasks import AsyncTasks
    members, act, idl, _, _ = _tables()
    recs, meta = [], []
    ps = pairs()
    by_plat = {}
    for plat, c, l in ps:
        by_plat.setdefault(plat, []).append((c, l))
    sel = []
    for plat, lst in sorted(by_plat.items()):
        sel += [lst[0], lst[-1]] if quick else lst[:: max(1, len(lst) // 12)]
    for c, l in sel:
        with World() as w:
            async def one():
                st, cap = build(c, l, True)
                spa = _StubSpa(st)
                spa.is_responding_to_pings = False
                tm = AsyncTasks()
                await tm.__aenter__()
                await asyncio.sleep(0.01)        # let the tidy task reach its config_sleep
                try:
                    st.set_status_block(bytes(1024))
                    outs = [k for k in st.all_outputs]
                    # wire every device the table knows to some output so that the facade has them
                    devs = []
                    for k in outs:
                        a = st.accessors[k]
                        labs = [x for x in (a.items or []) if x and x != "NA"]
                        if labs and a.bitpos is None:
                            _set_field(st, a, a.items.index(rng.choice(labs)))
                    try:
                        facade = GeckoAsyncFacade(spa, tm)
                    except Exception:
                        return
                    cands = facade.pumps + facade.blowers
                    if not cands:
                        return
                    # the other user devices (lights) are switched too: they must not count
                    n_pb = len(cands)
                    others = [d for d in facade.lights if hasattr(d, "_state_sensor")]
                    cands = cands + others
                    state_accs = [d._state_sensor.accessor for d in cands]
                    combos = list(itertools.product([0, 1], repeat=len(cands)))
                    if len(combos) > 32:
                        combos = rng.sample(combos, 32) + [tuple([0] * len(cands)), tuple([1] * len(cands))]
                    if others:
                        combos.append(tuple([0] * n_pb + [1] * len(others)))
                    facades = [facade]
                    facade._on_config_device_change()      # (what the first cycle of the facade's update task does)
                    # history: after the sweep, everything on (active), the facade is torn down, the
                    # devices stop while disconnected, a new facade is built (a reconnect): idle again
                    combos = list(combos) + [tuple([1] * len(cands)), "reconnect", tuple([0] * len(cands))]
                    for combo in combos:
                        if combo == "reconnect":
                            await facade.disconnect()
                            for a in state_accs:
                                w_ = int.from_bytes(st.status_block[a.pos:a.pos + a.length], "big")
                                offs = [i for i, x in enumerate(a.items or []) if x == "OFF"]
                                val = 0 if a.type == "Bool" else (offs[0] if offs else 0)
                                if a.bitpos is not None:
                                    w_ = (w_ & ~(a.bitmask << a.bitpos)) | ((val & a.bitmask) << a.bitpos)
                                else:
                                    w_ = val
                                st.replace_status_block_segment(a.pos, w_.to_bytes(a.length, "big"))
                            facade = GeckoAsyncFacade(spa, tm)
                            facade._on_config_device_change()      # (first update cycle of the new facade)
                            cands = facade.pumps + facade.blowers + [d for d in facade.lights if hasattr(d, "_state_sensor")]
                            state_accs = [d._state_sensor.accessor for d in cands]
                            continue
                        for a, on in zip(state_accs, combo):
                            if a.type == "Bool":
                                val = on
                            else:
                                labs = [i for i, x in enumerate(a.items) if x != "OFF"]
                                offs = [i for i, x in enumerate(a.items) if x == "OFF"]
                                val = (rng.choice(labs) if on else (offs[0] if offs else 0))
                            w_ = int.from_bytes(st.status_block[a.pos:a.pos + a.length], "big")
                            if a.bitpos is not None:
                                w_ = (w_ & ~(a.bitmask << a.bitpos)) | ((val & a.bitmask) << a.bitpos)
                            else:
                                w_ = val
                            old = st.status_block
                            st.replace_status_block_segment(a.pos, w_.to_bytes(a.length, "big"))
                        # (no explicit call into the facade: it has to notice by itself, through the watchers it
                        # installed on its devices, as it does when a partial update arrives)
                        live = {m: getattr(cfg.GeckoConfig, m) for m in members}
                        mode = "active" if live == act else "idle" if live == idl else "mixed"
                        on, other = [], []
                        for i_, (d, a) in enumerate(zip(cands, state_accs)):
                            v = a.value
                            (on if i_ < n_pb else other).append({"cls": d.device_class, "type": a.type, "raw": int(a.raw_value),
                                                                 "label": v if isinstance(v, str) else ""})
                        recs.append({"on": on, "other": other, "mode": mode})
                        meta.append(f"{c['name']}+{l['name']}")
                finally:
                    await tm.__aexit__(None)
            w.run(one())
    return recs, meta


def update_cycle_records(rng):
    """the real facade update loop on the full async stack: a pump changes state while the loop is suspended
    in a round trip of its update cycle (the water-care poll is answered late); when the cycle has finished
    the installed table must still match the devices"""
    import geckolib.config as cfg
    from ..sessions import AsyncSession
    from .c13 import ApplyEchoPeer
    members, act, idl, _, _ = _tables()
    recs, meta = [], []
    peer = ApplyEchoPeer(env.REPO + "/tests/snapshots/default.snapshot")
    with AsyncSession(peer=peer, rank=rng.choice(["stable", "perm", "reverse"]), rank_seed=rng.random()) as s:
        if not s.wait_connected(90, need_update=True):
            raise env.MachineryError("update-cycle scenario: no connection")
        f = s.facade
        cands = f.pumps + f.blowers
        if not cands:
            raise env.MachineryError("update-cycle scenario: no pump or blower in the default snapshot")
        d0 = cands[0]
        acc = d0._state_sensor.accessor
        sim_acc = peer.sim.structure.accessors[acc.tag]
        on_raw = 1 if acc.type == "Bool" else [i for i, x in enumerate(acc.items) if x not in ("OFF", "")][0]
        off_raw = 0 if acc.type == "Bool" else [i for i, x in enumerate(acc.items) if x == "OFF"][0]
        for want_on in (True, False, True, False):
            s.quiesce()
            peer.wcget_delay = 0.6
            n0 = peer.n_getwc
            # the next periodic update cycle (no wake-up trick: the loop's own period, in virtual time)
            period = cfg.GeckoConfig.FACADE_UPDATE_FREQUENCY_IN_SECONDS
            for _ in range(int((period + 10) / 0.05)):
                s.advance(0.05)
                if peer.n_getwc > n0:
                    break
            if peer.n_getwc == n0:
                raise env.MachineryError("the facade update loop did not poll within its period")
            # the spa reports the device change while the poll is unanswered
            pos, data = peer._field_write(sim_acc, on_raw if want_on else off_raw)
            s.inject(peer.push_changes(s.client_parms(), [(pos, data)]))
            peer.wcget_delay = 0.0
            s.advance(3.0)
            s.quiesce()
            live = {m: getattr(cfg.GeckoConfig, m) for m in members}
            mode = "active" if live == act else "idle" if live == idl else "mixed"
            on = []
            for d in cands:
                a = d._state_sensor.accessor
                v = a.value
                on.append({"cls": d.device_class, "type": a.type, "raw": int(a.raw_value), "label": v if isinstance(v, str) else ""})
            recs.append({"on": on, "mode": mode})
            meta.append(f"update-cycle:{'on' if want_on else 'off'}-during-poll")
    # the facade is built for a spa in which a pump is ALREADY running (no device change will ever be reported): its
    # first update cycle selects the active table; a later connection to a spa with everything off selects idle again
    for snap, label in ((env.REPO + "/tests/snapshots/inXM-Pump 1 running-2020-12-08 19_54_01.snapshot", "pump-already-running"),
                        (env.REPO + "/tests/snapshots/default.snapshot", "everything-off-after-an-active-connection")):
        with AsyncSession(snapshot=snap, rank="stable") as s:
            if not s.wait_connected(90, need_update=True):
                raise env.MachineryError("update-cycle scenario: no connection (" + label + ")")
            s.advance(2.0)
            f = s.facade
            cands = f.pumps + f.blowers
            live = {m: getattr(cfg.GeckoConfig, m) for m in members}
            mode = "active" if live == act else "idle" if live == idl else "mixed"
            on = []
            for d in cands:
                a = d._state_sensor.accessor
                v = a.value
                on.append({"cls": d.device_class, "type": a.type, "raw": int(a.raw_value), "label": v if isinstance(v, str) else ""})
            recs.append({"on": on, "mode": mode})
            meta.append("first-update-cycle:" + label)
    return recs, meta


def run(ctx):
    ev = ctx.ev
    rng = env.rng("c17")
    r = tlc.model_check("ConfigMode", "ConfigMode_mc.cfg", timeout=900)
    ctx.tlc_design("ConfigMode: 3 sleepers, 3 switches, delays<=3, all interleavings", r)
    r2 = tlc.model_check("ConfigMode", "ConfigMode_ctl.cfg", timeout=300, tag="ConfigMode-ctl", coverage=False)
    ev.add_tlc("negative control: future renewed on every sleep (must be refuted)", r2)
    if "SleeperHearsNextSwitch" not in r2.violated:
        raise env.MachineryError("negative control not refuted")

    logs = []
    n_sc = 40 if ctx.quick else 600
    for i in range(n_sc):
        n = rng.choice([1, 2, 3, 5, 8, 20])
        logs.append(scenario(rng, n, rng.choice([5, 20, 130])))
    groups = {}
    for lg in logs:
        groups.setdefault(lg["n"], []).append(lg)
    for n, group in groups.items():
        sl = ", ".join(f'"s{i}"' for i in range(1, n + 1))
        verdicts, _ = tlc.validate("ConfigMode_Trace", group, f"c17-{n}", CFG.format(sl=sl), chunk=50, heap="1500m", jobs=8)
        for lg, v in zip(group, verdicts):
            if v["accepted"]:
                ev.cov["traces_validated_against_impl"] += 1
            else:
                k = v["matched"]
                e = lg["ev"][k] if k < len(lg["ev"]) else {"k": "end"}
                clause = {"wake": "woke-neither-at-switch-nor-at-deadline", "switch": "table-incomplete-or-mixed",
                          "sleep": "time-advanced-past-a-due-wakeup", "end": "sleeper-overslept-or-missed-switch",
                          "cancel": "time-advanced-past-a-due-wakeup"}.get(e["k"], e["k"])
                ctx.violation({"clause": clause},
                              {"sleepers": n, "matched": k, "of": len(lg["ev"]),
                               "event": {kk: vv for kk, vv in e.items() if kk not in ("table", "target")},
                               "before": [{kk: vv for kk, vv in x.items() if kk not in ("table", "target")} for x in lg["ev"][max(0, k - 6):k]]})
    frecs, fmeta = facade_records(rng, ctx.quick)
    for _ in range(1 if ctx.quick else 6):
        r2_, m2_ = update_cycle_records(rng)
        frecs += r2_
        fmeta += m2_
    if not frecs:
        raise env.MachineryError("no facade with pumps/blowers could be built")
    bad, n = tlc.judge("C17_Judge", frecs, "c17", chunk=5000)
    for idx, why in bad:
        ctx.violation({"clause": why, "mode": frecs[idx]["mode"]}, {"where": fmeta[idx], "record": frecs[idx]})
    ev.cov["traces_validated_against_impl"] += n - len(bad)
    ev.cov["evaluations"] = sum(len(l["ev"]) for l in logs) + n
    ev.cov["distinct_nontrivial"] = len({tuple((e["k"], e.get("s"), e["t"]) for e in l["ev"]) for l in logs
                                         if any(e["k"] == "switch" for e in l["ev"])}) + len({str(r_) for r_ in frecs})
    ev.cov["rule"] = "scenario logs containing at least one switch (distinct by full event sequence) + distinct facade on/off records"
    ev.sample({"scenario_events": [{k: v for k, v in e.items() if k not in ("table", "target")} for e in logs[0]["ev"][:10]]})
    ev.sample({"facade_record": frecs[0], "where": fmeta[0]})
    ev.assumptions += ["set_config_mode is only called once some task has slept (the code asserts that a future exists)",
                       "virtual times are compared in whole milliseconds"]
