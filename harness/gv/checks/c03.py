"""C03 — change notifications fire exactly once, iff the decoded value changed.

Design: spec/Notify.tla — all (offset, segment) updates of a small block with items that
share bytes / straddle bytes, watch / unwatch / unwatch_all in any order; TLC checks the
callback multiset of every step against the decoded values before and after (and with it
the lemma that the range-intersection filter never hides a change; a first-byte-only
filter is refuted as negative control).  Binding: on real config/log table pairs, both
structure classes, histories of patches (every offset class relative to an item, full
refreshes, no-op rewrites) interleaved with watch / duplicate watch / unwatch /
unwatch_all; each step is recorded (field words before/after, label lists, registration
history, callbacks with the block visible at call time) and judged by TLC (C03_Judge).
"""
from fractions import Fraction

from .. import env, tlc, packs
from .c14 import pairs


def _canon(acc, shape, v):
    t = shape["type"]
    if t == "Enum":
        return {"k": "label", "s": v if isinstance(v, str) else repr(v)}
    if t == "Bool":
        return {"k": "bool", "n": 1 if v is True else 0 if v is False else -1}
    if t == "Time":
        try:
            h, m = str(v).split(":")
            return {"k": "time", "hh": int(h), "mm": int(m)}
        except Exception:
            return {"k": "time", "hh": -1, "mm": -1}
    if t == "Temp":
        f = Fraction(v).limit_denominator(180)
        return {"k": "temp", "num": f.numerator, "den": f.denominator}
    return {"k": "int", "n": int(v)}


def _word(block, acc):
    return int.from_bytes(block[acc.pos:acc.pos + acc.length], "big")


RAISED = []


def history(cfg, log, async_, rng, n_steps, recs, meta):
    from geckolib.driver import GeckoStructure, GeckoAsyncStructure
    st = GeckoAsyncStructure(None, None) if async_ else GeckoStructure(None)
    st.build_accessors(packs.table(cfg, st), packs.table(log, st))
    accs = {t: a for t, a in st.accessors.items() if a.pos + a.length <= 1024}
    if not accs:
        return
    has_units = "TempUnits" in accs
    tags = [t for t in accs if has_units or type(accs[t]).__name__ != "GeckoTempStructAccessor"]
    shapes = {t: packs.shape_of(accs[t]) for t in tags}
    st.set_status_block(bytes(rng.randrange(256) for _ in range(1024)))
    ops = {t: [] for t in tags}
    calls = []
    observers = {}

    def mk(tag, oid):
        def cb(sender, old, new):
            calls.append((tag, oid, old, new, st.status_block))
        return cb

    class Obs:
        """an observer object: registering `o.cb` twice registers two equal, non-identical bound methods"""

        def __init__(self, tag, oid):
            self.tag, self.oid = tag, oid

        def cb(self, sender, old, new):
            calls.append((self.tag, self.oid, old, new, st.status_block))

    def obs(tag, oid):
        if (tag, oid) not in observers:
            observers[(tag, oid)] = mk(tag, oid) if oid == 1 else Obs(tag, oid)
        o = observers[(tag, oid)]
        return o if oid == 1 else o.cb          # a fresh bound method object at every use

    def do_watch(tag, oid):
        accs[tag].watch(obs(tag, oid))
        ops[tag].append({"op": "w", "o": oid})

    def live(tag):
        s = set()
        for o in ops[tag]:
            if o["op"] == "w":
                s.add(o["o"])
            elif o["op"] == "u":
                s.discard(o["o"])
            else:
                s.clear()
        return s

    for t in tags:
        do_watch(t, 1)
        if rng.random() < 0.5:
            do_watch(t, 1)          # registered twice: must still be called once
        if rng.random() < 0.5:
            do_watch(t, 2)
    name = f"{cfg['name']}+{log['name']}/{'async' if async_ else 'sync'}"
    two_byte = [t for t in tags if accs[t].length == 2]
    prev_update = None
    for step in range(n_steps):
        # registration churn
        for _ in range(rng.randrange(0, 4)):
            t = rng.choice(tags)
            r = rng.random()
            if r < 0.4:
                do_watch(t, rng.choice([1, 2]))
            elif r < 0.8:
                lv = sorted(live(t))
                if lv:
                    o = rng.choice(lv)
                    try:
                        accs[t].unwatch(obs(t, o))
                    except ValueError as e:
                        # an observer that was registered (and not removed since) is not known to the item
                        RAISED.append((name + "/unwatch", step, 0, 0, repr(e)[:200]))
                    ops[t].append({"op": "u", "o": o})
            else:
                accs[t].unwatch_all()
                ops[t].append({"op": "ua", "o": 0})
        old = st.status_block
        # choose the update
        kind = rng.random()
        t0 = rng.choice(two_byte) if two_byte and rng.random() < 0.6 else rng.choice(tags)
        a0 = accs[t0]
        if kind < 0.08:
            off, n = 0, 1024
        elif kind < 0.55:
            cls = rng.choice(["before", "first", "second", "both", "straddle_l", "straddle_r", "after"])
            if cls == "before":
                off, n = max(0, a0.pos - 2), min(2, a0.pos) or 1
            elif cls == "first":
                off, n = a0.pos, 1
            elif cls == "second":
                off, n = a0.pos + a0.length - 1, 1
            elif cls == "both":
                off, n = a0.pos, a0.length
            elif cls == "straddle_l":
                off, n = max(0, a0.pos - 1), 2
            elif cls == "straddle_r":
                off, n = a0.pos + a0.length - 1, 2
            else:
                off, n = min(1023, a0.pos + a0.length), 1
        else:
            off = rng.randrange(0, 1024)
            n = rng.choice([1, 2, 2, 3, 39, rng.randrange(1, 200)])
        n = max(1, min(n, 1024 - off))
        mode = rng.random()
        repeat = prev_update is not None and rng.random() < 0.1
        if repeat:
            # the block is replaced wholesale (as on a reconnect) and the very same update arrives again
            # (reset() also drops the accessor table, which a reconnect rebuilds: not used here)
            st.set_status_block(bytes(rng.randrange(256) for _ in range(1024)))
            old = st.status_block
            off, seg = prev_update
            n = len(seg)
        elif mode < 0.15:
            seg = old[off:off + n]                         # rewrite with identical bytes
        elif mode < 0.5:
            seg = bytes(b ^ (1 << rng.randrange(8)) if rng.random() < 0.5 else b for b in old[off:off + n])
        else:
            seg = bytes(rng.randrange(256) for _ in range(n))
        if not repeat and off > 0 and rng.random() < 0.06 and old[0:n] != old[off:off + n]:
            seg = old[0:n]            # the update happens to carry the bytes the block BEGINS with (at another offset)
        prev_update = (off, seg)
        calls.clear()
        # sometimes an observer applies ANOTHER update to the same structure from inside its callback (a client that
        # reacts to a change by refreshing or writing): the outer update's remaining items are still notified, each
        # once, against the block as it was before the outer update
        nested = None
        changed_now = [t for t in tags if max(off, accs[t].pos) < min(off + n, accs[t].pos + accs[t].length)
                       and _word(old, accs[t]) != _word(old[:off] + seg + old[off + n:], accs[t])]
        if not repeat and len(changed_now) >= 2 and rng.random() < 0.25:
            first = changed_now[0]
            # a byte far away from the outer update and from every item it touches
            lo2 = max(0, off - 8)
            hi2 = min(1024, off + n + 8)
            cand = [p_ for p_ in range(0, 1024) if p_ < lo2 or p_ >= hi2]
            if cand:
                a1 = accs[first]
                exclusive = not any(t_ != first and max(a1.pos, accs[t_].pos) < min(a1.pos + a1.length, accs[t_].pos + accs[t_].length)
                                    for t_ in tags)
                if not exclusive or rng.random() < 0.4:
                    off2 = rng.choice(cand)                      # a byte far away
                    seg2 = bytes([(old[off2] + 1 + rng.randrange(255)) % 256])
                else:
                    # ... or the very item being notified, once more (only for an item that shares its bytes with no
                    # other: what overlapping re-entrant updates mean for byte-sharing items depends on the order of
                    # the accessor table and is not something the property pins down)
                    off2 = accs[first].pos
                    mid_ = old[:off] + seg + old[off + n:]
                    seg2 = bytes([(mid_[off2] + 1 + rng.randrange(255)) % 256])
                state_ = {"done": False, "a": 0, "b": 0}

                class Trig:
                    def cb(self_, sender, o_, n_):
                        calls.append((first, 3, o_, n_, st.status_block))
                        if not state_["done"]:
                            state_["done"] = True
                            state_["a"] = len(calls)
                            st.replace_status_block_segment(off2, seg2)
                            state_["b"] = len(calls)
                trig = Trig()
                observers[(first, 3)] = trig
                accs[first].watch(trig.cb)
                ops[first].append({"op": "w", "o": 3})
                nested = (off2, seg2, first)
        try:
            st.replace_status_block_segment(off, seg)
        except Exception as e:     # none of the harness's observers raises: the library failed while notifying
            RAISED.append((name, step, off, n, repr(e)[:200]))
            if nested is not None:
                accs[nested[2]].unwatch(observers[(nested[2], 3)].cb)
                ops[nested[2]].append({"op": "u", "o": 3})
                continue
        if nested is not None and not state_["done"]:
            # (the chosen item did not notify after all: an ordinary step with one more observer registered)
            accs[nested[2]].unwatch(observers[(nested[2], 3)].cb)
            ops[nested[2]].append({"op": "u", "o": 3})
            nested = None
        if nested is not None:
            off2, seg2, first = nested
            mid = old[:off] + seg + old[off + n:]
            final = st.status_block
            calls_inner = calls[state_["a"]:state_["b"]]         # what was delivered while the inner update ran
            calls_outer = calls[:state_["a"]] + calls[state_["b"]:]
            unit = "F"
            if has_units:
                unit = "C" if accs["TempUnits"].value == "C" else "F"
            for (o_, n_, blk_old, blk_new, cl) in ((off, n, old, mid, calls_outer), (off2, 1, mid, final, calls_inner)):
                touched = [t for t in tags if max(o_, accs[t].pos) < min(o_ + n_, accs[t].pos + accs[t].length)]
                fired_ = {c[0] for c in cl}
                if len(touched) > 40:
                    keep = set(rng.sample(touched, 40)) | fired_
                    touched = [t for t in touched if t in keep]
                sel_ = list(dict.fromkeys(touched + sorted(fired_)))
                items_, index_ = [], {}
                for t in sel_:
                    a = accs[t]
                    index_[t] = len(items_) + 1
                    items_.append({"tag": t, "pos": a.pos, "shape": shapes[t],
                                   "labels": list(a.items) if isinstance(a.items, list) else [],
                                   "oldw": _word(blk_old, a), "neww": _word(blk_new, a), "ops": list(ops[t]), "unit": unit})
                crecs_ = []
                for (t, oid, o2_, nw, blk) in cl:
                    crecs_.append({"item": index_[t], "o": oid, "old": _canon(accs[t], shapes[t], o2_),
                                   "new": _canon(accs[t], shapes[t], nw),
                                   "sawnew": blk[o_:o_ + n_] in (blk_new[o_:o_ + n_], final[o_:o_ + n_])})
                recs.append({"off": o_, "n": n_, "items": items_, "calls": crecs_,
                             "installed": final == mid[:off2] + seg2 + mid[off2 + 1:], "reentrant": True})
                meta.append((name, step))
            accs[first].unwatch(observers[(first, 3)].cb)
            ops[first].append({"op": "u", "o": 3})
            continue
        new = st.status_block
        fired = {c[0] for c in calls}
        touched = [t for t in tags if max(off, accs[t].pos) < min(off + n, accs[t].pos + accs[t].length)]
        if len(touched) > 40:
            keep = set(rng.sample(touched, 40)) | fired
            touched = [t for t in touched if t in keep]
        extra = rng.sample(tags, min(3, len(tags)))
        sel = list(dict.fromkeys(touched + sorted(fired) + extra))
        unit = "F"
        if has_units:
            unit = "C" if accs["TempUnits"].value == "C" else "F"
        items = []
        index = {}
        for t in sel:
            a = accs[t]
            index[t] = len(items) + 1
            items.append({"tag": t, "pos": a.pos, "shape": shapes[t],
                          "labels": list(a.items) if isinstance(a.items, list) else [],
                          "oldw": _word(old, a), "neww": _word(new, a), "ops": list(ops[t]), "unit": unit})
        crecs = []
        for (t, oid, o, nw, blk) in calls:
            crecs.append({"item": index[t], "o": oid, "old": _canon(accs[t], shapes[t], o),
                          "new": _canon(accs[t], shapes[t], nw), "sawnew": blk == new})
        recs.append({"off": off, "n": n, "items": items, "calls": crecs,
                     "installed": new == old[:off] + seg + old[off + n:]})
        meta.append((name, step))


def refresh_history(cfg, log, async_, rng, recs, meta):
    """a full refresh through the REAL refresh path (request, segmented answer of the simulator, retry machinery of
    the structure class): one update of the status block whose segment boundary cuts a watched 2-byte item"""
    from ..transfer import AsyncRig, SyncRig
    N, S = 1024, 39
    probe_cls = None
    from geckolib.driver import GeckoStructure
    probe = GeckoStructure(None)
    probe.build_accessors(packs.table(cfg, probe), packs.table(log, probe))
    two = [a for a in probe.accessors.values() if a.length == 2 and 40 < a.pos < 1000]
    if not two:
        return
    a0 = rng.choice(two)
    start = (a0.pos + 1) % S
    length = N - start
    old = bytes(rng.randrange(256) for _ in range(N))
    spa = bytearray(rng.randrange(256) for _ in range(N))
    if rng.random() < 0.5:          # most items silent, the cut item changes in both bytes
        spa = bytearray(old)
        for _ in range(rng.randrange(1, 12)):
            spa[rng.randrange(start, N)] ^= 1 << rng.randrange(8)
    spa[a0.pos] = (old[a0.pos] + 1) % 256
    spa[a0.pos + 1] = (old[a0.pos + 1] + 1) % 256
    spa[:start] = old[:start]
    spa = bytes(spa)
    rig = (AsyncRig if async_ else SyncRig)(N, S, 2, start, length, spa, old)
    try:
        st = rig.struct
        st.build_accessors(packs.table(cfg, st), packs.table(log, st))
        accs = {t: a for t, a in st.accessors.items() if a.pos + a.length <= N}
        has_units = "TempUnits" in accs
        tags = [t for t in accs if has_units or type(accs[t]).__name__ != "GeckoTempStructAccessor"]
        shapes = {t: packs.shape_of(accs[t]) for t in tags}
        calls = []
        ops = {t: [] for t in tags}

        def mk(tag):
            def cb(sender, o, n_):
                calls.append((tag, 1, o, n_, st.status_block))
            return cb

        for t in tags:
            f = mk(t)
            accs[t].watch(f)
            ops[t].append({"op": "w", "o": 1})
            if rng.random() < 0.3:
                accs[t].watch(f)
                ops[t].append({"op": "w", "o": 1})
        guard = 0
        while not rig.done() and guard < 400:
            guard += 1
            rig.collect()
            us = [d for d in rig.bag if d["m"]["t"] == "U"]
            vs = sorted([d for d in rig.bag if d["m"]["t"] != "U"], key=lambda x: x["m"].get("idx", 0))
            if us:
                rig.serve()
            elif vs:
                rig.deliver(vs[0]["m"])
            else:
                rig.timeout()
        new = st.status_block
        if not rig.ok():
            raise env.MachineryError("C03 refresh history: the fault-free refresh did not complete")
        fired = {c[0] for c in calls}
        changed = [t for t in tags if _word(old, accs[t]) != _word(new, accs[t])]
        pool = list(dict.fromkeys([t for t in tags if accs[t].pos in (a0.pos, a0.pos + 1)] + sorted(fired) + changed))
        if len(pool) > 40:
            keepf = [t for t in pool if accs[t].pos in (a0.pos, a0.pos + 1)]
            pool = list(dict.fromkeys(keepf + rng.sample(pool, 40)))
        sel = list(dict.fromkeys(pool + rng.sample(tags, min(3, len(tags)))))
        unit = "F"
        if has_units:
            unit = "C" if accs["TempUnits"].value == "C" else "F"
        items, index = [], {}
        for t in sel:
            a = accs[t]
            index[t] = len(items) + 1
            items.append({"tag": t, "pos": a.pos, "shape": shapes[t],
                          "labels": list(a.items) if isinstance(a.items, list) else [],
                          "oldw": _word(old, a), "neww": _word(new, a), "ops": list(ops[t]), "unit": unit})
        crecs = []
        for (t, oid, o, nw, blk) in calls:
            if t in index:
                crecs.append({"item": index[t], "o": oid, "old": _canon(accs[t], shapes[t], o),
                              "new": _canon(accs[t], shapes[t], nw), "sawnew": blk == new})
        recs.append({"off": start, "n": length, "items": items, "calls": crecs,
                     "installed": new == old[:start] + spa[start:start + length] + old[start + length:]})
        meta.append((f"{cfg['name']}+{log['name']}/{'async' if async_ else 'sync'}/refresh", a0.pos))
    finally:
        rig.close()


def run(ctx):
    ev = ctx.ev
    rng = env.rng("c03")
    r = tlc.model_check("Notify", "Notify_mc.cfg", timeout=900)
    ctx.tlc_design("Notify: all (offset, segment) updates x watch/unwatch interleavings on the small block", r)
    r2 = tlc.model_check("Notify", "Notify_ctl.cfg", timeout=300, tag="Notify-ctl", coverage=False)
    ev.add_tlc("negative control: first-byte-only intersection filter (must be refuted)", r2)
    if "ExactlyOnceIffChanged" not in r2.violated:
        raise env.MachineryError("negative control not refuted")

    ps = pairs()
    by_plat = {}
    for plat, c, l in ps:
        by_plat.setdefault(plat, []).append((c, l))
    sel = []
    for plat, lst in sorted(by_plat.items()):
        sel.append(lst[0])
        sel.append(lst[-1])
        if not ctx.quick:
            sel += lst
    if ctx.quick:
        sel += [(c, l) for _, c, l in rng.sample(ps, 10)]
    recs, meta = [], []
    n_steps = 60 if ctx.quick else 120
    for c, l in sel:
        for async_ in (False, True):
            history(c, l, async_, rng, n_steps, recs, meta)
    n_patch = len(recs)
    for c, l in sel[:10 if ctx.quick else len(sel)]:
        for async_ in (False, True):
            try:
                refresh_history(c, l, async_, rng, recs, meta)
            except env.MachineryError as e:
                # a refresh that cannot finish on a fault-free network is machinery trouble - unless the library has
                # already been seen raising out of its own notifications, which is what stops the transfer
                if not RAISED:
                    raise
                RAISED.append((f"{c['name']}+{l['name']}/{'async' if async_ else 'sync'}/refresh", 0, 0, 0, str(e)[:200]))
    ev.cov["refresh_path_updates"] = len(recs) - n_patch
    bad, n = tlc.judge("C03_Judge", recs, "c03", chunk=600, jobs=12, heap="1500m")
    for idx, why in bad:
        name, step = meta[idx]
        r_ = recs[idx]
        inv = sorted({r_["items"][c["item"] - 1]["tag"] for c in r_["calls"]})[:6]
        types = sorted({it["shape"]["type"] for it in r_["items"]})
        ctx.violation({"clause": why, "structure": name.split("/")[1],
                       "path": "refresh" if name.endswith("/refresh") else "patch"},
                      {"where": name, "step": step, "off": r_["off"], "n": r_["n"], "fired": inv, "item_types": types,
                       "items": [{k: v for k, v in it.items() if k != "labels"} for it in r_["items"][:12]],
                       "calls": r_["calls"][:12]})
    for (name, step, off_, n_, what) in RAISED[:50]:
        ctx.violation({"clause": "registered-observer-unknown-at-unwatch" if name.endswith("/unwatch") else "update-raised",
                       "structure": name.split("/")[1],
                       "path": "refresh" if name.endswith("/refresh") else "patch"},
                      {"where": name, "step": step, "off": off_, "n": n_, "exception": what})
    ev.cov["evaluations"] = n
    ev.cov["traces_validated_against_impl"] = n - len(bad)
    ev.cov["notifications_observed"] = sum(len(r_["calls"]) for r_ in recs)
    ev.cov["table_pairs"] = len(sel)
    ev.cov["distinct_nontrivial"] = len({(m[0], r_["off"], r_["n"], len(r_["calls"])) for m, r_ in zip(meta, recs) if r_["calls"]})
    ev.cov["rule"] = "update steps that produced at least one callback, distinct by (table pair, structure class, offset, length, callbacks)"
    for i in (0, len(recs) // 2):
        r_ = recs[i]
        ev.sample({"where": meta[i][0], "off": r_["off"], "n": r_["n"], "calls": r_["calls"][:3],
                   "items": [{k: v for k, v in it.items() if k not in ("labels", "ops")} for it in r_["items"][:3]]})
    ev.assumptions += [
        "temperature items are compared on their stored reading (raw word); callback values are projected to exact rationals",
        "items whose bytes lie outside the 1024-byte block (one known ill-formed entry) are not watched",
    ]
