"""C02 — pack-table items: write-then-read returns the value, no other bit changes.

Design: spec/BitField.tla; the laws (read-back, isolation, neighbours) are checked by TLC
on the complete domain of sub-field shapes x word contents x values (BitField_MC; the
thorough tier covers all 65 536 word contents, split over 16 TLC processes).
Binding: for every item of every shipped config/log table the real accessor is driven
through BOTH write paths on real structure objects; each record (shape as the code
derived it, existing word, API value, emitted device write, block after applying it,
read-back, neighbours) is judged by TLC against BitField (C02_Judge).
"""
import asyncio
import collections
import struct as pystruct
from concurrent.futures import ThreadPoolExecutor

from .. import env, tlc, packs


def _mc(ctx, quick):
    if quick:
        ranges = [(0, 255), (0x5500, 0x55ff), (0xaa00, 0xaaff), (0xff00, 0xffff)]
    else:
        ranges = [(i * 4096, i * 4096 + 4095) for i in range(16)]

    def run(rg):
        return tlc.model_check("BitField_MC", "BitField_MC.cfg", workers=1, timeout=3000,
                               tag=f"BitField-{rg[0]}", envv={"GV_LO": rg[0], "GV_HI": rg[1]},
                               coverage=False, heap="1g")

    with ThreadPoolExecutor(max_workers=16) as ex:
        res = list(ex.map(run, ranges))
    for rg, r in zip(ranges, res):
        ctx.tlc_design(f"BitField laws, all sub-field shapes x word contents {rg[0]}..{rg[1]} x all values", r)
    ctx.ev.cov["bitfield_word_contents_covered"] = sum(b - a + 1 for a, b in ranges)
    return len(ranges) == 16


class Capture:
    def __init__(self):
        self.calls = []

    def sync(self, pos, length, value):
        self.calls.append((pos, length, value))

    async def asyn(self, pos, length, value):
        self.calls.append((pos, length, value))


def _word(block, pos, length):
    return int.from_bytes(block[pos:pos + length], "big")


def _bits(acc):
    """absolute bit range (set of bit indexes, 0 = MSB side irrelevant: use (byte,bit)) of an item"""
    L = int(getattr(acc, "_gv_decl_len", acc.length))
    if acc.bitpos is None:
        return {(acc.pos + i, b) for i in range(L) for b in range(8)}
    out = set()
    mask = getattr(acc, "bitmask", 1)
    for k in range(16):
        if (mask << acc.bitpos) >> k & 1:
            byte_from_low = k // 8
            out.add((acc.pos + L - 1 - byte_from_low, k % 8))
    return out


def _api_values(acc, shape, rng, full):
    t = shape["type"]
    out = []
    if t == "Enum":
        items = acc.items
        seen = set()
        for lab in items:
            if lab in seen:
                continue
            seen.add(lab)
            out.append(({"k": "label", "n": items.index(lab)}, lab))
        if not full and len(out) > 6:
            out = out[:3] + out[-2:] + [rng.choice(out)]
    elif t == "Bool":
        out = [({"k": "bool", "n": 1}, True), ({"k": "bool", "n": 0}, False),
               ({"k": "strbool", "n": 1}, "True"), ({"k": "strbool", "n": 0}, "false")]
        if not full:
            out = out[:2] + [rng.choice(out[2:])]
    elif t == "Byte":
        vals = [0, 1, 127, 128, 255] + ([rng.randrange(256) for _ in range(3)] if full else [rng.randrange(256)])
        out = [({"k": "int", "n": v}, v) for v in vals] + [({"k": "strint", "n": 12}, "12")]
    elif t == "Word":
        vals = [0, 1, 255, 256, 32768, 65535, rng.randrange(65536)]
        out = [({"k": "int", "n": v}, v) for v in vals] + [({"k": "strint", "n": 4660}, "4660")]
        if not full:
            out = out[:2] + out[4:]
    elif t == "Time":
        vals = [(0, 0), (23, 59), (12, 5), (255, 255), (rng.randrange(24), rng.randrange(60))]
        out = [({"k": "time", "hh": h, "mm": m, "n": 0}, f"{h:02}:{m:02}") for h, m in vals]
    return out


def _canon_rb(acc, shape, value):
    t = shape["type"]
    if t == "Enum":
        return {"k": "label", "n": acc.items.index(value) if value in acc.items else -1}
    if t == "Bool":
        return {"k": "bool", "n": 1 if value is True else 0 if value is False else -2}
    if t in ("Byte", "Word"):
        return {"k": "int", "n": int(value)}
    if t == "Time":
        try:
            h, m = str(value).split(":")
            return {"k": "time", "hh": int(h), "mm": int(m), "n": 0}
        except Exception:
            return {"k": "time", "hh": -1, "mm": -1, "n": 0}
    return {"k": "?", "n": -1}


def _contents(shape, rng, full):
    fm = 255 if shape["len"] == 1 else 65535
    c = [0, fm, 0x55 if shape["len"] == 1 else 0x5AA5, rng.randrange(fm + 1)]
    if full:
        c += [0xAA if shape["len"] == 1 else 0xA55A, rng.randrange(fm + 1)]
    return c


def gen_records(ctx, rng, quick):
    from geckolib.driver import GeckoStructure, GeckoAsyncStructure
    from geckolib.const import GeckoConstants

    loop = asyncio.new_event_loop()
    recs = []
    meta = []          # parallel: (item key, detail)
    shapes_seen = collections.Counter()
    mods = [m for m in packs.modules() if m["kind"] != "pack"]
    cfg_by_plat = {}
    for m in mods:
        if m["kind"] == "cfg":
            cfg_by_plat.setdefault(m["platform"], m)
    notwritable_fmt = GeckoConstants.EXCEPTION_MESSAGE_NOT_WRITABLE
    # the cell an item occupies is what the TABLE declares (Word / Time: two bytes; a Size attribute; else one byte): the
    # declaration is recorded as the table hands it to the item's constructor, not read back from the item under test
    from geckolib.driver.accessor import GeckoStructAccessor as _Base
    _orig_init = _Base.__init__

    def _recording_init(self, struct_, tag, pos, type, bitpos, items, size, maxitems, rw):
        _orig_init(self, struct_, tag, pos, type, bitpos, items, size, maxitems, rw)
        self._gv_decl_len = 2 if type in ("Word", "Time") else (int(size) if size is not None else 1)

    for m in mods:
        cap = Capture()
        ss = GeckoStructure(cap.sync)
        sa = GeckoAsyncStructure(cap.sync, cap.asyn)
        _Base.__init__ = _recording_init
        try:
            for st in (ss, sa):
                tb = packs.table(m, st)
                st.accessors = dict(tb.accessors)
        finally:
            _Base.__init__ = _orig_init
        tags = list(ss.accessors)
        bits = {t: _bits(ss.accessors[t]) for t in tags}
        for tag in tags:
            acc_s, acc_a = ss.accessors[tag], sa.accessors[tag]
            shape = packs.shape_of(acc_s)
            shape["len"] = int(getattr(acc_s, "_gv_decl_len", shape["len"]))
            if shape["type"] == "Temp":
                continue        # temperature values are C14's subject (needs the unit item of the cfg table)
            key = (shape["type"], shape["len"], shape["bitpos"], shape["mask"], shape["rw"] != "none", shape["nitems"])
            first = shapes_seen[key] == 0
            shapes_seen[key] += 1
            full = first or not quick
            apis = _api_values(acc_s, shape, rng, full)
            contents = _contents(shape, rng, full) if full else [rng.choice(_contents(shape, rng, False))]
            if not full:
                apis = [rng.choice(apis)] if apis else []
            if shape["rw"] == "none":
                apis = apis[:1]
                contents = contents[:1]
            others = [t for t in tags if t != tag and not (bits[t] & bits[tag])
                      and abs(ss.accessors[t].pos - acc_s.pos) < 3]
            pos, L = acc_s.pos, shape["len"]
            if pos + L > 1024:
                # not addressable inside the block (C18 reports the item); nothing to write
                recs.append({"shape": shape, "pos": pos, "existing": 0, "path": "sync",
                             "api": {"k": "int", "n": 0}, "outcome": "raised:unaddressable"})
                meta.append((f"{m['name']}.{tag}", {}))
                continue
            # permission is state, not only a table attribute: the same item is also written after its permission
            # has been GRANTED (what the simulator does for every item) and after it has been REVOKED again
            plan = [(existing, None) for existing in contents]
            orig_rw = acc_s.read_write
            if first and apis:
                plan += [(contents[0], "ALL"), (contents[-1], "none")]
            for existing, perm in plan:
                base = bytearray(rng.randrange(256) for _ in range(1024))
                base[pos:pos + L] = existing.to_bytes(L, "big")
                base = bytes(base)
                if perm is not None:
                    for acc in (acc_s, acc_a):
                        acc.set_read_write(None if perm == "none" else perm)
                    shape = dict(shape, rw=perm)
                for api, value in (apis if perm is None else apis[:2]):
                    for path, st, acc in (("sync", ss, acc_s), ("async", sa, acc_a)):
                        st.set_status_block(base)
                        cap.calls.clear()
                        before_others = {t: st.accessors[t].raw_value for t in others}
                        rec = {"shape": shape, "pos": pos, "existing": existing, "path": path, "api": api,
                               "maxitems": int(acc.maxitems) if acc.maxitems is not None else 0}
                        try:
                            if path == "sync":
                                acc.value = value
                            else:
                                loop.run_until_complete(acc.async_set_value(value))
                            outcome = "write" if len(cap.calls) == 1 else f"raised:calls={len(cap.calls)}"
                        except Exception as e:  # noqa
                            if str(e) == notwritable_fmt.format(tag) and not cap.calls:
                                outcome = "refused"
                            else:
                                outcome = f"raised:{type(e).__name__}"
                        rec["outcome"] = outcome
                        if outcome == "write":
                            p_, l_, w_ = cap.calls[0]
                            try:
                                w_int = int(w_)
                                data = pystruct.pack(">B" if l_ == 1 else ">H", w_int)
                            except Exception as e:  # noqa
                                rec["outcome"] = f"raised:pack:{type(e).__name__}"
                                data = None
                            if data is not None:
                                rec["em"] = {"pos": p_, "len": l_, "word": w_int}
                                try:
                                    # applying the device write and reading back are library operations too
                                    st.replace_status_block_segment(p_, data)
                                    blk = st.status_block
                                    rec["after"] = _word(blk, pos, L)
                                    rec["outside"] = (len(blk) == 1024 and blk[:pos] == base[:pos]
                                                      and blk[pos + L:] == base[pos + L:])
                                    rec["rb"] = _canon_rb(acc, shape, acc.value)
                                    rec["others"] = sum(1 for t in others if st.accessors[t].raw_value != before_others[t])
                                except Exception as e:  # noqa
                                    rec["outcome"] = f"raised:apply:{type(e).__name__}"
                                    rec.pop("em", None)
                        recs.append(rec)
                        meta.append((f"{m['name']}.{tag}", {"value": repr(value), "permission": perm}))
            for acc in (acc_s, acc_a):
                acc.set_read_write(orig_rw)
            if acc_s.read_write != orig_rw:
                acc_s.read_write = acc_a.read_write = orig_rw       # (restoring is the harness's business)
    loop.close()
    return recs, meta, shapes_seen


def run(ctx):
    ev = ctx.ev
    rng = env.rng("c02")
    exhaustive = _mc(ctx, ctx.quick)
    recs, meta, shapes = gen_records(ctx, rng, ctx.quick)
    bad, n = tlc.judge("C02_Judge", recs, "c02", chunk=30000, jobs=12)
    for idx, why in bad:
        item, det = meta[idx]
        r = recs[idx]
        ctx.violation({"item": item, "clause": why},
                      {"record": r, **det})
    # temperature items: write the shown value of a raw word, the device write must carry that word
    # (both units, both write paths; the arithmetic itself is C14's subject and judged by its module)
    import asyncio as _a
    from .c14 import temp_records, pairs as _pairs
    trecs, tmeta = [], []
    loop = _a.new_event_loop()
    done_plat = set()
    for plat, c, l in _pairs():
        if plat in done_plat:
            continue
        raws = sorted({0, 1, 17, 18, 200, 201, 319, 320, 321, 555, 684, 702, 1023, 65535, *[rng.randrange(65536) for _ in range(60)]})
        if temp_records(c, l, raws, lambda lo, hi: [], rng, trecs, tmeta, loop):
            done_plat.add(plat)
    loop.close()
    tbad, tn = tlc.judge("C14_Judge", trecs, "c02-temp", chunk=40000)
    for idx, why in tbad:
        r_ = trecs[idx]
        ctx.violation({"item": tmeta[idx][0].split("+")[0].rsplit("-cfg", 1)[0] + ":temperature", "clause": "temperature-" + r_["kind"],
                       "unit": r_.get("unit"), "path": r_.get("path")}, {"where": tmeta[idx][0], "record": r_})
    n += tn
    bad = list(bad) + list(tbad)
    ev.cov["temperature_records"] = tn
    ev.cov["evaluations"] = n
    ev.cov["traces_validated_against_impl"] = n - len(bad)
    ev.cov["items"] = len({m[0] for m in meta})
    ev.cov["shapes"] = len(shapes)
    ev.cov["distinct_nontrivial"] = len({(m[0], r["path"], r["existing"], str(r["api"])) for m, r in zip(meta, recs)
                                         if r["shape"]["rw"] != "none"})
    ev.cov["rule"] = ("one record per (item, write path, existing field content, API value); non-trivial = item is "
                      "writable; every shape (type,len,bitpos,mask,writable,labels) gets all its domain values x "
                      "4-6 field contents on its first item, remaining items get seeded values (quick) or the same "
                      "full treatment (thorough)")
    ev.cov["exhaustive"] = bool(exhaustive)
    for i in (0, len(recs) // 2, len(recs) - 1):
        ev.sample({"item": meta[i][0], **{k: v for k, v in recs[i].items()}})
    ev.assumptions += [
        "temperature items are exercised on one config/log pair per platform (they need the unit item of the config table) with the arithmetic judged by C14's module",
        "a device write is applied to the block the way the spa/simulator applies it: big-endian word at (pos, len)",
        "'other items' are those of the same table within 2 bytes that share no bit with the written item",
    ]
