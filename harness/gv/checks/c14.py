"""C14 — temperature values, units, limits and heater operation are consistent.

Design: temperature arithmetic of spec/BitField.tla on exact rationals; C14_MC checks the
laws on all 65 536 raw words x both units (exhaustive).  Binding: the real
GeckoTempStructAccessor and GeckoWaterHeater on real config/log table pairs: every raw
word read, written back through both write paths, decimal inputs, unit/limits, and the
operation ladder for all flag/temperature combinations; floats are projected to exact
rationals (Fraction.limit_denominator(180)) and every record is judged by TLC
(C14_Judge)."""
import asyncio
import struct as pystruct
from fractions import Fraction

from .. import env, tlc, packs


class _Cap:
    def __init__(self):
        self.calls = []

    def sync(self, pos, length, value):
        self.calls.append((pos, length, value))

    async def asyn(self, pos, length, value):
        self.calls.append((pos, length, value))


class _StubSpa:
    def __init__(self, struct):
        self.struct = struct

    @property
    def accessors(self):
        return self.struct.accessors


class _StubFacade:
    unique_id = "gv"
    name = "gv"

    def __init__(self, spa):
        self._spa = spa
        self.spa = spa


def pairs():
    """one (platform, cfg module, log module) per platform that has the heater items"""
    mods = packs.modules()
    out = []
    for plat in sorted({m["platform"] for m in mods if m["kind"] == "pack"}):
        cfgs = [m for m in mods if m["kind"] == "cfg" and m["platform"] == plat]
        logs = [m for m in mods if m["kind"] == "log" and m["platform"] == plat]
        for c in cfgs:
            for l in logs:
                out.append((plat, c, l))
    return out


def build(cfg, log, async_=False):
    from geckolib.driver import GeckoStructure, GeckoAsyncStructure
    cap = _Cap()
    st = GeckoAsyncStructure(cap.sync, cap.asyn) if async_ else GeckoStructure(cap.sync)
    st.build_accessors(packs.table(cfg, st), packs.table(log, st))
    return st, cap


def _set_field(st, acc, raw):
    blk = st.status_block
    data = raw.to_bytes(acc.length, "big")
    st.set_status_block(blk[:acc.pos] + data + blk[acc.pos + acc.length:])


def _hmask(a):
    """the field mask the table declares (MaxItems ladder of the protocol), derived by the harness"""
    m = int(a.maxitems) if a.maxitems is not None else 0
    return 15 if m > 8 else 7 if m > 4 else 3 if m > 2 else 1


def _set_unit(st, unit):
    u = st.accessors["TempUnits"]
    idx = u.items.index(unit)
    if u.bitpos is None:
        _set_field(st, u, idx)
    else:
        w = int.from_bytes(st.status_block[u.pos:u.pos + u.length], "big")
        w = (w & ~(u.bitmask << u.bitpos)) | (idx << u.bitpos)
        _set_field(st, u, w)


def _frac(x):
    f = Fraction(x).limit_denominator(180)
    return f.numerator, f.denominator


def temp_records(cfg, log, raws, decimals, rng, recs, meta, loop):
    ss, cs = build(cfg, log, False)
    sa, ca = build(cfg, log, True)
    tags = [t for t, a in ss.accessors.items() if type(a).__name__ == "GeckoTempStructAccessor"]
    if not tags or "TempUnits" not in ss.accessors:
        return 0
    tag = "SetpointG" if "SetpointG" in tags else tags[0]
    name = f"{cfg['name']}+{log['name']}.{tag}"
    for unit in ("C", "F"):
        for st in (ss, sa):
            st.set_status_block(bytes(1024))
            _set_unit(st, unit)
        acc_s, acc_a = ss.accessors[tag], sa.accessors[tag]
        for raw in raws:
            _set_field(ss, acc_s, raw)
            shown = acc_s.value
            n, d = _frac(shown)
            recs.append({"kind": "read", "raw": raw, "unit": unit, "num": n, "den": d})
            meta.append((name, {"shown": shown}))
            for path, st, acc, cap in (("sync", ss, acc_s, cs), ("async", sa, acc_a, ca)):
                _set_field(st, acc, (raw * 7 + 13) % 65536)
                cap.calls.clear()
                try:
                    if path == "sync":
                        acc.value = shown
                    else:
                        loop.run_until_complete(acc.async_set_value(shown))
                    outcome = "write" if len(cap.calls) == 1 else "nocall"
                    word = int(cap.calls[0][2]) if cap.calls else -1
                except Exception as e:  # noqa
                    outcome, word = f"raised:{type(e).__name__}", -1
                recs.append({"kind": "write", "raw": raw, "unit": unit, "path": path, "outcome": outcome, "word": word})
                meta.append((name, {"shown": shown}))
        prev = None
        lo, hi = ((1000, 4600) if unit == "C" else (3200, 11500))
        for k in decimals(lo, hi):
            t = k / 100.0
            words = {}
            for path, st, acc, cap in (("sync", ss, acc_s, cs), ("async", sa, acc_a, ca)):
                cap.calls.clear()
                try:
                    if path == "sync":
                        acc.value = t
                    else:
                        loop.run_until_complete(acc.async_set_value(t))
                    outcome = "write" if len(cap.calls) == 1 else "nocall"
                    word = int(cap.calls[0][2]) if cap.calls else -1
                except Exception as e:  # noqa
                    outcome, word = f"raised:{type(e).__name__}", -1
                words[path] = word
                recs.append({"kind": "dec", "unit": unit, "num": k, "den": 100, "path": path,
                             "outcome": outcome, "word": word})
                meta.append((name, {"t": t}))
            if prev is not None and prev[0] < k:
                recs.append({"kind": "order", "unit": unit, "n1": prev[0], "n2": k, "den": 100,
                             "w1": prev[1], "w2": words["sync"]})
                meta.append((name, {}))
            prev = (k, words["sync"])
    # temperature items WITHOUT write permission refuse a write on both paths (no device call, an exception)
    ro = [t for t in tags if ss.accessors[t].read_write is None][:3]
    for t in ro:
        for path, st, cap in (("sync", ss, cs), ("async", sa, ca)):
            acc = st.accessors[t]
            _set_field(st, acc, 600)
            cap.calls.clear()
            try:
                if path == "sync":
                    acc.value = 30.0
                else:
                    loop.run_until_complete(acc.async_set_value(30.0))
                outcome = "write" if cap.calls else "nocall"
            except Exception as e:  # noqa
                outcome = "refused" if not cap.calls else f"raised-after-write:{type(e).__name__}"
            recs.append({"kind": "rowrite", "path": path, "outcome": outcome, "unit": unit})
            meta.append((f"{cfg['name']}+{log['name']}.{t}", {}))
    # a history on the SAME accessor objects with notifying updates only (the way a live connection changes the
    # block): a temperature is read, the units byte changes through an update that starts exactly at that byte
    # (what a device write or a partial update of TempUnits looks like), then the temperature is read, written
    # back and read again
    for path, st, cap in (("sync", ss, cs), ("async", sa, ca)):
        acc, u = st.accessors[tag], st.accessors["TempUnits"]
        st.set_status_block(bytes(1024))
        cur = "F" if u.value == "F" else "C"
        for step in range(6):
            to = "C" if cur == "F" else "F"
            raw = rng.choice([540, 684, 702, 333, 601, 689])
            st.replace_status_block_segment(acc.pos, raw.to_bytes(acc.length, "big"))
            _ = acc.value
            idx = u.items.index(to)
            w = int.from_bytes(st.status_block[u.pos:u.pos + u.length], "big")
            w = idx if u.bitpos is None else (w & ~(u.bitmask << u.bitpos)) | (idx << u.bitpos)
            st.replace_status_block_segment(u.pos, w.to_bytes(u.length, "big"))
            cur = to
            shown = acc.value
            n, d = _frac(shown)
            recs.append({"kind": "read", "raw": raw, "unit": cur, "num": n, "den": d})
            meta.append((name, {"shown": shown, "history": "after-unit-switch"}))
            cap.calls.clear()
            try:
                if path == "sync":
                    acc.value = shown
                else:
                    loop.run_until_complete(acc.async_set_value(shown))
                outcome = "write" if len(cap.calls) == 1 else "nocall"
                word = int(cap.calls[0][2]) if cap.calls else -1
            except Exception as e:  # noqa
                outcome, word = f"raised:{type(e).__name__}", -1
            recs.append({"kind": "write", "raw": raw, "unit": cur, "path": path, "outcome": outcome, "word": word})
            meta.append((name, {"shown": shown, "history": "after-unit-switch"}))
    return 1


def heater_records(cfg, log, rng, recs, meta, loop=None, hraws=()):
    from geckolib.automation.heater import GeckoWaterHeater
    st, cap = build(cfg, log, False)
    acc = st.accessors
    need = ["TempUnits", "SetpointG", "DisplayedTempG", "RealSetPointG"]
    if any(k not in acc for k in need):
        return 0
    name = f"{cfg['name']}+{log['name']}.heater"
    st.set_status_block(bytes(1024))
    heater = GeckoWaterHeater(_StubFacade(_StubSpa(st)))
    u = acc["TempUnits"]
    # units, symbol, limits (all stored unit values the field can hold)
    nvals = (u.bitmask + 1) if u.bitpos is not None else 4
    for idx in list(range(min(nvals, 4))) + ([255] if u.bitpos is None else []):
        if u.bitpos is None:
            _set_field(st, u, idx)
        else:
            _set_field(st, u, (idx & u.bitmask) << u.bitpos)
        label = u.value
        try:
            sym = heater.temperature_unit
            rec = {"kind": "unit", "label": label, "symbol": "degC" if sym == "°C" else "degF" if sym == "°F" else "other",
                   "min": heater.min_temp, "max": heater.max_temp}
        except Exception as e:  # noqa
            rec = {"kind": "unit", "label": label, "symbol": f"raised:{type(e).__name__}", "min": 0, "max": 0}
        recs.append(rec)
        meta.append((name, {"unit_index": idx}))
    # what the heater PRESENTS: each of its three readings is the stored reading of its own item (the other two items
    # hold different words), in both units
    for unit in ("C", "F"):
        _set_unit(st, unit)
        for getter, key in (("current_temperature", "DisplayedTempG"), ("target_temperature", "SetpointG"),
                            ("real_target_temperature", "RealSetPointG")):
            for raw in (0, 1, 17, 18, 320, 684, 1023, 65535):
                for k2 in ("DisplayedTempG", "SetpointG", "RealSetPointG"):
                    _set_field(st, acc[k2], raw if k2 == key else (raw * 5 + 611) % 65536)
                try:
                    n_, d_ = _frac(getattr(heater, getter))
                    recs.append({"kind": "read", "raw": raw, "unit": unit, "num": n_, "den": d_})
                except Exception as e:  # noqa
                    recs.append({"kind": "read", "raw": raw, "unit": unit, "num": -1, "den": 1})
                meta.append((name, {"getter": getter}))
    _set_field(st, acc["SetpointG"], 684)
    # operation ladder
    flags = []
    for key in ("Heating", "CoolingDown"):
        if key in acc:
            a = acc[key]
            vals = list(range((_hmask(a) + 1) if a.bitpos is not None else 3))
            flags.append((key, a, vals))
        else:
            flags.append((key, None, [0]))
    for unit in ("C", "F"):
        _set_unit(st, unit)
        for hv in flags[0][2]:
            for cv in flags[1][2]:
                for ci, (cur, real) in enumerate(((500, 600), (600, 500), (555, 555), (0, 1), (65535, 65534), (600, 0), (0, 0), (700, 0))):
                    # the bits of the flags' bytes that belong to OTHER items (outputs, relays): all clear, all set, seeded
                    for (key, a, _) in flags:
                        if a is not None and a.bitpos is not None:
                            fill = (0, (1 << (8 * a.length)) - 1, rng.randrange(1 << (8 * a.length)))[ci % 3]
                            _set_field(st, a, fill)
                    for (key, a, _), v in zip(flags, (hv, cv)):
                        if a is not None:
                            w = int.from_bytes(st.status_block[a.pos:a.pos + a.length], "big")
                            if a.bitpos is not None:
                                w = (w & ~(_hmask(a) << a.bitpos)) | (v << a.bitpos)
                            else:
                                w = v
                            _set_field(st, a, w)
                    _set_field(st, acc["DisplayedTempG"], cur)
                    _set_field(st, acc["RealSetPointG"], real)

                    def f(a, v):
                        # the flag as the harness wrote it (not as the item under test reads it back)
                        if a is None:
                            return {"present": False, "type": "none", "raw": 0, "label": ""}
                        lab = ""
                        if isinstance(a.items, list):
                            lab = a.items[v] if v < len(a.items) else "Unknown"
                        return {"present": True, "type": a.type, "raw": v, "label": lab}
                    try:
                        got = heater.current_operation
                    except Exception as e:  # noqa
                        got = f"raised:{type(e).__name__}"
                    recs.append({"kind": "op", "heat": f(flags[0][1], hv), "cool": f(flags[1][1], cv),
                                 "cmp": (cur > real) - (cur < real), "got": got})
                    meta.append((name, {"unit": unit, "cur": cur, "real": real}))
    # writes through the heater's own setters (the user-facing API): what the heater presents as its target is
    # written back through set_target_temperature / async_set_target_temperature and must emit the same raw word
    if loop is None:
        return 1
    rigs = []
    for path, async_ in (("sync", False), ("async", True)):
        st2, cap2 = build(cfg, log, async_)
        st2.set_status_block(bytes(1024))
        rigs.append((path, st2, cap2, GeckoWaterHeater(_StubFacade(_StubSpa(st2)))))
    for unit in ("C", "F"):
        for path, st2, cap2, h2 in rigs:
            _set_unit(st2, unit)
            sp = st2.accessors["SetpointG"]
            for raw in hraws:
                _set_field(st2, sp, raw)
                shown = h2.target_temperature
                # the spa's current set point: far away, and one device step to either side of the requested one
                for start in ((raw * 7 + 13) % 65536, raw + 1, raw - 1):
                    if not 0 <= start <= 65535 or start == raw:
                        continue
                    _set_field(st2, sp, start)
                    cap2.calls.clear()
                    try:
                        if path == "sync":
                            h2.set_target_temperature(shown)
                        else:
                            loop.run_until_complete(h2.async_set_target_temperature(shown))
                        outcome = "write" if len(cap2.calls) == 1 else "nocall"
                        word = int(cap2.calls[0][2]) if cap2.calls else -1
                    except Exception as e:  # noqa
                        outcome, word = f"raised:{type(e).__name__}", -1
                    recs.append({"kind": "write", "raw": raw, "unit": unit, "path": f"heater-{path}", "outcome": outcome, "word": word})
                    meta.append((name, {"shown": shown, "via": "heater setter", "current_raw": start}))
    return 1


def run(ctx):
    ev = ctx.ev
    rng = env.rng("c14")
    r = tlc.model_check("C14_MC", "C14_MC.cfg", workers=1, timeout=600, envv={"GV_LO": 0, "GV_HI": 65535},
                        coverage=False, heap="1g")
    ctx.tlc_design("temperature laws on all 65536 raws x 2 units + hundredth-degree inputs", r)
    recs, meta = [], []
    loop = asyncio.new_event_loop()
    ps = pairs()
    by_plat = {}
    for plat, c, l in ps:
        by_plat.setdefault(plat, []).append((c, l))
    n_temp = n_heat = 0
    first = True
    for plat, lst in sorted(by_plat.items()):
        # first pair per platform that has temperature items
        done = False
        sel = lst if not ctx.quick else [lst[0], lst[-1], rng.choice(lst)]
        for c, l in sel:
            if first or not ctx.quick:
                raws = range(65536) if first else sorted({0, 1, 17, 18, 319, 320, 65535, *[rng.randrange(65536) for _ in range(400)]})
            else:
                raws = sorted({0, 1, 17, 18, 319, 320, 400, 555, 720, 65535, *[rng.randrange(65536) for _ in range(150)]})
            if first:
                dec = lambda lo, hi: range(lo, hi)
            else:
                dec = lambda lo, hi: sorted({lo, hi - 1, *[rng.randrange(lo, hi) for _ in range(80)]})
            got = temp_records(c, l, raws, dec, rng, recs, meta, loop)
            if got:
                n_temp += 1
                first = False
            n_heat += heater_records(c, l, rng, recs, meta, loop=loop,
                                     hraws=sorted({270, 540, 541, 679, 684, 702, 720, *[rng.randrange(250, 760) for _ in range(40)]}))
    # heater ladder on every pair (cheap) in the thorough tier
    if not ctx.quick:
        for plat, c, l in ps:
            n_heat += heater_records(c, l, rng, recs, meta)
    loop.close()
    if n_temp == 0 or n_heat == 0:
        raise env.MachineryError("no pack with temperature/heater items could be built")
    bad, n = tlc.judge("C14_Judge", recs, "c14", chunk=40000, jobs=12)
    for idx, why in bad:
        name, det = meta[idx]
        r_ = recs[idx]
        sig = {"kind": r_["kind"], "unit": r_.get("unit", r_.get("label")), "path": r_.get("path")}
        if r_["kind"] == "op":
            sig = {"kind": "op", "got": r_["got"], "heat": r_["heat"]["present"], "cool": r_["cool"]["present"]}
        ctx.violation(sig, {"where": name, "record": r_, **det})
    ev.cov["evaluations"] = n
    ev.cov["traces_validated_against_impl"] = n - len(bad)
    ev.cov["table_pairs_with_temperature_items"] = n_temp
    ev.cov["heater_objects"] = n_heat
    ev.cov["exhaustive"] = True
    ev.cov["distinct_nontrivial"] = len({(m[0], str(sorted(r_.items(), key=str))) for m, r_ in zip(meta, recs)})
    ev.cov["rule"] = "distinct (table pair, record) tuples; first pair gets all 65536 raws x 2 units x read + 2 write paths and every hundredth degree"
    for i in (0, 1, len(recs) // 2, len(recs) - 1):
        ev.sample({"where": meta[i][0], **recs[i]})
    ev.assumptions += [
        "floats are projected to exact rationals with Fraction(x).limit_denominator(180)",
        "the unit symbol is compared as a tag (degC/degF) to keep non-ASCII text out of TLC",
    ]
