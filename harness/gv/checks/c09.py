"""C09 — self-healing: the manager returns to CONNECTED once the spa is reachable again.

Design: spec/Lifecycle.tla with the network-health process, resets, runtime errors.  The
structural invariant PumpAlive and (under fairness) Heals == Quiet ~> CONNECTED, each in the
form "or the behaviour took a listed known-finding transition".
Binding: the real manager against the real simulator under scripted healthy / blackout /
lossy phases of many lengths, resets and at every enumerated point of discovery and
handshake; after the script's last fault the run continues for a bound computed from the live
configuration and must end CONNECTED with a facade whose block equals the simulator's, with
the pump task alive; a blackout in steady state must take the manager out of CONNECTED within
its bound.  Logs are validated by TLC against Lifecycle_Trace (same runs as C08's machinery),
measured outcomes judged by TLC (C09_Judge)."""
from .. import env, tlc, kf
from .c08 import run_scenarios, validate_runs, report, design_cfg


def bounds():
    import geckolib.config as cfg
    idle = cfg._GeckoIdleConfig()
    R, T, P = idle.PROTOCOL_RETRY_COUNT, idle.PROTOCOL_TIMEOUT_IN_SECONDS, idle.PAUSE_BETWEEN_RETRIES_IN_SECONDS
    heal = 2 * idle.PING_FREQUENCY_IN_SECONDS + 2 * idle.DISCOVERY_TIMEOUT_IN_SECONDS + 6 * R * (T + P) + 30
    out = idle.PING_DEVICE_NOT_RESPONDING_TIMEOUT_IN_SECONDS + idle.SPA_PACK_REFRESH_FREQUENCY_IN_SECONDS + 3 * R * (T + P) + 30
    return int(heal * 1000), int(out * 1000)


def outcome(r):
    heal_b, out_b = bounds()
    # time at which the network became healthy for good
    t_ok, mode = -1, "ok"
    cur = 0
    # reconstruct phase times from the script the run executed
    last_bad_end = -1
    out_from = -1
    out_len = 0
    for (t, a, arg) in r.script:
        if a == "net":
            if arg in ("blackout", "lossy", "noping", "firstlost"):
                mode = "bad"
                if arg == "blackout" and out_from < 0:
                    # was the manager CONNECTED when the blackout began?
                    st = "IDLE"
                    for e in r.log:
                        if e["k"] == "deliver" and e["t"] <= t * 1000:
                            st = e["st"]
                    if st == "CONNECTED":
                        out_from = int(t * 1000)
            else:
                mode = "ok"
                last_bad_end = int(t * 1000)
                if out_from >= 0 and out_len == 0:
                    out_len = int(t * 1000) - out_from
        if a in ("reset", "setinfo"):
            last_bad_end = max(last_bad_end, int(t * 1000))
    healthy_from = last_bad_end if mode == "ok" else 10 ** 9
    connected_at = -1
    left_at = -1
    for e in r.log:
        if e["k"] != "deliver":
            continue
        if connected_at < 0 and e["t"] >= max(0, healthy_from) and e["st"] == "CONNECTED" and e["fac"]:
            connected_at = e["t"]
        if out_from >= 0 and left_at < 0 and e["t"] >= out_from and e["st"] != "CONNECTED":
            left_at = e["t"]
    if connected_at < 0 and r.final["state"] == "CONNECTED" and healthy_from < 0:
        connected_at = 0
    # was the spa reachable throughout the discovery that ended in the last SPA_NOT_FOUND?
    nf_reach = "n/a"
    t_nf = max([e["t"] for e in r.log if e["k"] == "deliver" and e["ev"] == "SPA_NOT_FOUND"], default=None)
    if t_nf is not None:
        t_ls = max([e["t"] for e in r.log if e["k"] == "deliver" and e["ev"] == "LOCATING_STARTED" and e["t"] <= t_nf], default=0)
        # (unreachable = nothing can come back at all: a blackout or an RF-error phase; under partial loss - some
        # datagrams lost, pings lost, the first datagram of an endpoint lost - a discovery's repeated hellos get through)
        bad, m = False, "ok"
        for (t, a, arg) in sorted(r.script, key=lambda x: x[0]):
            if a != "net":
                continue
            tt = int(t * 1000)
            if tt <= t_ls:
                m = "bad" if arg in ("blackout", "rferr") else "ok"
            elif tt <= t_nf and arg in ("blackout", "rferr"):
                bad = True
        nf_reach = "spa-unreachable" if (bad or m == "bad") else "spa-reachable"
    return {"scenario": r.name, "nf_discovery": nf_reach, "healthy_from": healthy_from, "connected_at": connected_at, "bound": heal_b,
            "final": r.final["state"], "pump_alive": bool(r.final["pump_alive"]), "mirrors": bool(r.final.get("block_equal", False)),
            "out_from": out_from, "left_at": left_at, "out_len": out_len, "out_bound": out_b, "configured": True}


def run(ctx):
    ev = ctx.ev
    rng = env.rng("c09")
    r = tlc.model_check("Lifecycle", design_cfg("Lifecycle_q.cfg"), timeout=900, tag="LC-q9")
    ctx.tlc_design("Lifecycle safety incl. PumpAlive (2 connections, reset, network changes, runtime error)", r)
    # liveness under a round-robin scheduler (LifecycleLive.tla): asyncio's FIFO fairness as an explicit
    # scheduler, so that one weak-fairness condition suffices and TLC's liveness check finishes in seconds
    rl = tlc.model_check("LifecycleLive", design_cfg("LifecycleLive_q.cfg" if ctx.quick else "LifecycleLive_t.cfg"),
                         workers=12, timeout=3000, tag="LC-live", coverage=False, heap="16g")
    ctx.tlc_design("LifecycleLive: Quiet ~> CONNECTED (or a listed known-finding escape) under round-robin scheduling", rl)
    if "KF_NotFound" in kf.flags():
        rc = tlc.model_check("LifecycleLive", design_cfg("LifecycleLive_q.cfg", KF_NotFound="FALSE"), workers=8, timeout=900,
                             tag="LC-live-ctl", coverage=False)
        ev.add_tlc("the same without the ERROR_SPA_NOT_FOUND excuse: the stated property is refuted at design level (known finding D9)", rc)
        if "LHeals" not in rc.violated:
            raise env.MachineryError("liveness control (NOT_FOUND terminal) was not refuted")
    runs = run_scenarios(rng, ctx.quick, which=lambda n: not n.startswith(("susp", "sockfail", "noid:idle", "exit-")))
    pairs = validate_runs(ctx, runs, "c09")
    report(ctx, pairs)
    recs = [outcome(r_) for r_ in runs]
    bad, n = tlc.judge("C09_Judge", recs, "c09", chunk=500)
    for idx, why in bad:
        r_ = recs[idx]
        run_ = runs[idx]
        sig = {"clause": why}
        if why.startswith("not-connected") and r_["final"] == "NOT_FOUND":
            sig = {"clause": "stuck-in-state", "state": "NOT_FOUND", "discovery": r_["nf_discovery"]}
        elif why.startswith("not-connected"):
            sig["final"] = r_["final"]
        ctx.violation(sig, {"record": r_, "script": run_.script, "susp": run_.susp,
                            "last_deliveries": [(e["ev"], e["st"], e["t"]) for e in run_.log if e["k"] == "deliver"][-8:]})
    ev.cov["evaluations"] = sum(len(r_.log) for r_ in runs)
    heal = [r_["connected_at"] - max(0, r_["healthy_from"]) for r_ in recs if r_["connected_at"] >= 0 and r_["healthy_from"] >= 0]
    ev.cov["max_measured_recovery_ms"] = max(heal) if heal else None
    ev.cov["recovery_bound_ms"] = bounds()[0]
    ev.cov["distinct_nontrivial"] = len({tuple(map(str, r_.script)) for r_ in runs if r_.script})
    ev.cov["rule"] = "scenarios with at least one fault or reset, distinct by script"
    ev.sample(recs[min(3, len(recs) - 1)])
    ev.assumptions += ["bounded time is measured in virtual seconds against bounds computed from the idle configuration table",
                       "a spa identifier is configured in every scenario (the pump connects by itself)"]
