"""C05 — partial updates are applied exactly once, in arrival order, and acknowledged.

Design model spec/PartialUpdate.tla (all histories of messages / silent spa changes /
refreshes up to a depth, both handler variants; accumulating-list variant refuted as the
negative control).  Binding: real async client (full manager + facade stack on the
virtual loop, STATP injected from the simulator's own report_changes) and real threaded
client (stepped engine); every block mutation is observed at its linearisation point by
wrapping the structure object's replace_status_block_segment from the harness; TLC
validates each recorded history against PartialUpdate_Trace.
"""
import asyncio

from .. import env, tlc
from ..sessions import AsyncSession, ThreadedSession, QueueTap, inner

CFG_TRACE = """SPECIFICATION TSpec
CONSTANTS NB = 1024
          Vals = {{0}}
          Variant = "{variant}"
          ResetPolicy = "code"
          MaxSteps = 1000000
CONSTRAINT Track
POSTCONDITION Report
CHECK_DEADLOCK FALSE
"""




LIB_RAISED = []


def _run_get(s, coro):
    """a refresh the harness starts on the client's structure: an exception out of the library's own install is recorded
    (and reported as a verdict by run()); the history goes on"""
    try:
        return s.run(coro)
    except env.MachineryError:
        raise
    except Exception as e:  # noqa
        LIB_RAISED.append(f"{type(e).__name__}: {e}"[:200])
        return False

def _sim_write(sim_struct, pos, data):
    """the spa's own block changes (the harness plays the spa's firmware): written without going through the
    simulator-side items, whose decoding is not what this property is about"""
    blk = sim_struct.status_block
    data = bytes(data)
    sim_struct.set_status_block(blk[:pos] + data + blk[pos + len(data):])

def _gen_message(rng, hot, big=False):
    n = rng.choice([0, 1, 1, 1, 2, 2, 3, 5, 7])
    if big:
        n = rng.choice([100, 120, 200, 255])        # the count is one byte: up to 255 records in one message
    if rng.random() < 0.15 and not big:
        return [(rng.choice(hot), bytes([rng.randrange(256)]))]      # the simulator's 1-byte form
    out = []
    for _ in range(n):
        pos = rng.choice(hot) if rng.random() < 0.7 else rng.randrange(0, 1023)
        pos = min(pos, 1022)
        if rng.random() < 0.06:
            pos = 1023          # a word record at the block's last byte: its first byte is the block's, the second is not
        out.append((pos, bytes([rng.randrange(256), rng.randrange(256)])))
    return out


class _Watch:
    """records every install on a structure object (harness-side wrapper)."""

    def __init__(self, struct, who):
        self.rec = []
        self.who = who
        self.n = 0
        orig = struct.replace_status_block_segment

        def wrapped(offset, segment):
            self.n += 1
            self.rec.append({"by": who(), "pos": offset, "data": list(segment), "n": self.n})
            return orig(offset, segment)

        struct.replace_status_block_segment = wrapped

    def take(self):
        r, self.rec = self.rec, []
        return r


def _acks(datagrams):
    out = []
    for d in datagrams:
        c = inner(d)
        if c is not None and c.startswith(b"STATQ"):
            out.append(c[5] if len(c) == 6 else -1)
    return out


def _history_async(rng, n_msgs, rank, p_msg=0.62):
    from geckolib.driver import GeckoStatusBlockProtocolHandler
    with AsyncSession(rank=rank, rank_seed=rng.random()) as s:
        if not s.wait_connected(60):
            raise env.MachineryError("async session did not connect")
        spa = s.spa
        sim_struct = s.peer.sim.structure
        init = list(spa.struct.status_block)
        if bytes(init) != sim_struct.status_block:
            raise env.MachineryError("client block differs from simulator block after connect")
        w = _Watch(spa.struct, lambda: (asyncio.current_task().get_name() if asyncio.current_task() else "?"))
        hot = [rng.randrange(0, 1022) for _ in range(6)]
        ev = []
        tr = s.conn_transport()
        tap = QueueTap(spa._protocol, s.loop)
        def settle():
            # a refresh that overlaps a change of the spa's block is a race of the protocol
            # itself (stale bytes fetched before the change are installed after it); steps are
            # therefore taken only while no transfer is in flight
            if not s.quiesce():
                raise env.MachineryError("connection never became quiescent")
            for x in w.take():
                ev.append({"k": "refresh", "off": x["pos"], "data": x["data"][:max(0, 1024 - x["pos"])]})

        def do_msg(ch):
            settle()
            nsent = len(tr.sent)
            for pos, data in ch:
                _sim_write(sim_struct, pos, data)
            ntap = len(tap.log)
            s.inject(s.peer.push_changes(s.client_parms(), ch))
            s.advance(rng.choice([0.11, 0.25, 0.5]))
            for _ in range(30):
                # a datagram may wait behind an unclaimed head for a few polls (C07)
                if any(e["k"] == "pop" and "Partial" in e["by"] for e in tap.log[ntap:]):
                    break
                s.advance(0.1)
            s.advance(0.05)
            inst = w.take()
            applied = [{"pos": x["pos"], "data": x["data"]} for x in inst if "Partial" in x["by"]]
            others = [x for x in inst if "Partial" not in x["by"]]
            ev.append({"k": "msg", "ch": [{"pos": p, "data": list(d)} for p, d in ch],
                       "applied": applied,
                       "acks": _acks(d for (_, d, _) in tr.sent[nsent:]),
                       "queue": [{k: (v if k != "data" else v[:24].decode("latin1")) for k, v in e.items()}
                                 for e in tap.log[ntap:]][:14]})
            for x in others:
                ev.append({"k": "refresh", "off": x["pos"], "data": x["data"][:max(0, 1024 - x["pos"])]})

        def do_silent(pos, v):
            settle()
            blk = sim_struct.status_block
            sim_struct.set_status_block(blk[:pos] + bytes([v]) + blk[pos + 1:])
            ev.append({"k": "silent", "pos": pos, "v": v})

        def do_get(off, ln):
            settle()
            ok = _run_get(s, spa.struct.get(
                spa._protocol,
                lambda: GeckoStatusBlockProtocolHandler.request(
                    spa._protocol.get_and_increment_sequence_counter(False), off, ln, parms=spa.sendparms)))
            for x in w.take():
                ev.append({"k": "refresh", "off": x["pos"], "data": x["data"][:max(0, 1024 - x["pos"])]})
            # the call's return: a refresh that reports success has made the range equal the spa's
            ev.append({"k": "got", "off": off, "len": ln, "ok": bool(ok)})

        def do_msg_during_get(off, ln, ch):
            """an unsolicited STATP arrives BETWEEN the segments of the answer to an outstanding refresh; its
            positions lie outside the refreshed range (so the race of the protocol itself does not arise): it is
            applied once and acknowledged like any other, and the refresh completes with its range"""
            settle()
            nsent, ntap = len(tr.sent), len(tap.log)
            st_ = {"n": 0, "done": False}
            saved = (s.net.s2c, s.net.on_event)

            def s2c(reply, now, n):
                if b"STATV" in reply:
                    st_["n"] += 1
                    return [s.net.latency + 0.004 * st_["n"]]
                return None

            def on_ev(kind, data, transport):
                if saved[1]:
                    saved[1](kind, data, transport)
                if kind == "deliver" and transport is tr and b"STATV" in data and not st_["done"]:
                    st_["done"] = True
                    for pos, d in ch:
                        _sim_write(sim_struct, pos, d)
                    s.inject(s.peer.push_changes(s.client_parms(), ch), delay=0.001)

            s.net.s2c, s.net.on_event = s2c, on_ev
            try:
                ok = _run_get(s, spa.struct.get(
                    spa._protocol,
                    lambda: GeckoStatusBlockProtocolHandler.request(
                        spa._protocol.get_and_increment_sequence_counter(False), off, ln, parms=spa.sendparms)))
            finally:
                s.net.s2c, s.net.on_event = saved
            if not st_["done"]:
                raise env.MachineryError("no refresh segment was delivered")
            for _ in range(40):
                if any(e["k"] == "pop" and "Partial" in e["by"] for e in tap.log[ntap:]):
                    break
                s.advance(0.1)
            s.advance(0.05)
            inst = w.take()
            applied = [{"pos": x["pos"], "data": x["data"]} for x in inst if "Partial" in x["by"]]
            msg = {"k": "msg", "ch": [{"pos": p, "data": list(d)} for p, d in ch], "applied": applied,
                   "acks": _acks(d for (_, d, _) in tr.sent[nsent:]), "during_refresh": True,
                   "queue": [{k: (v if k != "data" else v[:24].decode("latin1")) for k, v in e.items()}
                             for e in tap.log[ntap:]][:14]}
            placed = False
            for x in inst:
                if "Partial" in x["by"]:
                    if not placed:
                        ev.append(msg)
                        placed = True
                else:
                    ev.append({"k": "refresh", "off": x["pos"], "data": x["data"][:max(0, 1024 - x["pos"])]})
            if not placed:
                ev.append(msg)
            ev.append({"k": "got", "off": off, "len": ln, "ok": bool(ok)})

        def do_msg_before_final(off, ln):
            """a reported change INSIDE the range of an outstanding refresh reaches the client just before the
            refresh's final segment: in arrival order the refresh comes last, so its (earlier fetched) bytes stand;
            events are logged in arrival order and carry the sequence numbers of their installs"""
            settle()
            nsent, ntap = len(tr.sent), len(tap.log)
            nseg = -(-ln // 39)
            pos = off + rng.randrange(0, ln - 1)
            cur = sim_struct.status_block[pos:pos + 2]
            ch = [(pos, bytes([(cur[0] + 1 + rng.randrange(255)) % 256, cur[1]]))]
            st_ = {"n": 0, "done": False, "fetch": None}
            saved = (s.net.s2c, s.net.on_event)

            def s2c(reply, now, n):
                if b"STATV" in reply:
                    if st_["fetch"] is None:
                        st_["fetch"] = list(sim_struct.status_block[off:off + nseg * 39])
                    st_["n"] += 1
                    return [s.net.latency + 0.004 * st_["n"]]
                return None

            def on_ev(kind, data, transport):
                if saved[1]:
                    saved[1](kind, data, transport)
                c = inner(data) or b""
                if kind == "deliver" and transport is tr and c[:5] == b"STATV" and c[5] == nseg - 2 and not st_["done"]:
                    st_["done"] = True
                    for p_, d_ in ch:
                        _sim_write(sim_struct, p_, d_)
                    s.inject(s.peer.push_changes(s.client_parms(), ch), delay=0.001)

            s.net.s2c, s.net.on_event = s2c, on_ev
            try:
                ok = _run_get(s, spa.struct.get(
                    spa._protocol,
                    lambda: GeckoStatusBlockProtocolHandler.request(
                        spa._protocol.get_and_increment_sequence_counter(False), off, ln, parms=spa.sendparms)))
            finally:
                s.net.s2c, s.net.on_event = saved
            if not st_["done"]:
                raise env.MachineryError("the segment before the final one was never delivered")
            for _ in range(40):
                if any(e["k"] == "pop" and "Partial" in e["by"] for e in tap.log[ntap:]):
                    break
                s.advance(0.1)
            s.advance(0.05)
            inst = w.take()
            part = [x for x in inst if "Partial" in x["by"]]
            refr = [x for x in inst if "Partial" not in x["by"]]
            ev.append({"k": "fetch", "off": off, "data": st_["fetch"]})
            ev.append({"k": "msg", "ch": [{"pos": p_, "data": list(d_)} for p_, d_ in ch],
                       "applied": [{"pos": x["pos"], "data": x["data"]} for x in part],
                       "acks": _acks(d for (_, d, _) in tr.sent[nsent:]), "before_final_segment": True,
                       "n": part[0]["n"] if part else 0, "queue": []})
            for x in refr:
                ev.append({"k": "refresh", "off": x["pos"], "data": x["data"][:max(0, 1024 - x["pos"])], "n": x["n"]})
            ev.append({"k": "got", "off": off, "len": ln, "ok": bool(ok), "raced": True})

        def do_msg_before_ping(delta):
            """a reported change reaches the client `delta` seconds before the ping loop's next request"""
            settle()
            def pings():
                return [t for (t, d, _), by in zip(tr.sent, tr.sent_by) if by == "SPA:Ping loop"]
            t0 = s.loop.time()
            while len(pings()) < 2 and s.loop.time() - t0 < 400:
                s.advance(1.0)
            ps_ = pings()
            if len(ps_) < 2:
                raise env.MachineryError("no two pings observed")
            from geckolib.config import GeckoConfig as _GC
            period = ps_[-1] - ps_[-2]
            if period < 0.9 * _GC.PING_FREQUENCY_IN_SECONDS:
                period = _GC.PING_FREQUENCY_IN_SECONDS + 0.1      # (the first pings of a connection are irregular)
            target = ps_[-1] + period - delta
            while target <= s.loop.time() + 0.3:
                target += period
            s.advance(target - s.loop.time())
            nsent, ntap = len(tr.sent), len(tap.log)
            lim = max(4, spa.log_class.begin - 2)
            ch = [(rng.randrange(0, lim), bytes([rng.randrange(256), rng.randrange(256)]))]
            _sim_write(sim_struct, *ch[0])
            s.inject(s.peer.push_changes(s.client_parms(), ch))
            for _ in range(60):
                if any(e["k"] == "pop" and "Partial" in e["by"] for e in tap.log[ntap:]):
                    break
                s.advance(0.1)
            s.advance(0.3)
            inst = w.take()
            applied = [{"pos": x["pos"], "data": x["data"]} for x in inst if "Partial" in x["by"]]
            placed = False
            hit = any(target - 0.001 <= t <= target + delta + 0.25 for t in pings())
            msg = {"k": "msg", "ch": [{"pos": p_, "data": list(d_)} for p_, d_ in ch], "applied": applied,
                   "acks": _acks(d for (_, d, _) in tr.sent[nsent:]), "before_ping": delta, "ping_followed": hit, "queue": []}
            for x in inst:
                if "Partial" in x["by"]:
                    if not placed:
                        ev.append(msg)
                        placed = True
                else:
                    ev.append({"k": "refresh", "off": x["pos"], "data": x["data"][:max(0, 1024 - x["pos"])]})
            if not placed:
                ev.append(msg)

        def do_burst(K):
            """K one-record messages back to back (faster than the consumers drain the receive queue); positions lie
            below the log section, which is all that the periodic refresh fetches"""
            settle()
            nsent, ntap = len(tr.sent), len(tap.log)
            lim = max(4, spa.log_class.begin - 2)
            chs = []
            for j in range(K):
                pos = rng.randrange(0, lim)
                ch = [(pos, bytes([rng.randrange(256), rng.randrange(256)]))]
                if chs and rng.random() < 0.3:
                    ch = list(chs[-1])        # the spa reports the same word again: a byte-identical datagram
                _sim_write(sim_struct, *ch[0])
                chs.append(ch)
                s.inject(s.peer.push_changes(s.client_parms(), ch), delay=0.0005 * j)
            for _ in range(K * 4 + 60):
                if sum(1 for e in tap.log[ntap:] if e["k"] == "pop" and "Partial" in e["by"]) >= K:
                    break
                s.advance(0.1)
            s.advance(0.25)
            inst = w.take()
            acks = _acks(d for (_, d, _) in tr.sent[nsent:])
            j = 0

            def msg(j, applied):
                return {"k": "msg", "ch": [{"pos": p_, "data": list(d_)} for p_, d_ in chs[j]], "applied": applied,
                        "acks": acks[j:j + 1] if j < K - 1 else acks[j:], "burst": K, "queue": []}

            for x in inst:
                if "Partial" in x["by"] and j < K:
                    ev.append(msg(j, [{"pos": x["pos"], "data": x["data"]}]))
                    j += 1
                elif "Partial" in x["by"]:
                    ev[-1]["applied"].append({"pos": x["pos"], "data": x["data"]})
                else:
                    ev.append({"k": "refresh", "off": x["pos"], "data": x["data"][:max(0, 1024 - x["pos"])]})
            while j < K:
                ev.append(msg(j, []))
                j += 1

        aborted = ""
        for i in range(n_msgs):
          try:
              r = rng.random()
              if i == 7:
                  # the operating system reports a transient error of an earlier send (asyncio hands it to the protocol's
                  # error_received and leaves the endpoint open): the updates that follow are applied AND acknowledged
                  spa._protocol.error_received(OSError(101, "Network is unreachable"))
                  s.advance(0.05)
              if i == 8:
                  do_burst(rng.choice([36, 48]))
              elif i in (14, 21):
                  ln = rng.choice([78, 117])
                  do_msg_before_final(rng.randrange(0, max(1, spa.log_class.begin - ln - 39)), ln)
              elif i == 17:
                  for delta in (0.05, 0.12, 0.19, 0.02):
                      do_msg_before_ping(delta)
              elif i in (5, 11) or r > 0.97:
                  ln = rng.choice([40, 78, 100, 200])
                  off = rng.randrange(0, 1024 - ln)
                  # (the simulator answers in whole 39-byte segments: the bytes actually fetched may exceed `ln`)
                  # (a periodic refresh of the log section may be the one in flight: positions also lie below it)
                  outside = [p for p in list(range(0, off - 1)) + list(range(off + -(-ln // 39) * 39, 1022))
                             if p < spa.log_class.begin - 1]
                  if not outside:
                      continue
                  ch = [(rng.choice(outside), bytes([rng.randrange(256), rng.randrange(256)]))
                        for _ in range(rng.choice([1, 2, 3]))]
                  do_msg_during_get(off, ln, ch)
              elif r < 0.04 or i == 3:
                  # a value that comes back: refresh, reported change, unreported change back, the
                  # same refresh again (byte-identical to the first)
                  pos = rng.choice(hot)
                  off = max(0, pos - rng.randrange(0, 40))
                  ln = min(rng.choice([2, 39, 40, 100]), 1024 - off)
                  old = sim_struct.status_block[pos]
                  do_get(off, ln)
                  do_msg([(pos, bytes([(old + 1 + rng.randrange(255)) % 256, sim_struct.status_block[pos + 1]]))])
                  do_silent(pos, old)
                  do_get(off, ln)
              elif r < p_msg or i == 12:
                  do_msg(_gen_message(rng, hot, big=(i == 12)))
              elif r < p_msg + 0.18:
                  pos = rng.choice(hot)
                  do_silent(pos, (sim_struct.status_block[pos] + 1 + rng.randrange(255)) % 256)
              else:
                  pos = rng.choice(hot)
                  off = max(0, pos - rng.randrange(0, 40))
                  do_get(off, min(rng.choice([1, 2, 39, 40, 100]), 1024 - off))
          except env.MachineryError as e:
            # the history cannot go on (the client no longer behaves in a way the harness can drive): what was recorded
            # up to here is judged; run() raises the error if that shows nothing
            aborted = str(e)
            break
        for x in w.take():
            ev.append({"k": "refresh", "off": x["pos"], "data": x["data"][:max(0, 1024 - x["pos"])]})
        ev.append({"k": "final", "block": list(spa.struct.status_block[:1024])})
        return {"init": init[:1024], "ev": ev, "variant": "async", "rank": rank, "aborted": aborted}


def _history_sync(rng, n_msgs, p_msg=0.62):
    with ThreadedSession() as s:
        sim_struct = s.peer.sim.structure
        hot = [rng.randrange(0, 1022) for _ in range(6)]
        ev = []
        # partial updates that arrive during the handshake, before the first full block: each is
        # acknowledged, and none of its records may come back with a later message
        for k in range(rng.choice([1, 2])):
            for _ in range(400):
                s.pump(1)
                if any((inner(d) or b"").startswith((b"CURCH", b"SFILE", b"STATU")[k:k + 1] or b"STATU") for d in s.wire()):
                    break
            if s.facade.is_connected:
                break
            ch = _gen_message(rng, hot) or [(hot[0], bytes([rng.randrange(256), rng.randrange(256)]))]
            for pos, data in ch:
                _sim_write(sim_struct, pos, data)
            nsent = len(s.sock.wire)
            s.inject(s.peer.push_changes(s.client_parms(), ch))
            for _ in range(60):              # behind queued handshake traffic and the send throttle
                s.pump(1)
                if _acks(s.wire()[nsent:]):
                    break
            s.pump(3)
            ev.append({"k": "early", "ch": [{"pos": p_, "data": list(d)} for p_, d in ch], "acks": _acks(s.wire()[nsent:])})
        if not s.wait_connected():
            raise env.MachineryError("threaded session did not connect")
        spa = s.spa
        s.pump(40)
        init = list(spa.struct.status_block)
        if bytes(init) != sim_struct.status_block:
            s.next_periodic_refresh()
            init = list(spa.struct.status_block)
        w = _Watch(spa.struct, lambda: "engine")

        def lossy_refresh_with_change():
            """the periodic refresh loses a middle segment of its first answer; while that answer is still coming in the
            spa reports a change inside a segment that was already received; the refresh is re-requested (the final
            segment arrives out of sequence) and what it installs is the second answer, which carries the change"""
            b0 = spa.new_log_class.begin
            pos = b0 + 39 + rng.randrange(2, 30)
            st_ = {"phase": 0}
            box = {}

            def drop(data, direction):
                if direction != "s2c":
                    return False
                c = inner(data) or b""
                if c[:5] != b"STATV":
                    return False
                if st_["phase"] == 0 and c[5] == 3:
                    st_["phase"] = 1
                    return True                      # the lost middle segment
                if st_["phase"] == 1 and c[5] >= 6:
                    st_["phase"] = 2                 # well past the segment that holds `pos`: the spa changes it now
                    cur = sim_struct.status_block[pos:pos + 2]
                    ch = [(pos, bytes([(cur[0] + 1 + rng.randrange(255)) % 256, cur[1]]))]
                    _sim_write(sim_struct, *ch[0])
                    box["ch"] = ch
                    box["nsent"] = len(s.sock.wire)
                    s.inject(s.peer.push_changes(s.client_parms(), ch))
                return False
            s.drop = drop
            try:
                for _ in range(6000):
                    s.pump(1, dt=0.05)
                    if st_["phase"] == 2:
                        break
                if st_["phase"] != 2:
                    raise env.MachineryError("the periodic refresh did not come (lossy refresh step)")
                if not s.settle():
                    raise env.MachineryError("the re-requested refresh did not complete")
            finally:
                s.drop = None
            s.pump(4)
            inst = w.take()
            ch = box["ch"]
            part = [x for x in inst if x["pos"] == pos and len(x["data"]) == 2]
            refr = [x for x in inst if not (x["pos"] == pos and len(x["data"]) == 2)]
            ev.append({"k": "msg", "ch": [{"pos": p_, "data": list(d_)} for p_, d_ in ch],
                       "applied": [{"pos": x["pos"], "data": x["data"]} for x in part],
                       "acks": _acks(s.wire()[box["nsent"]:]), "during_lossy_refresh": True})
            for x in refr:
                ev.append({"k": "refresh", "off": x["pos"], "data": x["data"][:max(0, 1024 - x["pos"])]})
            ev.append({"k": "got", "off": b0, "len": min(spa.new_log_class.end, 1024 - b0), "ok": True})

        for i in range(n_msgs):
            r = rng.random()
            if i in (9, 23):
                if not s.settle():
                    raise env.MachineryError("threaded session never became quiescent before the lossy refresh step")
                for x in w.take():
                    ev.append({"k": "refresh", "off": x["pos"], "data": x["data"][:max(0, 1024 - x["pos"])]})
                lossy_refresh_with_change()
                continue
            if not s.settle():
                raise env.MachineryError("threaded session never became quiescent: " + repr({
                    "pending": s.transfer_pending(), "inbox": len(s.sock.inbox), "t": s.w2.clock.t,
                    "due": [(round(r["wake"] - s.w2.clock.t, 2), r["done"]) for r in s.w2.coop.recs],
                    "handlers": [(type(h).__name__, getattr(h, "_retry_count", None), bool(h.should_remove_handler)) for h in s.spa._receive_handlers]}))
            for x in w.take():
                ev.append({"k": "refresh", "off": x["pos"], "data": x["data"][:max(0, 1024 - x["pos"])]})
            if i == 10:
                # the spa has nothing to report for a good five minutes (pings and periodic refreshes go on): the
                # updates that follow are applied and acknowledged like the ones before
                s.pump(int(320 / 0.05), dt=0.05)
                if not s.settle():
                    raise env.MachineryError("threaded session never became quiescent after the quiet spell: " + repr({
                        "pending": s.transfer_pending(), "inbox": len(s.sock.inbox), "t": s.w2.clock.t,
                        "handlers": [(type(h).__name__, getattr(h, "_retry_count", None), bool(h.should_remove_handler)) for h in s.spa._receive_handlers]}))
                for x in w.take():
                    ev.append({"k": "refresh", "off": x["pos"], "data": x["data"][:max(0, 1024 - x["pos"])]})
            nsent = len(s.sock.wire)
            if r < p_msg or i == 12 or i == 10:
                ch = _gen_message(rng, hot, big=(i == 12))
                for pos, data in ch:
                    _sim_write(sim_struct, pos, data)
                s.inject(s.peer.push_changes(s.client_parms(), ch))
                s.pump(6)
                inst = w.take()
                ev.append({"k": "msg", "ch": [{"pos": p, "data": list(d)} for p, d in ch],
                           "applied": [{"pos": x["pos"], "data": x["data"]} for x in inst],
                           "acks": _acks(s.wire()[nsent:])})
            elif r < p_msg + 0.18:
                pos = rng.choice(hot)
                v = (sim_struct.status_block[pos] + 1 + rng.randrange(255)) % 256
                blk = sim_struct.status_block
                sim_struct.set_status_block(blk[:pos] + bytes([v]) + blk[pos + 1:])
                ev.append({"k": "silent", "pos": pos, "v": v})
            else:
                if not s.next_periodic_refresh():
                    raise env.MachineryError("the ping thread did not refresh within 200 s")
                inst = w.take()
                for x in inst:
                    ev.append({"k": "refresh", "off": x["pos"], "data": x["data"][:max(0, 1024 - x["pos"])]})
                # fire-and-forget in this stack: completion is known because the stepped network loses
                # nothing and the engine has drained; the range is the one refresh() asks for
                b = spa.new_log_class.begin
                ev.append({"k": "got", "off": b, "len": min(spa.new_log_class.end, 1024 - b), "ok": True})
        ev.append({"k": "final", "block": list(spa.struct.status_block[:1024])})
        return {"init": init[:1024], "ev": ev, "variant": "sync"}


def run(ctx):
    ev = ctx.ev
    rng = env.rng("c05")
    # ---- design models -------------------------------------------------------
    for variant in ("async", "sync"):
        r = tlc.model_check("PartialUpdate", f"PartialUpdate_{variant}.cfg", timeout=900,
                            tag=f"PU-{variant}")
        ctx.tlc_design(f"PartialUpdate {variant}: all histories of <=4 messages/silent changes/refreshes", r)
    r = tlc.model_check("PartialUpdate", "PartialUpdate_async_ctl.cfg", timeout=900, tag="PU-ctl", coverage=False)
    ev.add_tlc("negative control: change list never reset (must be refuted)", r)
    if "AppliedOnceInOrder" not in r.violated:
        raise env.MachineryError("negative control not refuted")

    # ---- real histories ------------------------------------------------------------
    logs = []
    del LIB_RAISED[:]
    n_hist = 6 if ctx.quick else 60
    n_msgs = 40 if ctx.quick else 120
    deferred = None
    try:
        for i in range(n_hist):
            logs.append(_history_async(rng, n_msgs, rng.choice(["stable", "perm", "reverse", "perm"])))
            logs.append(_history_sync(rng, n_msgs))
        # one long history per stack so that the acknowledgement counter passes its wrap
        logs.append(_history_async(rng, 230, "stable", p_msg=0.95))
        logs.append(_history_sync(rng, 230, p_msg=0.95))
    except env.MachineryError as e:
        # a client that never settles may be the library's doing (a handler that replays its records for ever): the
        # histories recorded so far are judged first; the error stands if they show nothing
        deferred = e
    for what in sorted(set(LIB_RAISED))[:5]:
        ctx.violation({"clause": "install-raised-out-of-the-library", "exc": what.split(":")[0]}, {"exception": what})
    import os, json as _j
    if os.environ.get("GV_DUMP"):
        _j.dump(logs, open(os.environ["GV_DUMP"], "w"))
    nontriv = set()
    for variant in ("async", "sync"):
        group = [l for l in logs if l["variant"] == variant]
        verdicts, _ = tlc.validate("PartialUpdate_Trace", group, f"c05-{variant}",
                                   CFG_TRACE.format(variant=variant), chunk=4, heap="2g", jobs=8)
        for lg, v in zip(group, verdicts):
            for e in lg["ev"]:
                if e["k"] == "msg":
                    nontriv.add((variant, tuple((c["pos"], tuple(c["data"])) for c in e["ch"])))
            if v["accepted"]:
                ev.cov["traces_validated_against_impl"] += 1
            else:
                k = v["matched"]
                e = lg["ev"][k] if k < len(lg["ev"]) else {"k": "end"}
                clause = (v["why"] or ["event does not match the specification"])[0]
                if e["k"] == "got" and not v["why"]:
                    clause = "refresh-reported-success-but-range-differs-from-spa"
                if e["k"] == "msg" and not v["why"]:
                    if len(e["acks"]) != 1:
                        clause = "one-ack-per-message"
                    elif not (1 <= e["acks"][0] <= 191):
                        clause = "ack-in-protocol-range"
                    else:
                        clause = "applied-once-in-order"
                ctx.violation({"clause": clause, "variant": variant, "event": e["k"]},
                              {"history_index": logs.index(lg), "matched": k, "of": len(lg["ev"]),
                               "event": {kk: vv for kk, vv in e.items() if kk != "block"},
                               "previous": [{kk: vv for kk, vv in x.items() if kk != "block"} for x in lg["ev"][max(0, k - 2):k]]})
    if deferred is not None and not ctx.new:
        raise deferred
    ab = [l["aborted"] for l in logs if l.get("aborted")]
    if ab and not ctx.new:
        raise env.MachineryError(ab[0])
    ev.cov["statp_just_before_a_ping"] = sum(1 for l in logs for e in l["ev"] if e.get("ping_followed"))
    ev.cov["statp_before_the_final_segment_of_a_refresh"] = sum(1 for l in logs for e in l["ev"] if e.get("before_final_segment"))
    if not ev.cov["statp_just_before_a_ping"] and not ctx.new:
        raise env.MachineryError("no partial update was placed just before a ping")
    ev.cov["evaluations"] += sum(len(l["ev"]) for l in logs)
    ev.cov["distinct_nontrivial"] = len(nontriv)
    ev.cov["rule"] = "distinct STATP change lists delivered to a real client (positions, data), both stacks"
    ev.sample({"history": logs[0]["variant"], "events": [
        {k: v for k, v in e.items() if k not in ("block",)} for e in logs[0]["ev"][:5]]})
    ev.assumptions += [
        "a word record at the block's last byte is judged on the byte that lies inside the block (positions 0..1023); that the "
        "client's copy grows by the other byte is not examined",
        "the 1-byte record form is only generated as the sole record of a message (the form the simulator emits)",
        "installs are observed by wrapping replace_status_block_segment on the structure instance",
    ]
