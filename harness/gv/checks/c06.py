"""C06 — request engine: bounded retries, one request in flight, every caller completes.

Design: spec/AsyncEngine.tla at poll granularity (FIFO lock, callers with retry / timeout /
pause, consumers incl. the two-phase Unhandled consumer, arbitrary in-tick order, reply
loss / lateness): MutualExclusion, HolderIsTheBusyOne, AttemptsBounded,
ReplyOnlyIfDelivered, FailOnlyAfterAllAttempts, CallBound (R*(T+P)+R+1 polls).
Binding: the real GeckoAsyncSpa on the virtual loop with its real consumer tasks and
ping / refresh / facade loops; 1..8 concurrent harness-started API calls (water care,
reminders, key press, set value), seeded reply loss / delay / duplication, closed gates;
every send, queue put/mark/pop (with the acting task), call start and return is logged
in execution order and validated by TLC against AsyncEngine_Trace."""
import asyncio
import json

from .. import env, tlc
from ..engine import EngineScenario, NoConnection, merge, ms

CFG = """SPECIFICATION TSpec
CONSTANTS R = {R}
          T = {T}
          P = {P}
          Poll = {poll}
          Eps = 12
CONSTRAINT Track
POSTCONDITION Report
CHECK_DEADLOCK FALSE
"""


def consts():
    from geckolib.config import GeckoConfig
    from geckolib.const import GeckoConstants
    return {"R": GeckoConfig.PROTOCOL_RETRY_COUNT, "T": ms(GeckoConfig.PROTOCOL_TIMEOUT_IN_SECONDS),
            "P": ms(GeckoConfig.PAUSE_BETWEEN_RETRIES_IN_SECONDS), "poll": ms(GeckoConstants.ASYNCIO_SLEEP_TIMEOUT_FOR_YIELD)}


def scenario(rng, kind):
    late = kind.endswith("-late")           # gate scenarios: the calls come after the not-responding declaration
    if late:
        kind = kind[:-5]
    snap = env.REPO + "/tests/snapshots/inXM-Pump 1 running-2020-12-08 19_54_01.snapshot" if kind in ("gate-active", "active-lossy") else None
    sc = EngineScenario(rng, rank=rng.choice(["stable", "perm", "reverse"]), snapshot=snap)
    try:
        s = sc.s
        net = s.net
        p_loss = rng.choice([0, 0, 0.15, 0.3])
        p_late = rng.choice([0, 0.1, 0.3])
        p_dup = rng.choice([0, 0.2])

        p_foreign = rng.choice([0, 0, 0.12])

        def s2c(data, now, n):
            x = rng.random()
            if p_foreign and rng.random() < p_foreign and b"<DESCN>" in data:
                # the spa's answer to ANOTHER client of the same spa reaches this endpoint while our own answer is
                # lost: it is not a reply that was delivered for our request
                import re as _re
                s.inject(_re.sub(rb"<DESCN>.*?</DESCN>", b"<DESCN>IOSanother-client</DESCN>", data, count=1), delay=0.012)
                return []
            if x < p_loss:
                return []
            if x < p_loss + p_late:
                return [rng.choice([0.35, 1.2, 3.9, 4.3, 6.5])]
            if x < p_loss + p_late + p_dup:
                return [0.01, rng.choice([0.02, 0.25, 2.0])]
            return [0.01]
        if kind == "active-lossy":
            # a pump is running: the ACTIVE table is installed, and its retry count / timeout / pause are the
            # configured ones for this scenario (read below, after the switch); every reply is lost
            from geckolib.config import GeckoConfig
            if GeckoConfig.PING_FREQUENCY_IN_SECONDS > 10:
                raise env.MachineryError("active configuration was not selected with a pump running")
            p_loss, p_late, p_dup = 1.0, 0.0, 0.0
        if kind == "stall":
            sc.stalls(env.rng(f"c06-stall-{rng.random()}"))
        if kind == "chatter":
            # replies are mostly lost while the spa keeps sending unsolicited partial updates: an attempt's
            # timeout runs from its own transmission, whatever else arrives in the meantime
            p_loss, p_late, p_dup = rng.choice([0.6, 0.85, 1.0]), 0.0, 0.0
            period = rng.choice([0.07, 0.13, 0.7, 1.9])
            sim_struct = s.peer.sim.structure

            foreign_share = rng.choice([0.0, 0.5, 1.0])

            def chat():
                if sc.s.loop.is_closed() or getattr(sc, "_stop_chat", False):
                    return
                if rng.random() < foreign_share:
                    # traffic that is not for this client at all (another client's frames, broken framing, unknown
                    # verbs): it has no effect - in particular it does not keep a lost request waiting
                    s.inject(rng.choice(_foreign(sc.spa)))
                else:
                    pos = rng.randrange(0, 1022)
                    data = bytes([rng.randrange(256), rng.randrange(256)])
                    sim_struct.replace_status_block_segment(pos, data)
                    s.inject(s.peer.push_changes(s.client_parms(), [(pos, data)]))
                s.loop.call_later(period, chat)
            s.loop.call_later(period, chat)
        if kind == "down":
            # the connection's transport is lost while calls are in progress or queued: every one of them still
            # returns (its remaining attempts are silent), none waits for ever
            pass            # (the engine scenario logs the loss of the transport itself)
        if not kind.startswith("gate") and kind not in ("overlap", "cancel"):
            net.s2c = s2c
        n_calls = rng.choice([1, 2, 3, 5, 8]) if kind != "active-lossy" else 1
        if kind == "cancel":
            n_calls = 3
        if kind == "overlap":
            n_calls = rng.choice([1, 2, 3])
        if kind == "down":
            n_calls = rng.choice([2, 3, 5, 8])
            close_after = rng.randrange(1, n_calls + 1)        # the transport goes right after this many calls started
        live = consts()          # the table in force while the calls run
        if kind in ("gate", "gate-active"):
            # the spa stops answering: after 2 x ping frequency the freshness gate closes
            from geckolib.config import GeckoConfig, set_config_mode
            if kind == "gate-active":
                # a pump is running in this snapshot: the facade has selected the active table
                if GeckoConfig.PING_FREQUENCY_IN_SECONDS > 10:
                    raise env.MachineryError("active configuration was not selected with a pump running")
                s.advance(GeckoConfig.PING_FREQUENCY_IN_SECONDS + 0.5)
                s.quiesce()
            net.blackhole = True
            # while the spa is silent, traffic that is not for this client keeps arriving: it is no sign of life
            fp = GeckoConfig.PING_FREQUENCY_IN_SECONDS / 3.0

            def foreign_chat():
                if sc.s.loop.is_closed() or getattr(sc, "_stop_chat", False):
                    return
                s.inject(rng.choice(_foreign(sc.spa)))
                s.loop.call_later(fp, foreign_chat)
            s.loop.call_later(fp, foreign_chat)
            s.advance(GeckoConfig.PING_FREQUENCY_IN_SECONDS * 2 + (1.5 if kind == "gate-active" else 30))
            if late:
                # ... and stays silent until the client has declared it not responding; the calls arrive shortly
                # after that declaration (the gate stays closed: no ping has been answered since)
                n0 = len(s.events)
                t0 = s.loop.time()
                while (not any(e["ev"] == "RUNNING_PING_NO_RESPONSE" for e in s.events[n0:])
                       and s.loop.time() - t0 < 600):
                    s.advance(0.5)
                s.advance(rng.choice([0.05, 0.4, GeckoConfig.PING_FREQUENCY_IN_SECONDS * 0.9]))
                # ... and a whole refresh period after it: the background callers (refresh loop, facade update) wake up
                # behind a gate that closed while they slept
                s.advance(GeckoConfig.SPA_PACK_REFRESH_FREQUENCY_IN_SECONDS + 3)
            for i in range(n_calls):
                name, api = rng.choice(sc.apis())
                sc.start_call(api, gated=True)
                s.advance(rng.choice([0, 0.05, 0.3]))
            s.advance(5)
        else:
            t_end = 0
            if kind == "overlap":
                # the calls arrive while the refresh loop's status-block request is in flight: that loop issues its
                # next request (channel) in the very iteration in which it releases the lock - behind the callers
                # that were already waiting, not ahead of them
                from ..sessions import inner as _inner
                n0 = len(sc.tr.sent)
                t0 = s.loop.time()

                def seen():
                    return any(by == "SPA:Refresh loop" and (_inner(d) or b"").startswith(b"STATU")
                               for (_, d, _), by in zip(sc.tr.sent[n0:], sc.tr.sent_by[n0:]))
                while not seen() and s.loop.time() - t0 < 600:
                    s.advance(0.02)
                overlap_ok = seen()
                net.s2c = s2c            # (faults only from here on: a lossy wait would end in a reconnection)
            for i in range(n_calls):
                name, api = rng.choice(sc.apis())
                sc.start_call(api, gated=True)
                if kind == "cancel":
                    continue
                if kind == "down":
                    s.advance(rng.choice([0, 0, 0.05]))
                    if i + 1 == close_after:
                        sc.tr.close()
                        s.advance(rng.choice([0, 0.05]))
                    continue
                s.advance(0 if kind == "overlap" else rng.choice([0, 0, 0.05, 0.13, 0.5, 2.0]))
            if kind == "cancel":
                # the first caller's owner gives up on it just after its answer was taken from the queue (a deadline
                # that fires as the reply arrives): whatever that does to the first call, the others are served
                t0_ = s.loop.time()
                first = sc.tasks[0].get_name()
                while s.loop.time() - t0_ < 60:
                    if any(e["k"] == "pop" and e["by"] == first for e in sc.tap.log):
                        break
                    s.advance(0.01)
                s.advance(rng.choice([0.01, 0.03, 0.06, 0.09]))
                sc.tasks[0].cancel()
            # let every call finish (worst case R x (T + P))
            c = consts()
            # every call completes: the explicit calls queue behind each other AND behind the background callers
            # (ping, refresh, facade update: up to R x (T + P) each when their replies are lost too), so the
            # wait is generous - virtual time is cheap; the per-call duration bound is the trace specification's
            limit = (c["R"] * (c["T"] + c["P"]) / 1000.0 + 5) * (n_calls + 12)
            t0 = s.loop.time()
            while any(not t.done() for t in sc.tasks) and s.loop.time() - t0 < limit:
                s.advance(0.5)
        sc._stop_chat = True
        pending = [t.get_name() for t in sc.tasks if not t.done()]
        # the background callers (ping loop, refresh loop, facade update) are callers of the engine too: a loop that
        # ended with an exception has neither a reply nor a failure
        died = []
        for t in s.loop.tasks:
            if t.get_name() in ("SPA:Ping loop", "SPA:Refresh loop", "FACADE:Facade update") and t.done() and not t.cancelled():
                exc = t.exception()
                if exc is not None:
                    died.append({"task": t.get_name(), "exc": type(exc).__name__, "msg": str(exc)[:120]})
        ev = merge(sc)
        return {"ev": ev, "kind": kind, "pending": pending, "ncalls": n_calls, "consts": live,
                "overlap_ok": bool(locals().get("overlap_ok", False)), "died": died}
    finally:
        for t in sc.tasks:
            if not t.done():
                t.cancel()
        sc.close()


def _foreign(spa):
    from .c07 import frame
    sid, cid = spa.descriptor.identifier, spa.client_id
    return [frame(sid, b"IOSsomeone-else", b"STATP\x01\x01\x2c\xbe\xef"), frame(sid, b"IOSsomeone-else", b"APING\x00"),
            frame(b"SPA99:99:99:99:99:99", cid, b"WCGET\x01"), b"<PACKT>no tags at all</PACKT>",
            frame(sid, cid, b"XYZZY\x01"), b"stray bytes"]


def clause_for(e):
    if e.get("k") == "put" and e.get("requeue"):
        return "content-requeued-without-a-wellformed-addressed-frame (or head-of-line)"
    return {"send": "send-violates-one-in-flight/arrival-order/retry-bound/freshness/gate",
            "ret": "return-value-or-duration", "pop": "pop-by-non-acceptor-or-out-of-order",
            "call": "call", "put": "head-of-line", "mark": "mark",
            "bgcall": "background-query-started-behind-a-closed-gate"}.get(e.get("k"), e.get("k"))


def run(ctx):
    ev = ctx.ev
    rng = env.rng("c06")
    r = tlc.model_check("AsyncEngine", "AsyncEngine_c06.cfg", timeout=900, tag="AE-c06")
    ctx.tlc_design("AsyncEngine: 2 callers, R=2, T=2, P=1, 1 lost + 1 late reply, consumers in arbitrary in-tick order", r)
    if not ctx.quick:
        r = tlc.model_check("AsyncEngine", "AsyncEngine_q.cfg", timeout=2400, tag="AE-full", heap="24g")
        ev.add_tlc("AsyncEngine: larger configuration (junk, stall, 2 lost) under an outer timeout", r)
        if r.violated:
            raise env.MachineryError(f"design model violates {r.violated}")
    logs = []
    n = 24 if ctx.quick else 400
    for i in range(n):
        kind = "cancel" if i % 8 == 0 and i > 0 else "overlap" if i % 8 == 2 else "down" if i % 8 == 4 else "gate" if i % 8 == 7 else "gate-active" if i % 8 == 3 else "chatter" if i % 8 == 5 else "stall" if i % 8 == 1 else "active-lossy" if i % 8 == 6 else "calls"
        if kind.startswith("gate") and (i // 8) % 2 == 1:
            kind += "-late"
        try:
            logs.append(scenario(rng, kind))
        except NoConnection as e:
            # the handshake's own requests are callers of the engine: on a fault-free network against the bundled
            # simulator every one of them completes
            ctx.violation({"clause": "connection-cannot-be-established-on-a-fault-free-network"}, {"scenario": kind, "what": str(e)})
            break
    # logs are validated against the configuration that was in force while they ran
    groups = {}
    for lg in logs:
        groups.setdefault(json.dumps(lg["consts"], sort_keys=True), []).append(lg)
    pairs_ = []
    for gi, (ck, group) in enumerate(sorted(groups.items())):
        verdicts, _ = tlc.validate("AsyncEngine_Trace", group, f"c06-{gi}", CFG.format(**json.loads(ck)), chunk=6, heap="2g", jobs=12)
        pairs_ += list(zip(group, verdicts))
    nontriv = set()
    for lg, v in pairs_:
        if lg["pending"]:
            ctx.violation({"clause": "call-never-returned"}, {"pending": lg["pending"], "tail": lg["ev"][-12:]})
        for dd in lg["died"]:
            ctx.violation({"clause": "background-caller-ended-with-an-exception", "task": dd["task"], "exc": dd["exc"]},
                          {"scenario": lg["kind"], **dd})
        key = tuple((e["k"], e.get("c"), e.get("verb"), e.get("result")) for e in lg["ev"] if e["k"] in ("call", "send", "ret"))
        if lg["ncalls"] >= 2:
            nontriv.add(key)
        if v["accepted"]:
            ev.cov["traces_validated_against_impl"] += 1
        else:
            k = v["matched"]
            e = lg["ev"][k] if k < len(lg["ev"]) else {"k": "end"}
            ctx.violation({"clause": clause_for(e), "event": e.get("k"), "scenario": lg["kind"]},
                          {"matched": k, "of": len(lg["ev"]), "event": e, "before": lg["ev"][max(0, k - 14):k]})
    nd = 0
    for lg in logs:
        if any(e["k"] == "down" for e in lg["ev"]):
            active = set()
            for e in lg["ev"]:
                if e["k"] == "call":
                    active.add(e["c"])
                elif e["k"] == "ret":
                    active.discard(e["c"])
                elif e["k"] == "down":
                    nd += len(active)
    ev.cov["calls_in_progress_at_transport_loss"] = nd
    ev.cov["overlap_scenarios_with_a_refresh_in_flight"] = sum(1 for lg in logs if lg["overlap_ok"])
    if not ev.cov["overlap_scenarios_with_a_refresh_in_flight"] and not ctx.new:
        raise env.MachineryError("no overlap scenario saw a periodic refresh")
    if not nd and not ctx.new:
        raise env.MachineryError("no call was in progress when the transport was lost")
    # (the number of queue events varies by orders of magnitude with the seeded chatter; the stable measure of work
    # is the number of call / send / return events that were validated)
    ev.cov["evaluations"] = sum(1 for l in logs for e in l["ev"] if e["k"] in ("call", "send", "ret"))
    ev.cov["events_validated"] = sum(len(l["ev"]) for l in logs)
    ev.cov["distinct_nontrivial"] = len(nontriv)
    ev.cov["rule"] = "scenarios with >= 2 concurrent callers, distinct by their call/send/return sequence"
    lg = next((l for l in logs if l["ncalls"] >= 2), logs[0])
    ev.sample({"scenario": lg["kind"], "events": [e for e in lg["ev"] if e["k"] in ("call", "send", "ret")][:14]})
    ev.assumptions += [
        "the gates are read as evaluated when the call starts (the code evaluates them once, before waiting for the lock)",
        "the duration bound is R x (T + P) plus one poll per attempt, measured from the call's first transmission",
        "background callers (ping, refresh, facade update) are observed through their sends and pops only",
    ]
