"""C07 — dispatch: each datagram consumed once, only by a capable, addressed consumer.

Design: spec/AsyncEngine.tla (queue + mark, Unhandled two-phase consumer, Packet consumer
with re-queue and identifier-pair check, verb consumers, waiters; arbitrary in-tick order,
one stall): CapablePopper, UnhandledOnlyMarked, NoHeadOfLine (<= 3 polls + stalls).  TLC's
counterexample to "Unhandled never discards a framed packet" (an order flip between two
ticks) is turned into a schedule and reproduced on the real queue; under any order that is
stable across ticks the Packet consumer must take the packet.
Binding: real connection on the virtual loop; seeded arrival sequences of known, unknown,
unsolicited, mis-addressed and malformed-framing datagrams with and without active
waiters under four wake-order policies; queue put/mark/pop with the acting task logged by
the harness-side queue wrapper and validated by TLC (AsyncEngine_Trace); the client's state
around mis-addressed traffic is compared directly."""
import asyncio
import hashlib

from .. import env, tlc
from ..engine import EngineScenario, NoConnection, merge, ms
from ..simnet import SIM_ADDR
from .c06 import CFG, consts, clause_for


def frame(src, dst, content):
    return b"<PACKT><SRCCN>" + src + b"</SRCCN><DESCN>" + dst + b"</DESCN><DATAS>" + content + b"</DATAS></PACKT>"


def junk_items(rng, spa):
    sid, cid = spa.descriptor.identifier, spa.client_id
    good = lambda c: frame(sid, cid, c)
    return [
        ("unknown-verb", good(b"XYZZY\x01\x02")), ("unknown-raw", b"garbage-bytes"), ("empty", b""),
        ("unsolicited-reply", good(b"WCGET\x01")), ("unsolicited-reply2", good(b"RMREQ")), ("unsolicited-packs", good(b"PACKS")),
        ("stale-segment", good(b"STATV\x05\x06\x02ab")), ("statq", good(b"STATQ\x07")),
        ("misaddressed-statp", frame(b"SPA99:99:99:99:99:99", cid, b"STATP\x01\x01\x2c\xde\xad")),
        ("misaddressed-dst", frame(sid, b"IOSsomeone-else", b"STATP\x01\x01\x2c\xbe\xef")),
        ("swapped-pair", frame(cid, sid, b"STATP\x01\x00\x10\xff\xff")),
        # identifier pairs that differ from this connection's only by white space around them
        ("nearmiss-dst-space", frame(sid, cid + b" ", b"STATP\x01\x01\x30\xde\xad")),
        ("nearmiss-src-newline", frame(sid + b"\n", cid, b"STATP\x01\x01\x32\xbe\xef")),
        ("nearmiss-both", frame(b" " + sid, b"\t" + cid, b"RFERR")),
        ("malformed-frame", b"<PACKT>no tags at all</PACKT>"), ("malformed-frame2", b"<PACKT><SRCCN>x</SRCCN></PACKT>"),
        ("malformed-frame3", b"<PACKT><SRCCN>" + sid + b"</SRCCN><DESCN>" + cid + b"</DESCN><DATAS>STATP\x01\x01\x2c\xaa\xbb</PACKT>"),
        # a well-addressed frame with bytes before / after it: not a frame (malformed framing, no effect)
        ("padded-nul", good(b"STATP\x01\x01\x2c\x11\x22") + b"\x00\x00\x00"), ("padded-space", good(b"STATP\x01\x01\x2c\x11\x23") + b" "),
        ("padded-crlf", good(b"STATP\x01\x01\x2c\x11\x24") + b"\r\n"), ("prefixed-nul", b"\x00" + good(b"STATP\x01\x01\x2c\x11\x25")),
        ("truncated-frame", good(b"STATP\x01\x01\x2c\x11\x26")[:-3]),
        # accepted by its verb, but its content cannot be digested (announces two change records, carries one)
        ("poison-statp", good(b"STATP\x02\x01\x2c\x11\x22")),
        ("raw-unframed-unknown", b"HELLOworld"), ("hello", b"<HELLO>1</HELLO>"),
        ("wcerr", good(b"WCERR")), ("wcerr", good(b"WCERR")), ("statp", good(b"STATP\x01\x03\xf0\x00\x01")),
    ]


def digest(s):
    spa = s.spa
    if spa is None:             # the manager has dropped the connection
        return ("no-spa", len(s.events), s.man.spa_state.name)
    return (hashlib.sha1(spa.struct.status_block).hexdigest(), len(s.events), s.man.spa_state.name)


MISADDRESSED = {"nearmiss-dst-space", "nearmiss-src-newline", "nearmiss-both",
                "misaddressed-statp", "misaddressed-dst", "swapped-pair", "malformed-frame", "malformed-frame2", "malformed-frame3",
                "padded-nul", "padded-space", "padded-crlf", "prefixed-nul", "truncated-frame"}


async def _suspending_handler(sess, man, event, rec, kw):
    # a client whose handler really suspends on unsolicited error events
    if event.name in ("RUNNING_SPA_WATER_CARE_ERROR", "ERROR_RF_ERROR"):
        await asyncio.sleep(0.35)


def handshake_scenario(rng, rank):
    """junk that arrives DURING the handshake (unknown verbs, duplicates of handshake replies, unsolicited
    framed and unframed datagrams): the consumers are alive from the start of the connection, nothing stays
    at the head of the queue, and the handshake completes"""
    sc = EngineScenario.early(rng, rank=rank)
    try:
        s = sc.s
        injected = 0
        spa_seen = None
        for step in range(400):
            s.advance(0.05)
            spa = s.man._spa
            if spa is not None and sc.tr is not None and sc.tap is not None:
                spa_seen = spa
                sc.spa = spa
                nsent = len(sc.tr.sent)
                if nsent >= 1 and injected < 6 and rng.random() < 0.5 and not (s.man.facade is not None):
                    sid, cid = spa.descriptor.identifier, spa.client_id
                    choice = rng.randrange(4)
                    if choice == 0:
                        d = frame(sid, cid, b"XYZZY" + bytes([rng.randrange(256)]))
                    elif choice == 1:
                        # a duplicate of the newest reply the simulator sent on this connection
                        rep = [x for (t_, k_, x, info) in s.net.log if k_ == "s2c" and info.get("tr") == sc.tr.id]
                        d = rep[-1] if rep else frame(sid, cid, b"SVERS\x00\x01\x02\x03\x04\x05\x06")
                    elif choice == 2:
                        d = b"garbage-" + bytes([65 + rng.randrange(20)])
                    else:
                        d = frame(sid, cid, b"PACKS")
                    s.inject(d, transport=sc.tr)
                    injected += 1
            if s.man.facade is not None and s.man.spa_state.name == "CONNECTED":
                break
        connected = s.man.facade is not None and s.man.spa_state.name == "CONNECTED"
        s.advance(1.0)
        if sc.tap is None or spa_seen is None:
            raise env.MachineryError("handshake scenario: the connection's endpoint was never created")
        ev = merge(sc)
        return {"ev": ev, "kind": "handshake", "rank": rank, "connected": connected, "injected": injected,
                "callbacks": 0, "inert": 0}
    finally:
        sc.close()


def scenario(rng, rank, stalls=False, flood=0, starve=False):
    # the adversarial per-tick order is switched on after the handshake (under it the 27-segment
    # initial transfer rarely survives the Unhandled/Packet race, which is not C07's subject)
    sc = EngineScenario(rng, rank="stable" if rank == "seeded" else rank, on_event=_suspending_handler)
    try:
        s = sc.s
        if rank == "seeded":
            s.loop.rank_mode = "seeded"
            s.loop.rank_rng = rng.random()
        if stalls:
            sc.stalls(env.rng(f"c07-stall-{rng.random()}"), p=0.04)
        items = junk_items(rng, sc.spa)
        # every datagram the network hands to the connection's endpoint is counted independently of the queue
        delivered = [0]
        prev_on = s.net.on_event

        def on_ev(kind, data, transport):
            if prev_on:
                prev_on(kind, data, transport)
            if kind == "deliver" and transport is sc.tr and not transport.closed:
                delivered[0] += 1
        s.net.on_event = on_ev
        puts0 = sum(1 for e in sc.tap.log if e["k"] == "put" and e["by"] != "SPA:Packet handler")
        ncb = [0]
        for a in sc.spa.struct.accessors.values():
            a.watch(lambda *x: ncb.__setitem__(0, ncb[0] + 1))
        n = rng.choice([5, 20, 60])
        with_calls = rank != "seeded" and rng.random() < 0.5
        extra = []
        # the near-miss identifier pairs arrive in every scenario (not left to the sampling below): no effect
        s.quiesce(5)
        before = (digest(s), ncb[0])
        for name, data in items:
            if name.startswith("nearmiss"):
                s.inject(data, delay=0.01)
        s.advance(1.1)
        after = (digest(s), ncb[0])
        extra.append({"k": "inert", "same": bool(after[0][0] == before[0][0] and after[1] == before[1] and after[0][2] == before[0][2]),
                      "t": ms(s.loop.time()), "_n": next(__import__("gv.vloop", fromlist=["SEQ"]).SEQ)})
        # the operating system reports a socket error (asyncio hands it to error_received and leaves the endpoint open)
        # at the moment the catch-all consumer has marked an unknown datagram: that datagram is still discarded, and
        # so is the next one, with known traffic behind it served
        if s.spa is not None:
            s.quiesce(5)
            n_log = len(sc.tap.log)
            s.inject(b"QQQQQ-unknown-1")
            for _ in range(40):
                s.advance(0.01)
                if any(e["k"] == "mark" for e in sc.tap.log[n_log:]):
                    break
            s.spa._protocol.error_received(OSError(111, "Connection refused"))
            s.advance(0.5)
            sid_, cid_ = s.spa.descriptor.identifier, s.spa.client_id
            s.inject(b"QQQQQ-unknown-2")
            s.inject(frame(sid_, cid_, b"STATP\x01\x01\x40\x12\x34"), delay=0.02)
            s.advance(1.5)
        if s.spa is None:
            # traffic that is not for this connection has made the manager drop it: the scenario ends here, judged on
            # what was recorded
            sc.ev.extend(extra)
            ev = merge(sc)
            return {"ev": ev, "rank": rank, "n": len(ev), "delivered": 0, "puts": 0, "flood": 0, "pending": []}
        for i in range(n):
            burst = rng.choice([1, 1, 2, 5])
            only_mis = rng.random() < 0.3
            before = (digest(s), ncb[0])
            s.quiesce(5)
            before = (digest(s), ncb[0])
            t_before = s.loop.time()
            for _ in range(burst):
                name, data = rng.choice([x for x in items if (x[0] in MISADDRESSED) == only_mis] or items)
                s.inject(data, delay=rng.choice([0, 0, 0.03, 0.11]))
            if with_calls and rng.random() < 0.4:
                _, api = rng.choice(sc.apis())
                sc.start_call(api)
            s.advance(rng.choice([0.12, 0.35, 0.6, 1.0]))
            if only_mis and not with_calls and s.loop.time() - t_before < 25:
                s.advance(0.5)
                # nothing but mis-addressed / malformed traffic since `before`: state must be unchanged
                # (background refreshes/pings may run; they do not change bytes of an unchanged spa)
                after = (digest(s), ncb[0])
                same = after[0][0] == before[0][0] and after[1] == before[1] and after[0][2] == before[0][2]
                extra.append({"k": "inert", "same": bool(same), "t": ms(s.loop.time()), "_n": next(__import__("gv.vloop", fromlist=["SEQ"]).SEQ)})
        if flood:
            # a burst far beyond what the consumers drain per poll, with known traffic behind it: everything that
            # was received still leaves the queue exactly once, nothing waits at the head for long
            sid, cid = sc.spa.descriptor.identifier, sc.spa.client_id
            for i in range(flood):
                name, data = rng.choice(items)
                s.inject(data, delay=0.0003 * i)
            s.inject(frame(sid, cid, b"STATP\x01\x03\xf2\x00\x02"), delay=0.0003 * flood + 0.001)
            s.inject(frame(sid, cid, b"RFERR"), delay=0.0003 * flood + 0.002)
            s.advance(flood * 0.32 + 8.0)
        pending = []
        if starve:
            # a request whose answers are all lost while traffic that is not for this client keeps coming, several
            # datagrams per poll: the request still runs out of attempts in its own time (nothing that arrives
            # re-arms it), and returns
            from geckolib.config import GeckoConfig
            sid, cid = sc.spa.descriptor.identifier, sc.spa.client_id
            s.quiesce(5)
            s.net.s2c = lambda data, now, n: []
            t_call = sc.start_call(sc.apis()[0][1])
            foreign = [frame(sid, b"IOSsomeone-else", b"WCGET\x01"), b"<PACKT>no tags at all</PACKT>", frame(sid, cid, b"XYZZY\x01"),
                       frame(b"SPA99:99:99:99:99:99", cid, b"WCGET\x02")]
            budget = GeckoConfig.PROTOCOL_RETRY_COUNT * (GeckoConfig.PROTOCOL_TIMEOUT_IN_SECONDS + GeckoConfig.PAUSE_BETWEEN_RETRIES_IN_SECONDS)
            t0 = s.loop.time()
            n_rf = 0
            while s.loop.time() - t0 < budget + 20 and not t_call.done():
                s.inject(rng.choice(foreign))
                if n_rf < 4 and s.loop.time() - t0 > 1.0 + 2.3 * n_rf:
                    # an RF error report for THIS connection while the request is waiting: it is the RF consumer's,
                    # whatever the phase between the pollers
                    s.inject(frame(sid, cid, b"RFERR"), delay=0.013 * (n_rf + 1))
                    n_rf += 1
                s.advance(0.08)
            # ... and the same traffic is no sign of life either: once no ping has been answered for more than two
            # ping periods the client does not consider the spa responsive, whatever else reaches the socket
            last_ok = max([e["t"] for e in s.events if e["ev"] == "RUNNING_PING_RECEIVED"], default=None)
            spa_ = sc.spa
            sign_of_life = False
            if last_ok is not None and t_call.done():
                lim = last_ok + 2 * GeckoConfig.PING_FREQUENCY_IN_SECONDS + 3.0
                while s.loop.time() < lim and s.loop.time() - t0 < 400:
                    s.inject(rng.choice(foreign))
                    s.advance(0.5)
                if s.loop.time() >= lim and s.man._spa is spa_:
                    try:
                        sign_of_life = bool(spa_.is_responding_to_pings)
                    except Exception:  # noqa
                        sign_of_life = False
            s.net.s2c = None
            s.advance(2.0)
            if not t_call.done():
                pending.append(t_call.get_name())
            if sign_of_life:
                pending.append("traffic-that-is-not-for-this-client-counts-as-a-sign-of-life")
        # final phase: RF errors (they take the connection out of CONNECTED) followed by more traffic
        if rng.random() < 0.5:
            sid, cid = sc.spa.descriptor.identifier, sc.spa.client_id
            for _ in range(rng.randrange(1, 4)):
                s.inject(frame(sid, cid, b"RFERR"), delay=rng.choice([0, 0.05]))
                s.inject(frame(sid, cid, b"STATP\x01\x03\xf2\x00\x02"), delay=rng.choice([0.0, 0.12]))
            s.advance(1.5)
        s.advance(1.0)
        sc.ev.extend(extra)
        ev = merge(sc)
        puts = sum(1 for e in sc.tap.log if e["k"] == "put" and e["by"] != "SPA:Packet handler") - puts0
        return {"ev": ev, "rank": rank, "n": len(ev), "delivered": delivered[0], "puts": puts, "flood": flood, "pending": pending}
    finally:
        for t in sc.tasks:
            if not t.done():
                t.cancel()
        sc.close()


def flip_demo(order_a, order_b):
    """Place a framed, correctly addressed, unsolicited datagram between two consumer wake-ups
    of tick k; tick k uses order_a, every later tick order_b.  -> class of the task that popped it"""
    import random
    rng = random.Random(5)
    sc = EngineScenario(rng, rank="script")
    try:
        s = sc.s
        loop = s.loop
        s.quiesce()
        loop.rank_script = {"default": order_a}
        s.advance(0.5)
        # find the next tick boundary: consumers wake on the 0.1 s grid
        now = loop.time()
        k = int(now * 10) + 3
        tick_t = k / 10.0
        loop.rank_script = {"default": order_b, k: order_a, k - 1: order_a, k - 2: order_a}
        spa = sc.spa
        data = frame(spa.descriptor.identifier, spa.client_id, b"WCGET\x01")
        tr = s.conn_transport()
        # ranks 1 and 2 -> offsets 1e-7 and 2e-7 after the grid point: arrive in between
        loop.call_at_raw(tick_t + 1.5e-7, tr.deliver, data, SIM_ADDR)
        s.advance(1.0)
        pops = [e for e in sc.tap.log if e["k"] == "pop"]
        puts = {e["id"]: e for e in sc.tap.log if e["k"] == "put"}
        for p in pops:
            if puts.get(p["id"], {}).get("data") == data:
                return p["by"]
        return None
    finally:
        sc.close()


def run(ctx):
    ev = ctx.ev
    rng = env.rng("c07")
    r = tlc.model_check("AsyncEngine", "AsyncEngine_c07.cfg", timeout=900, tag="AE-c07")
    ctx.tlc_design("AsyncEngine dispatch: 1 waiter, 2 junk datagrams of 4 kinds, 1 stall, arbitrary in-tick order", r)
    rf = tlc.model_check("AsyncEngine", "AsyncEngine_flip.cfg", workers=1, timeout=300, tag="AE-flip", coverage=False)
    ev.add_tlc("witness query: 'Unhandled never discards a framed packet' (must be refuted: order flip between ticks)", rf)
    if "UNeverStealsFrame" not in rf.violated:
        raise env.MachineryError("the model no longer exhibits the Unhandled/Packet order-flip race")
    # ---- spec -> code: the witness schedule on the real queue ------------------------------
    PK, U = "Packet handler", "Unhandled packet"
    got_flip = flip_demo([PK, U], [U, PK])
    got_stable1 = flip_demo([PK, U], [PK, U])
    got_stable2 = flip_demo([U, PK], [U, PK])
    ev.cov["flip_witness"] = {"flip(PK<U then U<PK)": got_flip, "stable PK<U": got_stable1, "stable U<PK": got_stable2}
    if got_flip != "SPA:Unhandled packet":
        # the code does not follow the model's behaviour here.  Whether that is a changed library or broken machinery is
        # decided by the rest of the check: a library that breaks the property is reported with its violations; if
        # nothing else is wrong, the deviation is the machinery's to explain
        witness_failed = f"TLC's order-flip schedule was not reproduced on the real queue (popped by {got_flip})"
    else:
        witness_failed = None
    for name, got in (("PK<U", got_stable1), ("U<PK", got_stable2)):
        if got != "SPA:Packet handler":
            ctx.violation({"clause": "framed-packet-not-taken-by-packet-consumer-under-stable-order", "order": name},
                          {"popped_by": got})
    # ---- code -> spec --------------------------------------------------------------------
    logs = []
    n = 16 if ctx.quick else 300
    for i in range(n):
        # every third scenario runs on an event loop that occasionally stalls (logged, see TStall)
        try:
            logs.append(scenario(rng, ["stable", "perm", "reverse", "seeded"][i % 4], stalls=(i % 3 == 2),
                                 flood=(rng.choice([70, 100]) if i % 8 == 4 else 0), starve=(i % 8 == 6)))
        except NoConnection as e:
            # before any junk was injected: the handshake's datagrams did not reach the consumers they were for
            ctx.violation({"clause": "connection-cannot-be-established-on-a-fault-free-network"}, {"what": str(e)})
            break
    for lg in logs:
        if lg["delivered"] != lg["puts"]:
            ctx.violation({"clause": "received-datagram-never-entered-the-queue"},
                          {"rank": lg["rank"], "delivered_to_endpoint": lg["delivered"], "entered_the_queue": lg["puts"], "flood": lg["flood"]})
        if lg.get("pending"):
            ctx.violation({"clause": ("misaddressed-traffic-changed-state" if any("sign-of-life" in x for x in lg["pending"])
                                      else "request-kept-waiting-by-traffic-that-is-not-for-this-client")},
                          {"rank": lg["rank"], "pending": lg["pending"], "tail": lg["ev"][-10:]})
    ev.cov["flood_scenarios"] = sum(1 for lg in logs if lg["flood"])
    # junk during the handshake, under the stable wake orders (the adversarial per-tick order is not used
    # before the connection exists, see above)
    for i in range(6 if ctx.quick else 80):
        lg = handshake_scenario(rng, ["stable", "perm", "reverse"][i % 3])
        logs.append(lg)
        if not lg["connected"]:
            ctx.violation({"clause": "handshake-does-not-complete-with-junk-traffic"},
                          {"rank": lg["rank"], "injected": lg["injected"], "tail": lg["ev"][-10:]})
    verdicts, _ = tlc.validate("AsyncEngine_Trace", logs, "c07", CFG.format(**consts()), chunk=4, heap="2g", jobs=12)
    nontriv = set()
    for lg, v in zip(logs, verdicts):
        key = tuple((e["k"], e.get("kind"), e.get("verb"), e.get("cls")) for e in lg["ev"] if e["k"] in ("put", "pop"))
        nontriv.add(key)
        if v["accepted"]:
            ev.cov["traces_validated_against_impl"] += 1
        else:
            k = v["matched"]
            e = lg["ev"][k] if k < len(lg["ev"]) else {"k": "end"}
            cl = "misaddressed-traffic-changed-state" if e.get("k") == "inert" else clause_for(e)
            ctx.violation({"clause": cl, "event": e.get("k"), "cls": e.get("cls")},
                          {"rank": lg["rank"], "matched": k, "of": len(lg["ev"]), "event": e, "before": lg["ev"][max(0, k - 14):k]})
    if witness_failed and not ctx.new:
        raise env.MachineryError(witness_failed)
    ev.cov["evaluations"] = sum(len(l["ev"]) for l in logs)
    ev.cov["pops_observed"] = sum(1 for l in logs for e in l["ev"] if e["k"] == "pop")
    ev.cov["pops_by_unhandled"] = sum(1 for l in logs for e in l["ev"] if e["k"] == "pop" and e["cls"] == "U")
    ev.cov["inert_checks"] = sum(1 for l in logs for e in l["ev"] if e["k"] == "inert")
    ev.cov["distinct_nontrivial"] = len(nontriv)
    ev.cov["rule"] = "scenarios distinct by their put/pop sequence (kind, verb, popping consumer class)"
    ev.sample({"rank": logs[0]["rank"], "events": [e for e in logs[0]["ev"] if e["k"] in ("put", "mark", "pop", "inert")][:14]})
    ev.assumptions += ["'a few polling intervals' is read as 3 polls (+12 ms); the model derives 3 + stalls",
                       "datagram classes are decoded by the harness (framed or not, verb, identifier pair)"]
