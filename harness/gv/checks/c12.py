"""C12 — device inventory equals the spa's output wiring, with unique keys.

Design: spec/Facade.tla Inventory operators (presence by prefix of a connected output's
label, table order, each once, user demand matched case-insensitively, class from
DEVICES); Facade_MC checks the function over all wirings of 3 outputs onto 8 labels.
Binding: on real config/log pairs the output items are written into the block (each
output <- each label with the others NA, plus seeded multi-output assignments incl. the
same device on several outputs); the real async facade (and the sync facade's
scan_outputs) is built and its inventory, keys, lookups and unique ids are judged by TLC
(C12_Judge)."""
import contextlib
import io

from .. import env, tlc, packs
from ..facaderig import Rig, MockSpa, make_struct
from .c14 import pairs, _set_field


def cps(s):
    return [ord(c) for c in s]


def _sync_scan(spa):
    """run GeckoFacade.scan_outputs (and the devices it builds) without threads"""
    from ..w2 import InertThread
    import threading
    from geckolib.automation.facade import GeckoFacade
    real = threading.Thread
    threading.Thread = InertThread
    try:
        f = GeckoFacade(spa)
        f._on_connected(spa)
    finally:
        threading.Thread = real
    return f


EAGER_LOGS = []


class EarlyConnected(Exception):
    pass


class EagerSpa(MockSpa):
    """a spa whose engine thread is as fast as a schedule allows: GeckoSpa._final_connect (_is_connected := True, then
    the on_connected callback) runs at the very moment the facade hooks the callback, i.e. possibly INSIDE the facade's
    constructor; and a client thread polls facade.is_connected every time the running callback reads the spa (what
    GeckoSpaDescriptor.get_facade()'s wait loop does).  Both are schedules of the real threads."""

    def __init__(self, struct):
        super().__init__(struct)
        self._cb = None
        self._in_cb = False
        self.is_connected = False
        self.early = 0          # polls that saw the facade connected before its inventory was complete
        self.ev = []            # events for SyncFacade_Trace

    @property
    def on_connected(self):
        return self._cb

    @on_connected.setter
    def on_connected(self, cb):
        self._cb = cb
        if cb is None:
            return
        f = getattr(cb, "__self__", None)
        self.ev.append({"k": "hook", "declared": all(hasattr(f, a) for a in ("_sensors", "_water_heater", "_keypad", "_ecomode"))})
        self.is_connected = True
        self.ev.append({"k": "final"})
        self._in_cb = True
        try:
            cb(self)
        finally:
            self._in_cb = False
        self.ev.append({"k": "cbdone"})

    @property
    def accessors(self):
        if self._in_cb and self._cb is not None and getattr(self._cb, "__self__", None) is not None:
            seen = bool(self._cb.__self__.is_connected)
            if len(self.ev) < 40:
                self.ev.append({"k": "poll", "connected": seen})
            if seen:
                self.early += 1
        return self.struct.accessors


def _sync_eager(st):
    from ..w2 import InertThread
    import threading
    from geckolib.automation.facade import GeckoFacade
    spa = EagerSpa(st)
    real = threading.Thread
    threading.Thread = InertThread
    try:
        f = GeckoFacade(spa)
    finally:
        threading.Thread = real
    built = all(getattr(f, a, None) is not None for a in ("_water_heater", "_water_care", "_keypad", "_reminders"))
    spa.ev.append({"k": "ctordone", "connected": bool(f.is_connected), "inv": "built" if built else "wiped"})
    EAGER_LOGS.append({"ev": spa.ev})
    return f, spa


def record(rig, st, label_of_output, known, sensor_defs, which="async", facade=None, keep=None):
    """facade: an existing facade whose outputs are scanned AGAIN (the wiring in `st` has changed since it was
    built); keep: a list that receives the facade object"""
    spa = MockSpa(st)
    if facade is not None:
        f = facade
        if which == "async":
            f._scan_outputs()
        else:
            f.scan_outputs()
    elif which == "async":
        f = rig.facade(spa)
    elif which == "sync-eager":
        f, espa = _sync_eager(st)
        if espa.early:
            raise EarlyConnected(espa.early)
        if not f.is_connected:
            raise env.MachineryError("C12: the eager-schedule facade never became connected")
        which = "sync"
    else:
        f = _sync_scan(spa)
    if keep is not None:
        keep.append(f)

    def uds(devs):
        return [{"dev": cps(d.key), "demand": cps(d._user_demand["demand"]) if hasattr(d, "_user_demand") else
                 cps(_demand_for(st, d.key))} for d in devs]

    keys = list(f.devices)
    devs = list(f.all_automation_devices)
    lookups, same = [], []
    for k, d in zip(keys, devs):
        g = f.get_device(k)
        lookups.append(g.key if g is not None else "")
        same.append(g is d)
    return {
        "outputs": [cps(v) for v in label_of_output],
        "all_devices": [cps(d) for d in getattr(st, "_gv_table_devices", st.all_devices)],
        "demands": [cps(d) for d in getattr(st, "_gv_table_demands", st.user_demands)],
        "known": known,
        "got": {"pumps": uds(f.pumps), "blowers": uds(f.blowers), "lights": uds(f.lights)},
        "sensors_expected": [n for (n, key) in sensor_defs if key in st.accessors],
        "sensors_got": [s.name for s in list(f.sensors) + list(f.binary_sensors)],
        "keys": keys, "lookups": lookups, "same": same,
        "uids": [d.unique_id for d in devs],
        "which": which,
    }


def apply_wiring(st, outs, na_idx, w):
    for k in outs:
        a = st.accessors[k]
        idx = w.get(k, na_idx[k] if na_idx[k] is not None else 0)
        if a.bitpos is None:
            _set_field(st, a, idx)
        else:
            if idx > a.bitmask:
                idx = idx & a.bitmask
            w_ = int.from_bytes(st.status_block[a.pos:a.pos + a.length], "big")
            w_ = (w_ & ~(a.bitmask << a.bitpos)) | (idx << a.bitpos)
            _set_field(st, a, w_)


def _label(st, k):
    """the label an output holds, decoded by the harness from the block (not through the accessor under test); a code
    beyond the table's labels has the label the library documents for it: 'Unknown'"""
    a = st.accessors[k]
    w_ = int.from_bytes(st.status_block[a.pos:a.pos + a.length], "big")
    if a.bitpos is not None:
        w_ = (w_ >> a.bitpos) & a.bitmask
    items = a.items or []
    return items[w_] if w_ < len(items) else "Unknown"


def _demand_for(st, dev):
    for ud in st.user_demands:
        if f"Ud{dev}".upper() == ud.upper():
            return st.accessors[ud].tag
    return "?"


def run(ctx):
    ev = ctx.ev
    rng = env.rng("c12")
    r = tlc.model_check("Facade_MC", "Facade_MC.cfg", workers=1, timeout=600, coverage=False)
    ctx.tlc_design("Facade inventory function over all wirings of 3 outputs onto 8 labels", r)
    rs = tlc.model_check("SyncFacade", "SyncFacade_mc.cfg", workers=1, timeout=300, tag="SyncFacade", coverage=False)
    ctx.tlc_design("SyncFacade: the blocking facade's constructor against the engine thread's final connect and a polling client", rs)
    for cfgname, what in (("SyncFacade_ctl1.cfg", "callback hooked before the members are declared"),
                          ("SyncFacade_ctl2.cfg", "is_connected without the facade's own ready flag")):
        rc_ = tlc.model_check("SyncFacade", cfgname, workers=1, timeout=300, tag=cfgname[:-4], coverage=False)
        ev.add_tlc(f"negative control: {what} (must be refuted)", rc_)
        if "ConnectedMeansBuilt" not in rc_.violated:
            raise env.MachineryError(f"negative control {cfgname} not refuted")
    rw_ = tlc.model_check("SyncFacade", "SyncFacade_wit.cfg", workers=1, timeout=300, tag="SyncFacade-wit", coverage=False)
    ev.add_tlc("witness: a connection completed before the callback is hooked is never reported to the facade (reached on purpose)", rw_)
    if "CallbackNeverSkipped" not in rw_.violated:
        raise env.MachineryError("SyncFacade witness not reached")
    del EAGER_LOGS[:]
    # spec -> code: the witness behaviour (FinalA with no hook installed, then the constructor) on the real blocking
    # client and the bundled simulator: the connection is started first, as get_facade() does, and the facade is
    # constructed only after the engine has completed it.  Recorded, not judged (see DESIGN section 5, observations)
    try:
        from ..sessions import ThreadedSession
        with ThreadedSession(facade_first=False) as ts:
            for _ in range(800):
                ts.pump(1)
                if ts.spa.is_connected:
                    break
            spa_conn = bool(ts.spa.is_connected)
            f_late = ts.make_facade()
            for _ in range(300):
                ts.pump(1)
            ev.cov["late_hook_witness"] = {"spa_connected_before_the_facade_existed": spa_conn,
                                           "facade_connected_300_engine_iterations_later": bool(f_late.is_connected)}
    except Exception as e:  # noqa
        ev.cov["late_hook_witness"] = {"not_run": type(e).__name__}
    from geckolib.const import GeckoConstants as C
    # the device classes the property speaks of (pumps P1..P5 and Waterfall, the blower, the lights), as of the
    # audited commit; keys the library's table has gained since are taken from the live table, keys it has LOST or
    # re-classified are a finding (a wired pump 5 has to be a pump)
    pinned = {"P1": "PUMP", "P2": "PUMP", "P3": "PUMP", "P4": "PUMP", "P5": "PUMP", "BL": "BLOWER", "Waterfall": "PUMP", "LI": "LIGHT"}
    known = [{"key": cps(k), "cls": c_} for k, c_ in pinned.items()] + \
            [{"key": cps(k), "cls": v[3]} for k, v in C.DEVICES.items() if k not in pinned]
    sensor_defs = [(s[0], s[1]) for s in C.SENSORS] + [(b[0], b[1]) for b in C.BINARY_SENSORS]
    ps = pairs()
    by_plat = {}
    for plat, c, l in ps:
        by_plat.setdefault(plat, []).append((c, l))
    sel = []
    for plat, lst in sorted(by_plat.items()):
        sel += [lst[0], lst[-1]] if ctx.quick else lst
    if ctx.quick:
        sel += [(c, l) for _, c, l in rng.sample(ps, 6)]
    rig = Rig()
    recs, meta = [], []
    unbuildable = set()
    broken = []
    try:
        for c, l in sel:
            base = bytes(1024)
            try:
                st = make_struct(c, l, base)
            except Exception:
                continue
            outs = list(st.all_outputs)
            if not outs:
                continue
            na_idx = {}
            for k in outs:
                a = st.accessors[k]
                na_idx[k] = a.items.index("NA") if "NA" in (a.items or []) else None
            wirings = []
            # each output <- each label, others NA
            for k in outs:
                a = st.accessors[k]
                labs = list(range(len(a.items))) if ctx.quick is False else sorted(set(
                    [0, len(a.items) - 1] + rng.sample(range(len(a.items)), min(4, len(a.items)))))
                for i in labs:
                    wirings.append({k: i})
            # every device the log table knows, wired once through some output that offers a label for it
            for dev in st.all_devices:
                cand = [(k, i) for k in outs for i, lab in enumerate(st.accessors[k].items or []) if lab and lab.startswith(dev)]
                if cand:
                    k, i = rng.choice(cand)
                    wirings.append({k: i})
            # seeded multi-output assignments (same device on several outputs possible)
            for _ in range(6 if ctx.quick else 40):
                w = {}
                for k in rng.sample(outs, rng.randrange(1, min(len(outs), 5) + 1)):
                    w[k] = rng.randrange(len(st.accessors[k].items))
                wirings.append(w)
            # accessories that have a user demand but no automation class (L120, Fb, TvLift ...): alone,
            # and two or three of them wired at once, next to ordinary devices
            classless = [d for d in st.all_devices if d not in C.DEVICES and
                         any(ud.upper() == f"UD{d}".upper() for ud in st.user_demands)]
            offers = {}                  # device -> [(output, label index)]
            for k in outs:
                for i, lab in enumerate(st.accessors[k].items or []):
                    for d in classless:
                        if lab.startswith(d):
                            offers.setdefault(d, []).append((k, i))
            combos = []
            ds = sorted(offers)
            for i1 in range(len(ds)):
                combos.append([ds[i1]])
                for i2 in range(i1 + 1, len(ds)):
                    combos.append([ds[i1], ds[i2]])
                    for i3 in range(i2 + 1, len(ds)):
                        combos.append([ds[i1], ds[i2], ds[i3]])
            for combo in combos:
                for _ in range(2 if ctx.quick else 6):
                    w, used = {}, set()
                    for d in combo:
                        cands = [(k, i) for (k, i) in offers[d] if k not in used]
                        if not cands:
                            w = None
                            break
                        k, i = rng.choice(cands)
                        used.add(k)
                        w[k] = i
                    if not w:
                        continue
                    for k in rng.sample(outs, min(2, len(outs))):
                        w.setdefault(k, rng.randrange(len(st.accessors[k].items)))
                    wirings.append(w)
            # everything wired: every output carries some accessory (many devices of several classes at once)
            for _ in range(6 if ctx.quick else 40):
                w = {}
                for k in outs:
                    labs = [i for i, lab in enumerate(st.accessors[k].items or []) if lab not in ("NA", "")]
                    if labs:
                        w[k] = rng.choice(labs)
                wirings.append(w)
            # an output holding a code BEYOND its label table (a controller newer than the shipped table), next to
            # ordinary devices: that output wires nothing, the rest of the inventory is unaffected
            beyond = []
            for k in outs:
                a = st.accessors[k]
                cap = a.bitmask if a.bitpos is not None else (255 if a.length == 1 else 65535)
                if len(a.items or []) <= cap:
                    beyond.append((k, len(a.items)))
            for (k, code) in rng.sample(beyond, min(3, len(beyond))):
                w = {k: code}
                for k2 in rng.sample(outs, min(3, len(outs))):
                    labs = [i for i, lab in enumerate(st.accessors[k2].items or []) if lab not in ("NA", "")]
                    if k2 != k and labs:
                        w[k2] = rng.choice(labs)
                wirings.append(w)
            # nothing wired first, then one single accessory: a table pair for which BOTH fail cannot be built at
            # all (C11 / D6) and is skipped; a failure of the empty wiring alone is a verdict
            single = next((w for w in wirings if len(w) == 1 and any(
                (st.accessors[k].items[i] or "").startswith(dk) for k, i in w.items() for dk in C.DEVICES)), None)
            wirings.insert(0, {})
            if single is not None:
                wirings.insert(1, single)
            empty_failed = None
            pair_ok = True
            for wi, w in enumerate(wirings):
                if not pair_ok:
                    break
                st.set_status_block(base)
                ok = True
                apply_wiring(st, outs, na_idx, w)
                labels = [_label(st, k) for k in outs]
                if wi == 2 and empty_failed is not None and pair_ok:
                    # the pair can be built with an accessory wired, but not with nothing wired
                    broken.append((f"{c['name']}+{l['name']}", {}, empty_failed[0], empty_failed[1]))
                for which in ("async", "sync") + (("sync-eager",) if wi % 5 == 3 else ()):
                    try:
                        kept = []
                        with contextlib.redirect_stdout(io.StringIO()):
                            recs.append(record(rig, st, labels, known, sensor_defs, which, keep=kept))
                        meta.append((f"{c['name']}+{l['name']}", {k: st.accessors[k].value for k in w}))
                        if wi % 9 == 4 and wi + 1 < len(wirings) and kept:
                            # the same facade scans its outputs a second time after the wiring has changed
                            w2 = wirings[wi + 1]
                            saved = st.status_block
                            apply_wiring(st, outs, na_idx, w2)
                            labels2 = [_label(st, k) for k in outs]
                            try:
                                with contextlib.redirect_stdout(io.StringIO()):
                                    recs.append(record(rig, st, labels2, known, sensor_defs, which, facade=kept[0]))
                                meta.append((f"{c['name']}+{l['name']}", {"rescan": {k: st.accessors[k].value for k in w2}}))
                            finally:
                                st.set_status_block(saved)
                    except env.MachineryError:
                        raise
                    except Exception as e:  # noqa
                        if wi == 0:
                            empty_failed = (which, type(e).__name__)
                        elif wi == 1 and empty_failed is not None:
                            unbuildable.add((c["platform"], type(e).__name__))
                            pair_ok = False
                        else:
                            # the facade exists for this table pair, but not for this wiring
                            broken.append((f"{c['name']}+{l['name']}", {k: st.accessors[k].value for k in w}, which, type(e).__name__))
                        break
    finally:
        rig.close()
    if not recs:
        raise env.MachineryError("no facade could be built")
    for (name, w, which, exc) in broken:
        ctx.violation({"clause": "reports-connected-before-inventory-complete" if exc == "EarlyConnected" else
                       "no-inventory-for-this-wiring", "facade": which, "exc": exc}, {"where": name, "wiring": w})
    if not EAGER_LOGS:
        raise env.MachineryError("C12: no facade was built under the eager schedules")
    everd, _ = tlc.validate("SyncFacade_Trace", EAGER_LOGS, "c12-syncfacade",
                            "SPECIFICATION TSpec\nCONSTANTS HookLast = TRUE\n          GuardReady = TRUE\n"
                            "CONSTRAINT Track\nPOSTCONDITION Report\nCHECK_DEADLOCK FALSE\n", chunk=400, jobs=4)
    n_rej = 0
    for lg, v in zip(EAGER_LOGS, everd):
        if not v["accepted"]:
            n_rej += 1
            if n_rej <= 20:
                at = lg["ev"][v["matched"]] if v["matched"] < len(lg["ev"]) else None
                ctx.violation({"clause": "construction-is-not-a-run-of-SyncFacade", "event": at and at["k"], "why": sorted(v.get("why") or [])[:2]},
                              {"events": lg["ev"][:12], "matched": v["matched"]})
    ev.cov["eager_constructions_validated"] = len(EAGER_LOGS) - n_rej
    bad, n = tlc.judge("C12_Judge", recs, "c12", chunk=1500, jobs=12)
    for idx, why in bad:
        name, w = meta[idx]
        r_ = recs[idx]
        ctx.violation({"clause": why, "facade": r_["which"]},
                      {"where": name, "wiring": w,
                       "got": {k: ["".join(map(chr, u["dev"])) for u in v] for k, v in r_["got"].items()},
                       "keys": r_["keys"], "all_devices": ["".join(map(chr, d)) for d in r_["all_devices"]],
                       "outputs": ["".join(map(chr, d)) for d in r_["outputs"]]})
    ev.cov["evaluations"] = n
    ev.cov["traces_validated_against_impl"] = n - len(bad)
    ev.cov["table_pairs"] = len(sel)
    ev.cov["platforms_where_no_facade_can_be_built"] = sorted(map(str, unbuildable))
    ev.cov["distinct_nontrivial"] = len({(m[0], str(m[1]), r_["which"]) for m, r_ in zip(meta, recs)
                                         if any(r_["got"].values())})
    ev.cov["rule"] = "facades with at least one user device, distinct by (table pair, wiring, facade class)"
    i = next((i for i, r_ in enumerate(recs) if r_["got"]["pumps"]), 0)
    ev.sample({"where": meta[i][0], "wiring": meta[i][1], "pumps": ["".join(map(chr, u["dev"])) for u in recs[i]["got"]["pumps"]],
               "keys": recs[i]["keys"]})
    ev.assumptions += ["platforms whose facade cannot be constructed at all are C11's finding and contribute no inventory records"]
