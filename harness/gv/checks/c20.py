"""C20 — threaded engine: FIFO paced sends, first-match dispatch, bounded handler life.

Design: spec/ThreadedEngine.tla (one iteration = Send, Recv, Loop, Cleanup with handler
registration, queued sends, arrivals and time passing in between).  FifoSends, Paced,
BoundedTransmissions, NoSendAfterAnswer, RemovedWhenDone are model-checked; the variant
without the timeout re-arm in handled() is refuted as negative control.
Binding: spec -> code: TLC-simulated behaviours are replayed sub-step by sub-step on the
real GeckoUdpSocket with handlers whose attributes mirror the model; the projected state
(send queue, handler list with retry counts and removal marks, inbox, last send time,
transmissions) is compared after every step.  code -> spec: the real blocking client's
handshake against the real simulator under seeded loss patterns within the retry budget;
records judged by TLC (C20_Judge)."""
import contextlib
import io
import json
import random

from .. import env, tlc
from ..w2 import W2, MockSock
from ..sessions import ThreadedSession, inner
from ..simnet import SimPeer

UNIT = 1.0 / 1024.0        # one model time unit in seconds (exact in binary floating point)

ATTR = {
    "r1": {"accepts": {"k1"}, "timeout": 100, "nretry": 1, "final": {"k1"}, "raises": set()},
    "r2": {"accepts": {"k2"}, "timeout": 100, "nretry": 0, "final": {"k2"}, "raises": set()},
    "s1": {"accepts": {"k1", "kx"}, "timeout": 0, "nretry": 0, "final": set(), "raises": {"kx"}},
}


def make_handler(hid):
    from geckolib.driver import GeckoUdpProtocolHandler
    a = ATTR[hid]

    class TestHandler(GeckoUdpProtocolHandler):
        def can_handle(self, received_bytes, sender):
            return received_bytes.decode() in a["accepts"]

        def handle(self, received_bytes, sender):
            k = received_bytes.decode()
            if k in a["raises"]:
                raise ValueError("handler failure injected by the model")
            if k in a["final"]:
                self._should_remove_handler = True

    kw = {"send_bytes": hid.encode()}
    if a["timeout"]:
        kw.update(timeout=a["timeout"] * UNIT, retry_count=a["nretry"],
                  on_retry_failed=GeckoUdpProtocolHandler._default_retry_failed_handler)
    h = TestHandler(**kw)
    h.gv_id = hid
    return h


class EngineRig:
    def __init__(self):
        from geckolib.driver import GeckoUdpSocket
        self.w2 = W2()
        self.w2.__enter__()
        self.w2.clock.t = 1000 * UNIT
        self.sock = GeckoUdpSocket()
        self.sock._SENDING_THROTTLE_RATE_PER_SECOND = 64        # gap = 16 model units
        self.ms = MockSock(self.w2.clock)
        self.sock._socket = self.ms
        self.handlers = {}

    def close(self):
        self.w2.__exit__(None, None, None)

    def apply(self, act):
        a = act["a"]
        s = self.sock
        if a == "Register":
            h = make_handler(act["h"])
            self.handlers[act["h"]] = h
            s.add_receive_handler(h)
        elif a == "Enqueue":
            s.queue_send(self.handlers[act["h"]], ("10.0.0.1", 10022))
        elif a == "Arrive":
            self.ms.inbox.append((act["k"].encode(), ("10.0.0.1", 10022)))
        elif a == "Advance":
            self.w2.clock.t += act["dt"] * UNIT
        elif a == "Send":
            s._process_send_requests()
        elif a == "Recv":
            s._process_received_data()
        elif a == "Loop":
            for handler in s._receive_handlers:
                handler.loop(s)
        elif a == "Cleanup":
            s._cleanup_handlers()
            s._loop_func()
        else:
            raise env.MachineryError(f"unknown action {a}")

    def projection(self, phase):
        s = self.sock
        tx = {h: 0 for h in ATTR}
        for (_, d, _) in self.ms.wire:
            tx[d.decode()] += 1
        return {
            "now": round(self.w2.clock.t / UNIT), "phase": phase,
            "sendQ": [h.gv_id for h, _ in s._send_handlers],
            "regs": [h.gv_id for h in s._receive_handlers],
            "retries": [h._retry_count for h in s._receive_handlers],
            "marked": [bool(h.should_remove_handler) for h in s._receive_handlers],
            "inbox": [d.decode() for d, _ in self.ms.inbox],
            "lastSend": round(s._last_send_time / UNIT), "nwired": len(self.ms.wire), "tx": tx,
        }


def behaviours(out):
    """split the emitter's output of a -simulate run into behaviours"""
    cur, res = [], []
    prev_to = None
    for v in tlc.gv_prints(out):
        if v[0] != "GVT":
            continue
        tr = json.loads(v[1])
        if prev_to is None or tr["from"] != prev_to or tr["lvl"] == 1:
            if cur:
                res.append(cur)
            cur = []
        cur.append(tr)
        prev_to = tr["to"]
    if cur:
        res.append(cur)
    return res


def replay(ctx, beh):
    rig = EngineRig()
    n = 0
    try:
        for i, tr in enumerate(beh):
            rig.apply(tr["act"])
            want = tr["to"]
            got = rig.projection(want["phase"])
            n += 1
            if got != want:
                diff = {k: [want[k], got[k]] for k in want if want[k] != got.get(k)}
                ctx.violation({"clause": "replay-mismatch", "action": tr["act"]["a"], "field": sorted(diff)[0]},
                              {"step": i, "actions": [t["act"] for t in beh[: i + 1]], "expected_vs_got": diff})
                break
    finally:
        rig.close()
    return n


class HookLock:
    """stands in for GeckoUdpSocket._lock: after the k-th release it runs `hook` once (another thread's
    registration landing exactly there); everything else is the real lock"""

    def __init__(self, real):
        self.real = real
        self.releases = 0
        self.k = None
        self.hook = None

    def acquire(self, *a, **kw):
        return self.real.acquire(*a, **kw)

    def release(self):
        self.real.release()
        self.releases += 1
        if self.hook is not None and self.releases == self.k:
            h, self.hook = self.hook, None
            h()

    def __enter__(self):
        self.acquire()
        return self

    def __exit__(self, *a):
        self.release()
        return False


def replay_registry(ctx, beh):
    """Registry.tla behaviour on the real socket: registrations that the model places between the two
    critical sections of the cleanup pass are executed at EVERY lock release inside the real
    _cleanup_handlers call (one run per release index); the registry afterwards must be the model's."""
    from geckolib.driver import GeckoUdpSocket, GeckoUdpProtocolHandler
    # group the behaviour: [outside actions..., (CleanupA, [middle actions], CleanupB), ...]
    groups, i = [], 0
    while i < len(beh):
        a = beh[i]["act"]
        if a["a"] == "CleanupA":
            j = i + 1
            mid = []
            while j < len(beh) and beh[j]["act"]["a"] != "CleanupB":
                mid.append(beh[j]["act"])
                j += 1
            if j >= len(beh) or any(m["a"] != "Add" for m in mid):
                return 0          # unfinished pass, or a Finish inside the pass (placement-dependent): not replayed
            groups.append(("cleanup", mid, beh[j]["to"]["regs"]))
            i = j + 1
        else:
            groups.append(("plain", a, beh[i]["to"]["regs"]))
            i += 1
    class Plain(GeckoUdpProtocolHandler):
        def can_handle(self, received_bytes, sender):
            return False

        def handle(self, received_bytes, sender):
            pass

    # how many lock releases does one cleanup call perform?
    probe = GeckoUdpSocket()
    probe._lock = HookLock(probe._lock)
    probe._cleanup_handlers()
    nrel = probe._lock.releases
    steps = 0
    for k in range(1, nrel + 1):
        sock = GeckoUdpSocket()
        lock = HookLock(sock._lock)
        sock._lock = lock
        hs = {}

        def add(h):
            hs[h] = Plain()
            hs[h].gv_id = h
            sock.add_receive_handler(hs[h])

        for g in groups:
            if g[0] == "plain":
                a = g[1]
                if a["a"] == "Add":
                    add(a["h"])
                elif a["a"] == "Finish":
                    hs[a["h"]]._should_remove_handler = True
            else:
                mid = g[1]
                lock.releases = 0
                lock.k = k
                lock.hook = (lambda mid=mid: [add(m["h"]) for m in mid]) if mid else None
                sock._cleanup_handlers()
                if lock.hook is not None:        # fewer releases than probed: run it now
                    lock.hook = None
                    [add(m["h"]) for m in mid]
            got = [h.gv_id for h in sock._receive_handlers]
            steps += 1
            if got != g[2]:
                ctx.violation({"clause": "registry-differs-from-model", "after": g[0] if g[0] == "plain" else "cleanup-pass"},
                              {"release_index": k, "expected": g[2], "got": got, "actions": [t["act"] for t in beh]})
                return steps
    return steps


def engine_survives_can_handle_exception():
    """a handler whose can_handle raises for some datagram must not stop the engine: the receive step
    returns, and the next datagram is dispatched as usual"""
    from geckolib.driver import GeckoUdpSocket, GeckoUdpProtocolHandler
    with W2() as w2:
        sock = GeckoUdpSocket()
        ms = MockSock(w2.clock)
        sock._socket = ms
        sock.open()
        got = []

        class Touchy(GeckoUdpProtocolHandler):
            def can_handle(self, received_bytes, sender):
                return received_bytes[0] == 65          # IndexError on an empty datagram

            def handle(self, received_bytes, sender):
                got.append(bytes(received_bytes))

        sock.add_receive_handler(Touchy())
        ms.inbox.append((b"", ("10.0.0.1", 10022)))
        ms.inbox.append((b"A1", ("10.0.0.1", 10022)))
        rec = {"kind": "canhandle", "escaped": "", "dispatched_after": False}
        for _ in range(3):
            w2.advance(0.05)
            try:
                with contextlib.redirect_stdout(io.StringIO()):
                    W2.step(sock)
            except Exception as e:  # noqa
                rec["escaped"] = type(e).__name__
                break
        rec["dispatched_after"] = got == [b"A1"]
        return rec


def answer_waiting_at_expiry():
    """whole passes of the real engine: the answer to a request is already waiting in the socket in the very pass in
    which the request's timeout runs out.  Once the answer has been dispatched the request is gone and nothing more
    of it is transmitted (the model's NoSendAfterAnswer, here with the real order of the pass)."""
    from geckolib.driver import GeckoUdpSocket, GeckoUdpProtocolHandler
    out = []
    for early in (0.0, 0.02, -0.02):
        with W2() as w2:
            sock = GeckoUdpSocket()
            ms = MockSock(w2.clock)
            sock._socket = ms
            sock.open()

            class Req(GeckoUdpProtocolHandler):
                def can_handle(self, received_bytes, sender):
                    return received_bytes == b"ANSWER"

                def handle(self, received_bytes, sender):
                    self._should_remove_handler = True

            T = 1.0
            h = Req(send_bytes=b"REQUEST", timeout=T, retry_count=3,
                    on_retry_failed=GeckoUdpProtocolHandler._default_retry_failed_handler)
            sock.add_receive_handler(h)
            sock.queue_send(h, ("10.0.0.1", 10022))
            answered_at = None
            tx_after = 0
            injected = False
            for _ in range(120):
                w2.advance(0.05)
                if not injected and h.age > T + early and ms.wire:
                    ms.inbox.append((b"ANSWER", ("10.0.0.1", 10022)))
                    injected = True
                n0 = len(ms.wire)
                with contextlib.redirect_stdout(io.StringIO()):
                    W2.step(sock)
                if answered_at is not None:
                    tx_after += len(ms.wire) - n0
                if answered_at is None and h not in sock._receive_handlers:
                    answered_at = w2.clock.t
            out.append({"kind": "expiry", "offset_ms": int(early * 1000), "answered": answered_at is not None,
                        "transmissions": len(ms.wire), "transmissions_after_removal": tx_after})
    return out


def engine_survives_unknown_tables():
    """the spa names a config revision for which no table module is shipped (newer firmware): the handshake cannot go
    on, but no exception leaves the engine's loop, whatever arrives afterwards, and later requests are still sent"""
    from .c18 import _FilesPeer
    out = []
    for (pname, c, l) in (("inXM", 77, 9), ("inYT", 50, 999), ("NoSuchPack", 1, 1)):
        rec = {"kind": "unknown-tables", "files": f"{pname}_C{c:02}.xml/{pname}_S{l:02}.xml", "escaped": "", "pings_after": 0}
        with contextlib.redirect_stdout(io.StringIO()):
            with ThreadedSession(peer=_FilesPeer(pname, c, l)) as s:
                try:
                    for _ in range(400):
                        s.pump(1, dt=0.05)
                    n0 = len(s.sock.wire)
                    # (the ping thread's next ping: the engine still serves the send queue)
                    from geckolib.config import GeckoConfig
                    for _ in range(int((GeckoConfig.PING_FREQUENCY_IN_SECONDS + 5) / 0.05)):
                        s.pump(1, dt=0.05)
                    rec["pings_after"] = sum(1 for (_, d, _) in s.sock.wire[n0:] if (inner(d) or b"").startswith(b"APING"))
                except env.MachineryError:
                    raise
                except Exception as e:  # noqa
                    rec["escaped"] = type(e).__name__
        out.append(rec)
    return out


def engine_iteration_order():
    """the sub-steps the REAL _thread_func performs in one pass, with and without a datagram waiting:
    the model's phase cycle is send -> recv -> loop -> cleanup (-> sub-class hook) in every iteration"""
    from geckolib.driver import GeckoUdpSocket, GeckoUdpProtocolHandler
    out = []
    for waiting in (False, True):
        with W2() as w2:
            sock = GeckoUdpSocket()
            ms = MockSock(w2.clock)
            sock._socket = ms
            sock.open()
            order = []

            class H(GeckoUdpProtocolHandler):
                def can_handle(self, received_bytes, sender):
                    return True

                def handle(self, received_bytes, sender):
                    order.append("dispatch")

                def loop(self, socket):
                    order.append("loop")

            sock.add_receive_handler(H())
            for name, tag in (("_process_received_data", "recv"), ("_cleanup_handlers", "cleanup"), ("_loop_func", "hook")):
                orig = getattr(sock, name)
                setattr(sock, name, (lambda orig=orig, tag=tag: (order.append(tag), orig())[1]))
            real_send = type(sock)._process_send_requests
            # (W2.step shadows _process_send_requests itself: the first statement of the pass)
            if waiting:
                ms.inbox.append((b"x", ("10.0.0.1", 10022)))
            w2.advance(0.05)
            order.append("send")
            with contextlib.redirect_stdout(io.StringIO()):
                W2.step(sock)
            out.append({"kind": "order", "waiting": waiting, "order": order})
    return out


VERBS = [b"AVERS", b"CURCH", b"SFILE", b"STATU"]


def handshake(rng, pattern):
    """pattern: dict verb -> number of leading attempts to lose (request or reply)"""
    from geckolib.config import GeckoConfig
    peer = SimPeer(env.REPO + "/tests/snapshots/default.snapshot")
    lost = {v: 0 for v in VERBS}
    side = {v: rng.choice(["c2s", "s2c"]) for v in VERBS}
    # which segment of a status-block answer is the one that gets lost (first, second, a middle one, last)
    seg = pattern.get("seg", rng.choice([0, 0, 1, 13, 26]))

    with ThreadedSession(peer=peer) as s:
        def drop(data, direction):
            c = inner(data) or b""
            if direction == "c2s":
                v = c[:5]
                if v in lost and side[v] == "c2s" and "seg" not in pattern and lost[v] < pattern.get(v, 0):
                    lost[v] += 1
                    return True
            else:
                rv = {b"SVERS": b"AVERS", b"CHCUR": b"CURCH", b"FILES": b"SFILE", b"STATV": b"STATU"}.get(c[:5])
                if rv and (side[rv] == "s2c" or "seg" in pattern) and lost[rv] < pattern.get(rv, 0):
                    # lose the whole answer of this attempt (for STATV: one segment of the chain)
                    if rv != b"STATU" or c[5] == seg:
                        lost[rv] += 1
                        return True
            return False
        s.drop = drop
        ok = False
        for _ in range(40000):
            s.pump(1, dt=0.03)
            if s.facade.is_connected:
                ok = True
                break
        wire = s.sock.wire
        tx = {}
        for (_, d, _) in wire:
            c = inner(d) or b""
            if c[:5] in VERBS:
                tx[c[:5].decode()] = tx.get(c[:5].decode(), 0) + 1
        times = [t for (t, _, _) in wire]
        gaps = [int(round((b - a) * 1000)) for a, b in zip(times, times[1:])]
        return {"connected": ok, "identical": s.spa.struct.status_block == peer.sim.structure.status_block,
                "budget": 1 + GeckoConfig.PROTOCOL_RETRY_COUNT,
                "tx": [{"verb": k, "n": v} for k, v in sorted(tx.items())], "gaps": gaps,
                "gapmin": int(1000 / s.spa._SENDING_THROTTLE_RATE_PER_SECOND),
                "pattern": {(k.decode() if isinstance(k, bytes) else k): v for k, v in pattern.items()} | {"seg": seg}}


def run(ctx):
    ev = ctx.ev
    rng = env.rng("c20")
    if ctx.quick:
        r = tlc.model_check("ThreadedEngine", "ThreadedEngine_mc.cfg", timeout=900)
        ctx.tlc_design("ThreadedEngine: 3 handlers in any registration order, 2 arrivals, time to just past one timeout", r)
    else:
        r = tlc.model_check("ThreadedEngine", "ThreadedEngine_thorough.cfg", timeout=3000, heap="24g")
        ctx.tlc_design("ThreadedEngine: 3 handlers, 2 arrivals, time past two timeouts (retry + exhaustion)", r)
    r2 = tlc.model_check("ThreadedEngine", "ThreadedEngine_ctl.cfg", timeout=300, tag="TE-ctl", coverage=False)
    ev.add_tlc("negative control: handled() does not re-arm the timeout (must be refuted)", r2)
    if "NoSendAfterAnswer" not in r2.violated:
        raise env.MachineryError("negative control not refuted")
    # ---- spec -> code ------------------------------------------------------------------
    nb = 400 if ctx.quick else 6000
    rs = tlc.model_check("ThreadedEngine", "ThreadedEngine_emit.cfg", workers=1, timeout=1500,
                         simulate=f"num={nb}", depth=60, seed=env.seed() + 7, tag="TE-sim", coverage=False)
    behs = behaviours(rs.out)
    if len(behs) < nb // 2:
        raise env.MachineryError(f"simulation produced only {len(behs)} behaviours")
    steps = 0
    distinct = set()
    for b in behs:
        steps += replay(ctx, b)
        distinct.add(tuple(json.dumps(t["act"], sort_keys=True) for t in b))
    ev.cov["behaviours_replayed"] = len(behs)
    ev.cov["replay_steps_compared"] = steps
    ev.sample({"replayed_behaviour": [t["act"] for t in behs[0][:14]]})
    # ---- the handler registry under real-thread interleavings (Registry.tla) ---------------------
    r = tlc.model_check("Registry", "Registry_mc.cfg", timeout=300, tag="Registry")
    ctx.tlc_design("Registry: registrations between the two critical sections of the cleanup pass", r)
    r2 = tlc.model_check("Registry", "Registry_ctl.cfg", timeout=300, tag="Registry-ctl", coverage=False)
    ev.add_tlc("negative control: the cleanup pass writes back a filtered copy (must be refuted)", r2)
    if "NoLostRegistration" not in r2.violated:
        raise env.MachineryError("registry control not refuted")
    # unbounded number of steps: an inductive invariant discharged by Apalache (Init => IndInv, IndInv /\ Next => IndInv')
    a0 = tlc.apalache("Registry_Apa", "Init", "IndInv", 0, "reg-init")
    a1 = tlc.apalache("Registry_Apa", "IndInit", "IndInv", 1, "reg-step")
    ev.cov["apalache_inductive_invariant"] = {"module": "Registry_Apa", "init_implies_inv": a0[0], "inv_is_inductive": a1[0],
                                              "wall_s": round(a0[1] + a1[1], 1)}
    if a0[0] is False or a1[0] is False:
        raise env.MachineryError("Registry_Apa: the inductive invariant does not hold: " + (a0[2] if a0[0] is False else a1[2])[-300:])
    rs = tlc.model_check("Registry", "Registry_emit.cfg", workers=1, timeout=600,
                         simulate=f"num={200 if ctx.quick else 3000}", depth=9, seed=env.seed() + 11, tag="Registry-sim", coverage=False)
    rbehs = behaviours(rs.out)
    rsteps = sum(replay_registry(ctx, b) for b in rbehs)
    if rsteps < 100:
        raise env.MachineryError(f"registry replay compared only {rsteps} steps")
    ev.cov["registry_behaviours"] = len(rbehs)
    ev.cov["registry_steps_compared"] = rsteps
    # the order of the sub-steps in one real pass is recorded as evidence only: the property does not prescribe
    # it (the replay drives the model's sub-actions itself; whole-engine runs use the real pass, W2.step)
    ev.cov["real_pass_sub_steps"] = [{"datagram_waiting": o["waiting"], "order": o["order"]} for o in engine_iteration_order()]
    for xr in answer_waiting_at_expiry():
        ev.cov.setdefault("answer_waiting_at_expiry", []).append(xr)
        if not xr["answered"] or xr["transmissions_after_removal"] > 0:
            ctx.violation({"clause": "transmission-after-the-request-was-answered-and-removed"}, xr)
    for xr in engine_survives_unknown_tables():
        ev.cov.setdefault("unknown_tables", []).append(xr)
        if xr["escaped"] or xr["pings_after"] < 1:
            ctx.violation({"clause": "handler-exception-stops-the-engine", "where": "handshake with unknown tables"}, xr)
    rec = engine_survives_can_handle_exception()
    if rec["escaped"] or not rec["dispatched_after"]:
        ctx.violation({"clause": "handler-exception-stops-the-engine", "where": "can_handle"}, rec)
    # ---- code -> spec: handshake under loss within the retry budget ---------------------------
    from geckolib.config import GeckoConfig
    N = GeckoConfig.PROTOCOL_RETRY_COUNT
    recs = []
    pats = [{}] + [{v: N} for v in VERBS] + [{v: 1 for v in VERBS}]
    pats += [{b"STATU": k, "seg": sg} for sg in (1, 13, 26) for k in (1, 2)]
    for _ in range(6 if ctx.quick else 120):
        pats.append({v: rng.randrange(0, N + 1) for v in VERBS})
    for p in pats:
        with contextlib.redirect_stdout(io.StringIO()):
            recs.append(handshake(rng, p))
    bad, n = tlc.judge("C20_Judge", recs, "c20", chunk=50)
    for idx, why in bad:
        r_ = recs[idx]
        ctx.violation({"clause": why}, {"pattern": r_["pattern"], "tx": r_["tx"], "connected": r_["connected"],
                                        "min_gap": min(r_["gaps"]) if r_["gaps"] else None})
    # ---- the connection sequence as a whole (SyncConnect.tla): chain order, budgets, final connect, ping thread
    from .. import syncconnect as sc
    rsc = tlc.model_check("SyncConnect", "SyncConnect_mc.cfg", workers=4, timeout=300, tag="SyncConnect")
    ctx.tlc_design("SyncConnect: request chain with budgets, final connect in two halves, ping thread and the connection timeout", rsc)
    rw = tlc.model_check("SyncConnect", "SyncConnect_wit.cfg", workers=2, timeout=300, tag="SyncConnect-wit", coverage=False)
    ev.add_tlc("witness (must be refuted): a connection that completes after the connection timeout has no ping thread", rw)
    if "NeverConnectedWithoutPings" not in rw.violated:
        raise env.MachineryError("SyncConnect witness not reached")
    cs = sc.consts()
    T = GeckoConfig.PROTOCOL_TIMEOUT_IN_SECONDS
    lpats = [[0, 0, 0, 0], [N, 0, 0, 0], [0, N, 0, 0], [0, 0, N, 0], [0, 0, 0, N], [1, 1, 1, 1],
             [8, 8, 0, 0],                    # slower than the connection timeout AND a ping period: connects without pings
             [N + 1, 0, 0, 0], [2, N + 1, 0, 0], [0, 1, N + 1, 0]]      # a chain request's budget is spent
    for _ in range(3 if ctx.quick else 60):
        lpats.append([rng.randrange(0, N + 2) for _ in range(4)])
    slogs = []
    for lp in lpats:
        horizon = min(380, (sum(min(x, N + 1) for x in lp)) * T + 70)
        slogs.append(sc.connect_log(rng, lp, horizon))
    cfgt = sc.CFG.format(R=cs["R"], CT=cs["CT"], maxage=400)
    verd, _ = tlc.validate("SyncConnect_Trace", slogs, "c20-syncconnect", cfgt, chunk=4, heap="1500m", jobs=8)
    n_sc_ok = 0
    ping_only = []
    redo = []
    for lg, v in zip(slogs, verd):
        if v["accepted"]:
            n_sc_ok += 1
        else:
            redo.append(lg)
    if redo:
        # which part of the specification does the log leave: the chain / connection (C20's clause) or only the
        # ping thread and error flag (outside C20: recorded, not a verdict)?
        relaxed = [dict(lg, ev=[dict(e, chk=False) if e["k"] == "st" else e for e in lg["ev"]]) for lg in redo]
        verd2, _ = tlc.validate("SyncConnect_Trace", relaxed, "c20-syncconnect-relaxed", cfgt, chunk=4, heap="1500m", jobs=8)
        for lg, v2 in zip(redo, verd2):
            if v2["accepted"]:
                ping_only.append(lg["losses"])
            else:
                k = v2["matched"]
                e = lg["ev"][k] if k < len(lg["ev"]) else {"k": "end"}
                inv = [w for w in (v2["why"] or [])]
                ctx.violation({"clause": "connection-sequence-" + (inv[0] if inv else ("request-out-of-turn-or-over-budget" if e.get("k") == "tx" else "state-not-reachable"))},
                              {"losses": lg["losses"], "event": e, "before": lg["ev"][max(0, k - 6):k]})
    for lg in slogs:
        within = all(x <= N for x in lg["losses"])
        if within and not (lg["final"]["connected"] and lg["final"]["ready"] and lg["identical"]):
            ctx.violation({"clause": "handshake-not-completed-within-budget"}, {"losses": lg["losses"], "final": lg["final"]})
    ev.cov["sync_connect_logs"] = len(slogs)
    ev.cov["sync_connect_accepted"] = n_sc_ok
    ev.cov["sync_connect_ping_thread_mismatch_outside_C20"] = ping_only
    ev.cov["sync_connect_connected_without_pings"] = [lg["losses"] for lg in slogs if lg["final"]["connected"] and not lg["final"]["ping"]]
    ev.cov["traces_validated_against_impl"] = len(behs) + n - len(bad) + n_sc_ok
    ev.cov["evaluations"] = steps + n
    ev.cov["distinct_nontrivial"] = len(distinct) + len({json.dumps(r_["pattern"], sort_keys=True) for r_ in recs})
    ev.cov["rule"] = "distinct simulated behaviours (by action sequence) + distinct handshake loss patterns"
    ev.sample({"handshake": recs[-1]["pattern"], "tx": recs[-1]["tx"], "connected": recs[-1]["connected"]})
    ev.assumptions += [
        "between the dispatch of a datagram and the timeout scan of the same iteration no handler timeout elapses",
        "replay uses a throttle rate of 64/s and a time unit of 1/1024 s so that all clock arithmetic is exact",
        "loss patterns lose at most N (the retry count) leading attempts of each handshake step",
    ]
