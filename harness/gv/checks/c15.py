"""C15 — discovery lists each spa once, honours the filter, and terminates on time.

Design: spec/Discovery.tla (consumer and discover loop as independent pollers, replies at
any time and multiplicity, the four filter settings); invariants NoDuplicates,
OnlyRequested, WithinTimeout, PromptWhenFiltered, PromptWhenAny, NotEarly.
Binding: real GeckoAsyncLocator.discover() on the virtual loop against scripted
responders (replies built with the real hello handler: names with '|' and latin-1,
duplicates, any latency, loss), with and without address / identifier filters, suspended
client handlers, wake-order policies; queue pops are observed through the harness-side
queue wrapper; logs validated by TLC (Discovery_Trace)."""
import asyncio

from .. import env, tlc, kf
from ..vloop import World
from ..simnet import Network
from ..sessions import QueueTap

CFG = """SPECIFICATION TSpec
CONSTANTS Spas = {{"s1", "s2", "s3", "s4", "s5", "s6"}}
          Filter = "{flt}"
          Poll = {poll}
          Initial = {initial}
          Timeout = {timeout}
          MaxArrivals = 100000
          ListsAll = {listsall}
          Eps = 6
CONSTRAINT Track
POSTCONDITION Report
CHECK_DEADLOCK FALSE
"""

NAMES = ["My Spa", "a|b", "|", "caf\xe9 b\xf6b's", "x", "", "Spa||2|", "\xff\xfe name", "Udp Test Spa",
         # names whose first / last character is whitespace to str.strip (incl. latin-1 NBSP, NEL, FS..US)
         " padded ", "nbsp\xa0", "\x85nel", "tab\t", "\x1cfs us\x1f", " Hot|Tub|2 ",
         # names made of / ending in the characters of the framing tags themselves
         "POOL", "HELLO", "CASA DEL SOL", "Spa <3>", "a/", "<HELLO>", "O",
         # names that CONTAIN the prefixes by which an app's own hello is recognised (IOS..., AND...)
         "GRAND ISLAND SPA", "PATIOS", "ANDROMEDA", "IOS"]


class Responder:
    def __init__(self, token, ident, name, addr, plan):
        self.token, self.ident, self.name, self.addr = token, ident, name, addr
        self.plan = plan          # broadcast index -> list of latencies (s)
        self.n = 0
        from geckolib.driver import GeckoHelloProtocolHandler
        self.reply = GeckoHelloProtocolHandler.response(ident, name).send_bytes

    def on_datagram(self, data, sender):
        if data != b"<HELLO>1</HELLO>":
            return []
        lat = self.plan(self.n)
        self.n += 1
        return [(self.reply, sender, x) for x in lat]


def _ms(t):
    return int(round(t * 1000))


def cancelled_run(rng, cancel_at, n_spas):
    """a discovery run that is CANCELLED while it waits (the way a caller's deadline or a manager's shutdown ends it):
    when the call has ended, its endpoint is closed, nothing it started is alive and nothing is listed afterwards"""
    from geckolib.async_locator import GeckoAsyncLocator
    from geckolib.async_tasks import AsyncTasks
    resp = [Responder(f"s{i}", f"SPA0{i}:01:02:03:04:05".encode(), f"spa {i}", (f"10.0.1.{i + 1}", 10022),
                      (lambda L: (lambda n: [L] if n == 0 else []))(0.02 + 0.01 * i)) for i in range(n_spas)]
    net = Network(resp, latency=0.0)
    with World(net, rank=rng.choice(["stable", "reverse", "perm"]), rng=rng.random()) as w:
        loop = w.loop
        late = []

        async def handler(event, **kwargs):
            if event.name == "LOCATING_DISCOVERED_SPA":
                late.append(loop.time())

        async def main():
            tm = AsyncTasks()
            await tm.__aenter__()
            try:
                loc = GeckoAsyncLocator(tm, handler)
                before = set(loop.tasks)
                t = loop.create_task(loc.discover(), name="GV:discover")
                await asyncio.sleep(cancel_at)
                t.cancel()
                try:
                    await t
                except asyncio.CancelledError:
                    pass
                t_end = loop.time()
                n_listed = len(loc.spas or [])
                await asyncio.sleep(0)
                await asyncio.sleep(0)
                alive = [x.get_name() for x in loop.tasks if x not in before and not x.done() and x is not t
                         and x is not asyncio.current_task()]
                closed = all(tr.closed for tr in loop.transports)
                await asyncio.sleep(3.0)
                return {"kind": "cancelled", "cancel_at_ms": _ms(cancel_at), "spas": n_spas, "alive": alive, "closed": closed,
                        "listed_after": len(loc.spas or []) - n_listed, "events_after": sum(1 for x in late if x > t_end + 1e-9)}
            finally:
                await tm.__aexit__(None)
        return w.run(main())


def repeated_runs(rng, n_runs):
    """several discovery runs back to back on ONE task manager (the manager's pump does exactly this), within one
    tidy period: after each of them nothing it started is alive"""
    from geckolib.async_locator import GeckoAsyncLocator
    from geckolib.async_tasks import AsyncTasks
    resp = [Responder("s0", b"SPA00:01:02:03:04:05", "one", ("10.0.1.1", 10022), lambda n: [0.02])]
    net = Network(resp, latency=0.0)
    out = []
    with World(net, rank=rng.choice(["stable", "reverse", "perm"]), rng=rng.random()) as w:
        loop = w.loop

        async def handler(event, **kwargs):
            pass

        async def main():
            tm = AsyncTasks()
            await tm.__aenter__()
            try:
                for k in range(n_runs):
                    before = set(loop.tasks)
                    loc = GeckoAsyncLocator(tm, handler, spa_identifier="SPA00:01:02:03:04:05")
                    await loc.discover()
                    await asyncio.sleep(0)
                    await asyncio.sleep(0)
                    alive = [x.get_name() for x in loop.tasks if x not in before and not x.done() and x is not asyncio.current_task()]
                    out.append({"kind": "repeated", "run": k + 1, "alive": alive, "closed": all(tr.closed for tr in loop.transports),
                                "listed": len(loc.spas or [])})
            finally:
                await tm.__aexit__(None)
        w.run(main())
    return out


def stray_witness(stray, stray_at, reply_at):
    """LocatorQueue.tla on the real GeckoAsyncLocator: one spa answers every broadcast after `reply_at`; a single
    datagram that is not a hello reaches the locator's endpoint at `stray_at`.  -> what the run listed and when it
    returned.  (Outside C15's quantifier, which ranges over discovery replies: evidence, not a verdict.)"""
    from geckolib.async_locator import GeckoAsyncLocator
    from geckolib.async_tasks import AsyncTasks
    resp = Responder("s1", b"SPA00:01:02:03:04:05", "one", ("10.0.1.1", 10022), lambda n: [reply_at] if n == 0 else [0.05])
    net = Network([resp], latency=0.0)
    with World(net, rank="stable") as w:
        loop = w.loop
        state = {}

        def on_endpoint(tr, proto):
            state["t0"] = loop.time()
            if stray is not None:
                net.inject(tr, stray, ("10.0.1.9", 10022), delay=stray_at)
        loop.on_endpoint = on_endpoint

        async def handler(event, **kwargs):
            pass

        async def main():
            loc = GeckoAsyncLocator(AsyncTasks(), handler)
            await loc.discover()
            return loop.time() - state["t0"], [d.identifier.decode() if isinstance(d.identifier, bytes) else str(d.identifier) for d in (loc.spas or [])]
        t, spas = w.run(main())
    return {"listed": spas, "returned_after_ms": _ms(t)}


def scenario(rng, spec):
    """spec: dict(responders=[(token, name, plan)], filter, hd, rank)"""
    from geckolib.async_locator import GeckoAsyncLocator
    from geckolib.async_tasks import AsyncTasks
    from geckolib.config import GeckoConfig
    from geckolib.const import GeckoConstants
    resp = []
    for i, (token, name, plan) in enumerate(spec["responders"]):
        ident = f"SPA{i:02}:0{i}:aa:bb:cc:{rng.randrange(10, 99)}".encode()
        if rng.random() < 0.15:
            ident = f"HOTEL-{i}-SPA<{rng.randrange(10, 99)}>".encode()       # identifiers are free text too
        resp.append(Responder(token, ident, name, (f"10.0.1.{i + 1}", 10022), plan))
    net = Network(resp, latency=0.0)
    ev = []
    by_ident = {r.ident: r for r in resp}
    flt = spec["filter"]
    kw = {}
    if flt == "addr" and spec.get("bcast_addr"):
        # an address filter that is not the answering spa's own address: the subnet's directed broadcast address
        # (every spa answers from its OWN address, which is what its descriptor carries)
        kw["spa_address"] = "10.0.1.255"
    elif flt == "addr":
        kw["spa_address"] = resp[0].addr[0]
    elif flt == "none" and spec.get("empty_addr"):
        kw["spa_address"] = ""            # the "no address configured" value of a configuration entry: same as none
    elif flt == "none" and spec.get("empty_ident"):
        kw["spa_identifier"] = ""         # likewise "no identifier configured"
    elif flt == "absent":
        kw["spa_identifier"] = "SPA-not-there"
    elif flt != "none":
        kw["spa_identifier"] = next(r for r in resp if r.token == flt).ident.decode("latin1")
    with World(net, rank=spec["rank"], rng=rng.random()) as w:
        loop = w.loop
        state = {"t0": None, "tap": None}

        def on_endpoint(tr, proto):
            state["t0"] = loop.time()
            tap = QueueTap(proto, loop)
            state["tap"] = tap
            orig_append = tap.log.append

        loop.on_endpoint = on_endpoint
        if spec.get("late"):
            lrng = env.rng(f"c15-late-{rng.random()}")
            loop.lateness = lambda: lrng.choice([0.0, spec["late"] / 2, spec["late"]])

        async def handler(event, **kwargs):
            if event.name == "LOCATING_DISCOVERED_SPA":
                d = kwargs["spa_descriptor"]
                r = by_ident.get(d.identifier)
                ev.append({"k": "disc", "spa": r.token if r else "?", "name": list(d.name.encode("latin1", "replace")),
                           "ip": d.ipaddress, "port": d.port, "t": _ms(loop.time() - state["t0"]), "_abs": loop.time()})
                if spec["hd"]:
                    await asyncio.sleep(spec["hd"])

        async def main():
            tm = AsyncTasks()
            loc = GeckoAsyncLocator(tm, handler, **kw)
            before = set(loop.tasks)
            await loc.discover()
            tret = loop.time()
            await asyncio.sleep(0)
            await asyncio.sleep(0)
            # every task the run started, whatever its name (a helper wrapped in an anonymous task is a helper too)
            alive = [t for t in loop.tasks if t not in before and not t.done() and t is not asyncio.current_task()]
            closed = all(t.closed for t in loop.transports)
            spas = []
            for d in (loc.spas or []):
                r = by_ident.get(d.identifier)
                spas.append(r.token if r else "?")
            return tret, spas, closed, len(alive)

        tret, spas, closed, alive = w.run(main())
        t0 = state["t0"]
        tap = state["tap"]
        for e in tap.log:
            if e["k"] == "put":
                ident = e["data"][7:-8].split(b"|")[0]
                r = by_ident.get(ident)
                ev.append({"k": "arrive", "id": e["id"], "spa": r.token if r else "?", "t": _ms(e["t"] - t0), "_abs": e["t"]})
            elif e["k"] == "pop":
                ev.append({"k": "pop", "id": e["id"], "t": _ms(e["t"] - t0), "_abs": e["t"] - 1e-9})
        ev.sort(key=lambda e: (e["_abs"], {"arrive": 0, "pop": 1, "disc": 2}[e["k"]]))
        ev = [e for e in ev if e["_abs"] <= tret + 1e-9]
        for e in ev:
            e.pop("_abs")
        ev.append({"k": "ret", "t": _ms(tret - t0), "spas": spas, "closed": closed, "loctasks": alive})
    return {"ev": ev, "filter": flt, "hd": _ms(spec["hd"]), "late": _ms(spec.get("late", 0)),
            "resp": {r.token: {"name": list(r.name.encode("latin1")), "ip": r.addr[0], "port": r.addr[1]} for r in resp},
            "const": {"poll": _ms(GeckoConstants.ASYNCIO_SLEEP_TIMEOUT_FOR_YIELD),
                      "initial": _ms(GeckoConfig.DISCOVERY_INITIAL_TIMEOUT_IN_SECONDS),
                      "timeout": _ms(GeckoConfig.DISCOVERY_TIMEOUT_IN_SECONDS)}}


def scenario_sync(rng, spec):
    """the blocking GeckoLocator on the stepped engine (syncdisc.SyncDiscovery); same log format"""
    from ..syncdisc import SyncDiscovery
    from geckolib.config import GeckoConfig
    resp = []
    for i, (token, name, plan) in enumerate(spec["responders"]):
        ident = f"SPA{i:02}:0{i}:aa:bb:cc:{rng.randrange(10, 99)}".encode()
        resp.append(Responder(token, ident, name, (f"10.0.1.{i + 1}", 10022), plan))
    flt = spec["filter"]
    kw = {}
    if flt == "addr":
        kw["static_ip"] = resp[0].addr[0]
    elif flt == "absent":
        kw["spa_to_find"] = "SPA-not-there"
    elif flt != "none":
        kw["spa_to_find"] = next(r for r in resp if r.token == flt).ident.decode("latin1")
    ev = SyncDiscovery(resp, **kw).run()
    return {"ev": ev, "filter": flt, "hd": 0, "late": 0, "stack": "sync",
            "resp": {r.token: {"name": list(r.name.encode("latin1")), "ip": r.addr[0], "port": r.addr[1]} for r in resp},
            "const": {"poll": 100, "initial": _ms(GeckoConfig.DISCOVERY_INITIAL_TIMEOUT_IN_SECONDS),
                      "timeout": _ms(GeckoConfig.DISCOVERY_TIMEOUT_IN_SECONDS)}}


def plans(rng):
    kind = rng.randrange(7)
    if kind == 0:
        return lambda n: [0.01]                       # answers every broadcast
    if kind == 1:
        return lambda n: [0.01, 0.02, 0.5] if n == 0 else []   # three copies of the first answer
    if kind == 2:
        lat = rng.choice([1.5, 3.7, 3.85, 3.95, 4.05, 5.9, 9.85, 9.95, 12.0])
        return lambda n: [lat] if n == 0 else []      # one late answer
    if kind == 3:
        return lambda n: []                           # silent
    if kind == 4:
        p = rng.random()
        return lambda n: [rng.random() * 2] if rng.random() < p else []
    if kind == 5:
        lat = rng.randrange(0, 4200) / 1000
        return lambda n: [lat, lat + 0.05] if n == 0 else [0.3]
    return lambda n: [0.0] * rng.randrange(1, 4)


def run(ctx):
    ev = ctx.ev
    rng = env.rng("c15")
    for f in ("none", "addr", "a", "absent"):
        r = tlc.model_check("Discovery", f"Discovery_{f}.cfg", timeout=600, tag=f"Discovery-{f}")
        ctx.tlc_design(f"Discovery filter={f}: 3 spas, <=4 replies at any time, consumer/loop wake orders", r)
    r = tlc.model_check("Discovery", "Discovery_sync_a.cfg", timeout=600, tag="Discovery-sync-a")
    ctx.tlc_design("Discovery, blocking locator (lists every answering spa), identifier filter: timing and uniqueness properties", r)
    r = tlc.model_check("Discovery", "Discovery_sync_a_ctl.cfg", timeout=600, tag="Discovery-sync-ctl", coverage=False)
    ev.add_tlc("the same configuration against the stated property OnlyRequested (refuted: known finding D20)", r)
    if "OnlyRequested" not in r.violated:
        raise env.MachineryError("blocking-locator model unexpectedly satisfies OnlyRequested")
    # ---- growth: the locator's queue has a single consumer (LocatorQueue.tla) ---------------------------
    rq = tlc.model_check("LocatorQueue", "LocatorQueue_conn.cfg", workers=2, timeout=300, tag="LQ-conn", coverage=False)
    ctx.tlc_design("LocatorQueue, a connection's arrangement (Unhandled consumer): no reply starves behind a stray datagram", rq)
    rq2 = tlc.model_check("LocatorQueue", "LocatorQueue_loc.cfg", workers=2, timeout=300, tag="LQ-loc", coverage=False)
    ev.add_tlc("witness (refuted on purpose): the locator's arrangement (hello consumer only) starves replies behind a stray datagram", rq2)
    if "NoStarvation" not in rq2.violated:
        raise env.MachineryError("LocatorQueue witness not reached")
    ev.cov["stray_datagram_witness"] = {
        "no stray datagram": stray_witness(None, 0, 0.3),
        "stray <PACKT> before the first reply": stray_witness(b"<PACKT><SRCCN>SPA</SRCCN><DESCN>IOS</DESCN><DATAS>APING</DATAS></PACKT>", 0.1, 0.3),
        "stray datagram after the first reply was consumed": stray_witness(b"junk", 1.0, 0.3),
    }
    for cancel_at, n_spas in ((0.25, 6), (0.05, 3), (1.5, 2), (4.05, 1)) + (() if ctx.quick else tuple((0.1 * k, 5) for k in range(1, 40))):
        cr = cancelled_run(rng, cancel_at, n_spas)
        ev.cov.setdefault("cancelled_runs", []).append(cr)
        if cr["alive"] or not cr["closed"] or cr["listed_after"] or cr["events_after"]:
            ctx.violation({"clause": "helper-tasks-alive" if cr["alive"] else "endpoint-open" if not cr["closed"] else "listed-after-the-run-ended",
                           "run": "cancelled"}, cr)
    for rr in repeated_runs(rng, 4):
        ev.cov.setdefault("repeated_runs", []).append(rr)
        if rr["alive"] or not rr["closed"] or rr["listed"] != 1:
            ctx.violation({"clause": "helper-tasks-alive" if rr["alive"] else "endpoint-open" if not rr["closed"] else "not-listed",
                           "run": "repeated"}, rr)
    logs = []
    n_sc = 120 if ctx.quick else 3000
    tokens = ["s1", "s2", "s3", "s4", "s5", "s6"]
    for i in range(n_sc):
        k = rng.choice([0, 1, 1, 2, 3, 6]) if i % 10 else 2
        # (every name of the list is some scenario's first responder: no name is left to chance)
        responders = [(tokens[j], NAMES[i % len(NAMES)] if j == 0 else rng.choice(NAMES), plans(rng)) for j in range(k)]
        flt = rng.choice(["none", "none", "addr", "absent"] + ([responders[rng.randrange(k)][0]] * 2 if k else []))
        if flt == "addr" and not k:
            flt = "none"
        logs.append(scenario(rng, {"responders": responders, "filter": flt, "empty_addr": i % 3 == 0, "empty_ident": i % 3 == 1,
                                   "bcast_addr": i % 4 == 1,
                                   "hd": rng.choice([0, 0, 0, 0.15, 0.35]),
                                   "rank": rng.choice(["stable", "reverse", "perm", "seeded"])}))
    # chatty neighbourhoods (fixed members, not drawn): six spas that answer every broadcast three times over, and six
    # that all answer just before the initial wait ends - replies are still queued when it ends; the run ends there
    for rank_ in ("stable", "reverse"):
        logs.append(scenario(rng, {"responders": [(tokens[j], f"chatty {j}", lambda n: [0.01, 0.02, 0.03]) for j in range(6)],
                                   "filter": "none", "hd": 0, "rank": rank_}))
        logs.append(scenario(rng, {"responders": [(tokens[j], f"late {j}", lambda n: [3.9 - 1.1 * n, 3.92 - 1.1 * n] if n < 3 else [])
                                                  for j in range(6)],
                                   "filter": "none", "hd": 0, "rank": rank_}))
    # boundary grid: a reply consumed just before discover() decides to finish, with a client
    # handler that suspends (initial-wait boundary with another spa listed; timeout boundary)
    for hd in (0.15, 0.35):
        for k in range(0, 13):
            lat = 3.55 + 0.05 * k
            logs.append(scenario(rng, {"responders": [("s1", "first", lambda n: [0.01] if n == 0 else []),
                                                      ("s2", "late|one", (lambda L: (lambda n: [L] if n == 0 else []))(lat))],
                                       "filter": "none", "hd": hd, "rank": "stable"}))
        for k in range(0, 10):
            lat = 9.6 + 0.05 * k
            logs.append(scenario(rng, {"responders": [("s1", "only", (lambda L: (lambda n: [L] if n == 0 else []))(lat))],
                                       "filter": "none", "hd": hd, "rank": "stable"}))
    # a loaded host: every wake-up of the loop is up to 30 ms late; the bounds move by one lateness, not
    # by one lateness per poll (runs that end by the timeout, by the initial wait, by the requested spa)
    for late in (0.03, 0.01):
        for flt, responders in (("none", []), ("absent", [("s1", "other", lambda n: [0.02])]),
                                ("none", [("s1", "one", lambda n: [0.02] if n == 0 else [])]),
                                ("s1", [("s1", "wanted", lambda n: [2.5] if n == 0 else [])]),
                                ("addr", [("s1", "addressed", lambda n: [0.3] if n == 1 else [])])):
            logs.append(scenario(rng, {"responders": responders, "filter": flt, "hd": 0, "rank": "stable", "late": late}))
    # the blocking locator (same model, ListsAll = TRUE: it lists every answering spa)
    for i in range(40 if ctx.quick else 1000):
        k = rng.choice([0, 1, 1, 2, 3, 6]) if i % 10 else 2
        responders = [(tokens[j], rng.choice(NAMES), plans(rng)) for j in range(k)]
        flt = rng.choice(["none", "none", "addr", "absent"] + ([responders[rng.randrange(k)][0]] * 2 if k else []))
        if flt == "addr" and not k:
            flt = "none"
        logs.append(scenario_sync(rng, {"responders": responders, "filter": flt}))
    groups = {}
    for lg in logs:
        c = lg["const"]
        groups.setdefault((lg["filter"], c["poll"], c["initial"], c["timeout"], lg.get("stack", "async")), []).append(lg)
    nontrivial = set()
    for (flt, poll, initial, timeout, stack), group in groups.items():
        verdicts, _ = tlc.validate("Discovery_Trace", group, f"c15-{flt}-{stack}",
                                   CFG.format(flt=flt, poll=poll, initial=initial, timeout=timeout,
                                              listsall="TRUE" if (stack == "sync" and "KF_SyncListsAll" in kf.flags()) else "FALSE"),
                                   chunk=60, heap="1500m", jobs=8, why_rejects=False)
        for lg, v in zip(group, verdicts):
            if len(lg["ev"]) > 1:
                nontrivial.add((flt, tuple((e["k"], e.get("spa"), e["t"]) for e in lg["ev"])))
            if v["accepted"]:
                ev.cov["traces_validated_against_impl"] += 1
                if "KF:ListsAll" in (v["why"] or []):
                    ctx.violation({"clause": "accepted-only-through-known-finding", "flag": "KF_SyncListsAll"},
                                  {"filter": flt, "listed": lg["ev"][-1].get("spas"), "responders": lg["resp"]})
            else:
                k = v["matched"]
                e = lg["ev"][k] if k < len(lg["ev"]) else {"k": "end"}
                clause = (v["why"] or [None])[0]
                if clause == "KF:ListsAll":
                    clause = None
                if clause is None:
                    if e["k"] == "ret":
                        r_ = e
                        disc = [x["spa"] for x in lg["ev"] if x["k"] == "disc"]
                        if not r_["closed"]:
                            clause = "endpoint-not-closed"
                        elif r_["loctasks"]:
                            clause = "helper-tasks-alive"
                        elif r_["spas"] != disc:
                            clause = "listed-differs-from-announced"
                        else:
                            clause = "return-time"
                    elif e["k"] == "disc":
                        clause = "descriptor-not-intact-or-unexpected"
                    elif e["k"] == "pop":
                        clause = "queue-order"
                    else:
                        clause = "reply-waited-too-long-at-queue-head"
                ctx.violation({"clause": clause, "filter": "id" if flt.startswith("s") else flt, **({"stack": "sync"} if stack == "sync" else {})},
                              {"matched": k, "of": len(lg["ev"]), "event": e, "before": lg["ev"][max(0, k - 6):k],
                               "handler_delay_ms": lg["hd"], "responders": lg["resp"]})
    ev.cov["evaluations"] = sum(len(l["ev"]) for l in logs)
    ev.cov["distinct_nontrivial"] = len(nontrivial)
    ev.cov["rule"] = "discovery runs with at least one reply, distinct by filter and full timed event sequence"
    lg = next((l for l in logs if len(l["ev"]) > 4), logs[0])
    ev.sample({"filter": lg["filter"], "events": lg["ev"][:10]})
    ev.assumptions += ["spa identifiers are ASCII; names are arbitrary latin-1 incl. '|'",
                       "only hello replies reach the locator's queue (it has no consumer for other traffic)",
                       "timing tolerance: one poll + 6 ms (+ the client handler's own suspension for queue-head waits)"]
