"""Real GeckoAsyncFacade / GeckoFacade objects on a mock spa built from real tables
(the pattern of tests/test_snapshots.py), for the sequential world (W3)."""
import asyncio

from . import env, packs


class MockSpa:
    """what the automation layer needs from a spa: struct, accessors, identity, pings"""

    def __init__(self, struct):
        self.struct = struct
        self.is_responding_to_pings = False
        self.pack_type = 0
        self.sent = []

    @property
    def accessors(self):
        return self.struct.accessors

    # sync facade surface
    def wait(self, t):
        pass

    @property
    def isopen(self):
        return False

    class _D:
        name = "gv"
        identifier_as_string = "SPA01:02:03:04:05:06"
    descriptor = _D()


def mods_of(plat, c, l):
    ms = {(m["kind"], m["platform"], m["version"]): m for m in packs.modules()}
    return ms[("cfg", plat, c)], ms[("log", plat, l)]


def make_struct(cfg, log, block, on_set=None, on_async_set=None, async_=True):
    from geckolib.driver import GeckoStructure, GeckoAsyncStructure
    st = GeckoAsyncStructure(on_set, on_async_set) if async_ else GeckoStructure(on_set)
    st.set_status_block(block)
    lt = packs.table(log, st)
    st.build_accessors(packs.table(cfg, st), lt)
    # the TABLE's own order of devices and demands (what "table order" means), read from the module, not from what
    # the structure class made of it
    st._gv_table_devices = list(lt.all_device_keys)
    st._gv_table_demands = list(lt.user_demand_keys)
    return st


class Rig:
    """One event loop + task manager reused for many facade constructions."""

    def __init__(self):
        from geckolib.async_tasks import AsyncTasks
        import geckolib.config as cfg
        self.loop = asyncio.new_event_loop()
        cfg.ConfigChange = None
        self.tm = AsyncTasks()
        self.loop.run_until_complete(self.tm.__aenter__())
        self.loop.run_until_complete(asyncio.sleep(0))

    def facade(self, spa):
        from geckolib.automation.async_facade import GeckoAsyncFacade

        async def mk():
            return GeckoAsyncFacade(spa, self.tm)
        f = self.loop.run_until_complete(mk())
        # the update task is not needed in W3
        self.tm.cancel_key_tasks("FACADE")
        self.loop.run_until_complete(asyncio.sleep(0))
        self.tm._tasks = [t for t in self.tm._tasks if not t.done()]
        return f

    def run(self, coro):
        return self.loop.run_until_complete(coro)

    def close(self):
        try:
            self.loop.run_until_complete(self.tm.__aexit__(None))
        finally:
            self.loop.close()


