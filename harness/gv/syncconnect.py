"""Connections of the blocking client (GeckoFacade + GeckoSpa on the stepped engine, ping thread running as a
cooperative real thread, real simulator) under seeded loss, logged for SyncConnect_Trace."""
import contextlib
import io
import math

from . import env
from .sessions import ThreadedSession, inner
from .simnet import SimPeer

VERBS = [b"AVERS", b"CURCH", b"SFILE", b"STATU"]
REPLY = {b"SVERS": 0, b"CHCUR": 1, b"FILES": 2, b"STATV": 3}

CFG = """SPECIFICATION TSpec
CONSTANTS R = {R}
          ConnTimeout = {CT}
          MaxAge = {maxage}
CONSTRAINT Track
POSTCONDITION Report
CHECK_DEADLOCK FALSE
"""


def consts():
    from geckolib.config import GeckoConfig
    from geckolib.const import GeckoConstants
    return {"R": GeckoConfig.PROTOCOL_RETRY_COUNT, "CT": GeckoConstants.CONNECTION_TIMEOUT_IN_SECONDS}


def connect_log(rng, losses, horizon):
    """losses: list of four numbers, the leading attempts of each chain request whose answer is lost (for the
    status block: whose first segment is lost).  -> log"""
    peer = SimPeer(env.REPO + "/tests/snapshots/default.snapshot")
    lost = [0, 0, 0, 0]
    ev = []
    with ThreadedSession(peer=peer) as s:
        spa = s.spa
        t0 = spa._connection_started

        def age():
            return max(0, int(math.ceil(s.w2.clock.t - t0 - 1e-9)))

        def drop(data, direction):
            if direction != "s2c":
                return False
            c = inner(data) or b""
            k = REPLY.get(c[:5])
            if k is None or lost[k] >= losses[k]:
                return False
            if k == 3 and c[5] != 0:
                return False               # (only the first segment of a lost answer is dropped: the chain breaks)
            lost[k] += 1
            return True
        s.drop = drop

        def ping_alive():
            recs = [r for r in s.w2.coop.recs if r["name"] == "_ping_thread_func"]
            if not recs:
                raise env.MachineryError("syncconnect: the ping thread was not started")
            return not recs[0]["done"]

        def proj():
            st = 0
            if spa.intouch_version_en != "":
                st = 1
                if spa.channel != 0 or spa.signal != 0:
                    st = 2
                    if spa.config_version != 0:
                        st = 3
                        if spa.struct.had_at_least_one_block:
                            st = 4
            return {"step": st, "connected": bool(spa._is_connected), "ready": bool(s.facade._facade_ready),
                    "ping": ping_alive(), "err": bool(spa.is_in_error)}

        last = proj()
        ev.append({"k": "st", "t": 0, "chk": True, **last})
        seen = 0
        while s.w2.clock.t - t0 < horizon:
            with contextlib.redirect_stdout(io.StringIO()):
                s.pump(1, dt=0.05)
            wire = s.sock.wire
            while seen < len(wire):
                t, d, _ = wire[seen]
                seen += 1
                c = inner(d) or b""
                if c[:5] in VERBS and last["step"] < 4:
                    if c[:5] == b"STATU" and last["connected"]:
                        continue
                    ev.append({"k": "tx", "step": VERBS.index(c[:5]), "t": max(0, int(math.ceil(t - t0 - 1e-9)))})
            cur = proj()
            if cur != last:
                ev.append({"k": "st", "t": age(), "chk": True, **cur})
                last = cur
        ev.append({"k": "st", "t": age(), "chk": True, **proj()})
        ok = bool(s.facade.is_connected) if not spa.is_in_error or spa._is_connected else False
        return {"ev": ev, "losses": list(losses), "final": proj(), "horizon": horizon,
                "identical": spa.struct.status_block == peer.sim.structure.status_block}
