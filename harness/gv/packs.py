"""Enumeration of the shipped pack tables and extraction of item parameters *as the
code derived them* (through real accessor objects)."""
import importlib
import os
import re

from . import env

_NAME = re.compile(r"^(?P<plat>.+?)-(?P<kind>cfg|log)-(?P<ver>\d+)$")


def pack_dir():
    return os.path.join(env.SRC, "geckolib", "driver", "packs")


def modules():
    """-> list of dict(name, kind in pack|cfg|log, platform, version)"""
    out = []
    for f in sorted(os.listdir(pack_dir())):
        if not f.endswith(".py") or f == "__init__.py":
            continue
        name = f[:-3]
        m = _NAME.match(name)
        if m:
            out.append({"name": name, "kind": m.group("kind"), "platform": m.group("plat"),
                        "version": int(m.group("ver"))})
        else:
            out.append({"name": name, "kind": "pack", "platform": name, "version": None})
    return out


def load(name):
    return importlib.import_module(f"geckolib.driver.packs.{name}")


def table(mod, struct):
    m = load(mod["name"])
    if mod["kind"] == "cfg":
        return m.GeckoConfigStruct(struct)
    if mod["kind"] == "log":
        return m.GeckoLogStruct(struct)
    return m.GeckoPack(struct)


def shape_of(acc):
    """shape record of spec/BitField.tla for a real accessor object"""
    t = acc.type
    cls = type(acc).__name__
    if cls == "GeckoTempStructAccessor":
        t = "Temp"
    bitpos = -1 if acc.bitpos is None else int(acc.bitpos)
    mask = int(getattr(acc, "bitmask", -1)) if bitpos >= 0 else -1
    items = acc.items if isinstance(acc.items, list) else None
    return {
        "type": t, "len": int(acc.length), "bitpos": bitpos, "mask": mask,
        "nitems": len(items) if items is not None else 0,
        "rw": "none" if acc.read_write is None else str(acc.read_write),
    }


def combos():
    """all platform x config x log combinations present on disk"""
    mods = modules()
    plats = sorted({m["platform"] for m in mods if m["kind"] == "pack"})
    out = []
    for p in plats:
        cfgs = sorted(m["version"] for m in mods if m["kind"] == "cfg" and m["platform"] == p)
        logs = sorted(m["version"] for m in mods if m["kind"] == "log" and m["platform"] == p)
        for c in cfgs:
            for l in logs:
                out.append((p, c, l))
    return out
