"""W1 — deterministic virtual-time asyncio world.

* VLoop: SelectorEventLoop whose selector never blocks; select(timeout) jumps the
  virtual clock to the next timer.  loop.time() and time.monotonic read that clock.
* equal deadlines are ordered by a *rank policy* (stable by task creation / seeded per
  tick / scripted), implemented as a sub-microsecond offset added in call_at after
  snapping poll-grid deadlines to the grid (so offsets never accumulate).
* create_datagram_endpoint hands out FakeTransports bound to a Network object.
* a task factory records creation and termination of every task with its name.
"""
import asyncio
import heapq
import selectors
import time as _time

GRID = 0.1

import itertools
SEQ = itertools.count(1)      # global order of harness-observed events


class _NullSelector(selectors.BaseSelector):
    def __init__(self, loop_ref):
        self._real = selectors.DefaultSelector()
        self._loop_ref = loop_ref

    def register(self, fileobj, events, data=None):
        return self._real.register(fileobj, events, data)

    def unregister(self, fileobj):
        return self._real.unregister(fileobj)

    def modify(self, fileobj, events, data=None):
        return self._real.modify(fileobj, events, data)

    def select(self, timeout=None):
        loop = self._loop_ref[0]
        if timeout is None:
            # nothing scheduled and nothing ready: the world is dead-locked
            loop._deadlocked = True
            loop.stop()
            return []
        if timeout > 0 and loop._scheduled:
            when = loop._scheduled[0]._when
            if when > loop._vtime:
                # a loaded host wakes the loop late: `lateness()` seconds after the earliest timer is due
                late = loop.lateness() if getattr(loop, "lateness", None) else 0.0
                loop._vtime = when + late
                if late and getattr(loop, "on_late", None):
                    loop.on_late(when, late)
        return []

    def close(self):
        self._real.close()

    def get_map(self):
        return self._real.get_map()


class FakeTransport(asyncio.DatagramTransport):
    _next_port = [40000]

    def __init__(self, loop, protocol, kw):
        super().__init__()
        self.loop = loop
        self.protocol = protocol
        self.kw = kw
        self.closed = False
        self.closed_at = None
        self.opened_at = loop.time()
        FakeTransport._next_port[0] += 1
        self.local = ("10.0.0.2", FakeTransport._next_port[0])
        self.sent = []
        self.sent_by = []
        self.sent_n = []
        self.opened_by = _task_name()
        self.id = len(loop.transports) + 1

    def sendto(self, data, addr=None):
        self.sent.append((self.loop.time(), bytes(data), addr))
        self.sent_by.append(_task_name())
        self.sent_n.append(next(SEQ))
        if self.closed:
            return
        self.loop.net.client_send(self, bytes(data), addr)

    def close(self):
        if self.closed:
            return
        self.closed = True
        self.closed_at = self.loop.time()
        self.loop.log_res("close", "endpoint", self.id)
        self.loop.call_soon(self.protocol.connection_lost, None)

    def is_closing(self):
        return self.closed

    def abort(self):
        self.close()

    def get_extra_info(self, name, default=None):
        if name == "sockname":
            return self.local
        return default

    def deliver(self, data, addr):
        if not self.closed:
            self.protocol.datagram_received(data, addr)

    def __repr__(self):
        return f"<FakeTransport #{self.id} {'closed' if self.closed else 'open'}>"


def _task_name():
    try:
        t = asyncio.current_task()
        return t.get_name() if t else None
    except RuntimeError:
        return None


class VLoop(asyncio.SelectorEventLoop):
    def __init__(self, net=None, rank="stable", rng=None):
        ref = [None]
        super().__init__(_NullSelector(ref))
        ref[0] = self
        self._vtime = 0.0
        self._deadlocked = False
        self._clock_resolution = 1e-12
        self.net = net
        if net is not None:
            net.loop = self
        self.transports = []
        self.tasks = []          # (name, task, created_at)
        self.task_seq = {}       # task -> creation index
        self.res_log = []        # resource events
        self.rank_mode = rank
        self.rank_rng = rng
        self.rank_script = {}    # tick(int) -> [task name, ...]
        self._seq = 0
        self.set_task_factory(self._factory)
        self.on_res = None
        self.on_endpoint = None
        import random as _r
        # per-iteration time jitter (seeded) for the non-stable rank policies: explores where a timer
        # lands inside a chain of immediately-ready callbacks
        self.iter_jitter = _r.Random(f"iter:{rng}") if rank in ("perm", "seeded") else None

    # ---- time --------------------------------------------------------------
    def time(self):
        return self._vtime

    ITER_EPS = 3e-8

    def _run_once(self):
        # a real loop spends time in every iteration, so a timer that is due a fraction later can
        # fire in the middle of a chain of immediately-ready callbacks; without this the virtual
        # clock would only move when the ready queue is empty and such interleavings never happen
        if self.iter_jitter is not None:
            self._vtime += 1e-8 + self.iter_jitter.random() * 9e-8
        else:
            self._vtime += self.ITER_EPS
        super()._run_once()

    def call_at(self, when, callback, *args, context=None):
        self._seq += 1
        # deadlines are snapped to the millisecond grid before the rank offset (< 0.1 ms) is
        # added, so that offsets never accumulate into drift
        g = round(when * 1000.0) / 1000.0
        if abs(when - g) < 2.5e-4:
            base = g
        else:
            base = when
        when2 = base + self._rank(base) * 1e-7 + (self._seq % 1000) * 1e-11
        if when2 < self._vtime:
            when2 = self._vtime
        return super().call_at(when2, callback, *args, context=context)

    def call_at_raw(self, when, callback, *args):
        """schedule at an exact virtual time (no grid snapping, no rank offset): used by the
        harness to place an arrival between two task wake-ups of the same tick"""
        return super().call_at(when, callback, *args)

    def _rank(self, base):
        try:
            t = asyncio.current_task(self)
        except RuntimeError:
            t = None
        if t is None:
            return 0
        idx = self.task_seq.get(t, 0) % 400 + 1
        if self.rank_mode == "stable":
            return idx
        tick = int(round(base / GRID))
        if self.rank_mode == "reverse":
            return 500 - idx
        if self.rank_mode == "perm":
            import random
            return random.Random(f"{self.rank_rng}:{t.get_name()}").randrange(1, 900)
        if self.rank_mode == "seeded":
            import random
            return random.Random(f"{self.rank_rng}:{t.get_name()}:{tick}").randrange(1, 900)
        if self.rank_mode == "script":
            order = self.rank_script.get(tick)
            if order is None:
                order = self.rank_script.get("default")
            if order:
                name = t.get_name()
                for i, n in enumerate(order):
                    if name == n or name.endswith(":" + n) or n in name:
                        return i + 1
                return 400 + idx
            return idx
        if callable(self.rank_mode):
            return self.rank_mode(t, tick, idx)
        return idx

    # ---- tasks -------------------------------------------------------------
    def _factory(self, loop, coro, **kw):
        task = asyncio.Task(coro, loop=loop, **kw)
        self.task_seq[task] = len(self.tasks)
        self.tasks.append(task)
        task._gv_created = self._vtime
        task.add_done_callback(self._task_done)
        self.call_soon(self._log_task_start, task)
        return task

    def _log_task_start(self, task):
        self.log_res("start", "task", task.get_name())

    def _task_done(self, task):
        task._gv_done = self._vtime
        self.log_res("end", "task", task.get_name())

    def log_res(self, op, kind, ident):
        rec = (self._vtime, op, kind, ident)
        self.res_log.append(rec)
        if self.on_res:
            self.on_res(rec)

    def live_tasks(self, prefix=None):
        return [t for t in self.tasks if not t.done()
                and (prefix is None or t.get_name().startswith(prefix))]

    # ---- endpoints ---------------------------------------------------------
    async def create_datagram_endpoint(self, protocol_factory, **kw):
        await asyncio.sleep(0)
        if getattr(self, "fail_endpoints", 0) > 0:
            # the operating system refuses the socket (descriptor exhaustion): what a real loop raises
            self.fail_endpoints -= 1
            if getattr(self, "on_endpoint_fail", None):
                self.on_endpoint_fail(kw)
            raise OSError(24, "Too many open files")
        protocol = protocol_factory()
        tr = FakeTransport(self, protocol, kw)
        self.transports.append(tr)
        self.log_res("open", "endpoint", tr.id)
        protocol.connection_made(tr)
        if self.on_endpoint:
            self.on_endpoint(tr, protocol)
        return tr, protocol

    def open_transports(self):
        return [t for t in self.transports if not t.closed]


class World:
    """Context manager: installs a VLoop, patches time.monotonic, resets geckolib's
    process-global configuration state."""

    def __init__(self, net=None, rank="stable", rng=None):
        self.loop = VLoop(net, rank, rng)
        self._saved = None

    def __enter__(self):
        import geckolib.config as cfg
        self._saved = _time.monotonic
        loop = self.loop
        _time.monotonic = lambda: loop._vtime
        cfg.ConfigChange = None
        cfg.set_config_mode.__globals__["ConfigChange"] = None
        idle = cfg._GeckoIdleConfig()
        for m in cfg.CONFIG_MEMBERS:
            setattr(cfg.GeckoConfig, m, getattr(idle, m))
        asyncio.set_event_loop(loop)
        return self

    def __exit__(self, *a):
        _time.monotonic = self._saved
        loop = self.loop
        try:
            pend = [t for t in asyncio.all_tasks(loop) if not t.done()]
            for t in pend:
                t.cancel()
            if pend:
                # bounded: code under test that swallows cancellation must not hang the harness
                loop.run_until_complete(asyncio.wait(pend, timeout=600))
        except Exception:
            pass
        asyncio.set_event_loop(None)
        loop.close()
        return False

    def run(self, coro, limit=None):
        """Run coroutine to completion in virtual time."""
        return self.loop.run_until_complete(coro)
